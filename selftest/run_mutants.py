#!/venv/bin/python
"""Mutation audit of the monitors (DESIGN.md section 6.2).

    selftest/run_mutants.py [--only ID[,ID...]] [--props C01,C02] [--tier quick] [-j N]
                            [--others]   # also run checks the mutant does not target (silence screen)

Each mutant (selftest/mutants.py) is a set of exact-text replacements applied
to a scratch copy of /repo (under $TMPDIR, removed afterwards).  For each one:
  1. the repository's own test-suite must still pass on the copy (otherwise the
     mutant is "not realistic" and is reported as such);
  2. every owning check is run with --repo <copy> --no-evidence and must print
     a VIOLATION line (killed) - exit 2/inconclusive counts as survived.
Prints a kill matrix and exits 1 if a realistic mutant survived.
"""
import argparse
import concurrent.futures
import json
import os
import shutil
import subprocess
import sys
import tempfile

HERE = os.path.dirname(os.path.dirname(os.path.abspath(__file__)))
sys.path.insert(0, os.path.join(HERE, "selftest"))


def make_copy(repo):
    d = tempfile.mkdtemp(prefix="pmdmut-")
    dst = os.path.join(d, "repo")
    shutil.copytree(repo, dst, ignore=shutil.ignore_patterns(".git", "__pycache__", "*.pyc", "*.egg-info", "doc"))
    return d, dst


def apply_edits(dst, edits):
    for rel, old, new in edits:
        p = os.path.join(dst, rel)
        with open(p) as f:
            s = f.read()
        if s.count(old) != 1:
            return "edit does not apply exactly once in %s (%d matches): %r" % (rel, s.count(old), old[:60])
        with open(p, "w") as f:
            f.write(s.replace(old, new))
    return None


def run_suite(dst):
    env = dict(os.environ)
    env.pop("PRODUCTMD_VERIF", None)
    env["PYTHONDONTWRITEBYTECODE"] = "1"
    r = subprocess.run(["/venv/bin/python", "-m", "pytest", "-q", "-x", "-p", "no:cacheprovider", "--timeout=600"],
                       cwd=dst, env=env, stdout=subprocess.PIPE, stderr=subprocess.STDOUT, text=True, timeout=1200)
    tail = r.stdout.strip().splitlines()[-1] if r.stdout.strip() else ""
    return r.returncode == 0, tail


def run_check(prop, dst, tier, seed):
    env = dict(os.environ)
    env["VERIF_SEED"] = str(seed)
    r = subprocess.run([os.path.join(HERE, "bin", "check"), prop, "--tier", tier, "--repo", dst, "--no-evidence"],
                       cwd=HERE, env=env, stdout=subprocess.PIPE, stderr=subprocess.STDOUT, text=True, timeout=7200)
    viol = [l for l in r.stdout.splitlines() if l.startswith("VIOLATION ")]
    mons = [l.strip() for l in r.stdout.splitlines() if l.strip().startswith("monitor=")]
    verdict = "killed" if (r.returncode == 1 and viol) else ("inconclusive" if r.returncode == 2 else "survived")
    # clean replay files written for the scratch copy
    for l in viol:
        rp = l.split("replay=")[-1].strip()
        try:
            os.unlink(os.path.join(HERE, rp))
        except OSError:
            pass
    return verdict, sorted(set(mons))[:3], r.stdout[-800:]


def one(m, repo, tier, seed, others, all_props):
    d, dst = make_copy(repo)
    try:
        err = apply_edits(dst, m["edits"])
        if err:
            return {"id": m["id"], "status": "broken-mutant", "detail": err}
        ok, tail = run_suite(dst)
        res = {"id": m["id"], "suite_passes": ok, "suite": tail, "checks": {}, "props": m["props"]}
        props = list(m["props"])
        if others:
            props += [p for p in all_props if p not in props]
        for p in props:
            v, mons, out = run_check(p, dst, tier, seed)
            res["checks"][p] = {"verdict": v, "monitors": mons}
            if v != "killed" and p in m["props"]:
                res["checks"][p]["tail"] = out
        return res
    finally:
        shutil.rmtree(d, ignore_errors=True)


def main():
    ap = argparse.ArgumentParser()
    ap.add_argument("--only", default="")
    ap.add_argument("--props", default="")
    ap.add_argument("--tier", default="quick")
    ap.add_argument("--seed", type=int, default=0)
    ap.add_argument("--repo", default="/repo")
    ap.add_argument("-j", type=int, default=4)
    ap.add_argument("--others", action="store_true")
    ap.add_argument("--json", default="")
    args = ap.parse_args()
    import mutants
    ms = mutants.MUTANTS
    if args.only:
        ids = set(args.only.split(","))
        ms = [m for m in ms if m["id"] in ids]
    if args.props:
        ps = set(args.props.split(","))
        ms = [m for m in ms if ps & set(m["props"])]
    all_props = sorted(f[:-3].upper() for f in os.listdir(os.path.join(HERE, "checks")) if f.startswith("c") and f.endswith(".py"))
    results = []
    with concurrent.futures.ThreadPoolExecutor(max_workers=args.j) as ex:
        futs = [ex.submit(one, m, args.repo, args.tier, args.seed, args.others, all_props) for m in ms]
        for f in futs:
            results.append(f.result())
    bad = 0
    for r in results:
        if r.get("status") == "broken-mutant":
            print("%-40s BROKEN-MUTANT %s" % (r["id"], r["detail"]))
            bad += 1
            continue
        cells = []
        for p, c in sorted(r["checks"].items()):
            mark = c["verdict"]
            if p in r["props"]:
                cells.append("%s:%s" % (p, mark.upper() if mark != "killed" else "killed"))
                if mark != "killed" and r["suite_passes"]:
                    bad += 1
            elif mark != "survived":
                cells.append("%s:(%s)" % (p, mark))
        print("%-40s suite=%s  %s" % (r["id"], "pass" if r["suite_passes"] else "FAIL[%s]" % r["suite"][:50], "  ".join(cells)))
        for p, c in sorted(r["checks"].items()):
            if p in r["props"] and c["verdict"] == "killed" and c["monitors"]:
                print("    %s via %s" % (p, c["monitors"][0][:150]))
            if p in r["props"] and c["verdict"] != "killed":
                print("    %s output tail: %s" % (p, c.get("tail", "")[-600:].replace("\n", "\n      ")))
    if args.json:
        with open(args.json, "w") as f:
            json.dump(results, f, indent=1)
    print("mutants=%d realistic-survivors-or-broken=%d" % (len(results), bad))
    return 1 if bad else 0


if __name__ == "__main__":
    sys.exit(main())
