"""Behaviour-preserving refactorings of productmd: the false-alarm screen.

Each entry is applied to a scratch copy like a mutant (selftest/run_refactors.py);
EVERY check must stay silent (exit 0) on it - an alarm or an inconclusive verdict
here means an oracle or a starvation rule demands more than the property states.
"""
CI = "productmd/composeinfo.py"
CM = "productmd/common.py"
IM = "productmd/images.py"
RP = "productmd/rpms.py"
MO = "productmd/modules.py"
EF = "productmd/extra_files.py"
TI = "productmd/treeinfo.py"
DI = "productmd/discinfo.py"
CO = "productmd/compose.py"

REFACTORS = []


def R(id, *edits):
    REFACTORS.append({"id": id, "edits": list(edits)})


# private helper renamed and its only caller adjusted
R("rename-add-1-1",
  (IM, "                        self._add_1_1(data, variant, arch, image_obj)", "                        self._add_legacy(data, variant, arch, image_obj)"),
  (IM, "    def _add_1_1(self, data, variant, arch, image):", "    def _add_legacy(self, data, variant, arch, image):"))

# cell sorted once with sorted() instead of re-sorting after every image
R("images-serialize-sort-once",
  (IM, '''        for variant in self.images:
            for arch in self.images[variant]:
                for image_obj in self.images[variant][arch]:
                    images = data["payload"]["images"].setdefault(variant, {}).setdefault(arch, [])
                    image_obj.serialize(images)
                    images.sort(key=lambda x: x["path"])
''', '''        for variant in self.images:
            for arch in self.images[variant]:
                if not self.images[variant][arch]:
                    continue
                images = data["payload"]["images"].setdefault(variant, {}).setdefault(arch, [])
                for image_obj in sorted(self.images[variant][arch], key=lambda x: x.path):
                    image_obj.serialize(images)
                images.sort(key=lambda x: x["path"])
'''))

# JSON written via dumps + write; error messages reworded
R("json-dumps-then-write",
  (CM, 'json.dump(parser, f, indent=4, sort_keys=True, separators = (",", ": "))',
       'f.write(json.dumps(parser, indent=4, sort_keys=True, separators=(",", ": ")))'),
  (CM, 'raise ValueError("%s: Field \'%s\' must not be blank" % (self.__class__.__name__, field))',
       'raise ValueError("%s.%s is required and must not be empty" % (self.__class__.__name__, field))'))

# the two media validators merged into one
R("media-validators-merged",
  (TI, '''    def _validate_discnum(self):
        self._assert_type("discnum", list(six.integer_types) + [type(None)])

    def _validate_totaldiscs(self):
        self._assert_type("totaldiscs", list(six.integer_types) + [type(None)])
''', '''    def _validate_media_numbers(self):
        for field in ("discnum", "totaldiscs"):
            self._assert_type(field, list(six.integer_types) + [type(None)])
'''))

# compose accessors share one generic loader; cache kept in the same attributes
R("compose-generic-accessor",
  (CO, '''        if self._images is not None:
            return self._images

        paths = [
            "metadata/images.json",
            "metadata/image-manifest.json",
        ]
        self._images = self._load_metadata(paths, productmd.images.Images)
        return self._images''', '''        return self._cached("_images", ["metadata/images.json", "metadata/image-manifest.json"], productmd.images.Images)

    def _cached(self, attr, paths, cls):
        obj = getattr(self, attr)
        if obj is None:
            obj = self._load_metadata(paths, cls)
            setattr(self, attr, obj)
        return obj'''))

# equivalent patterns precompiled at module level.  (An earlier version of this entry also wrote \\d for [0-9]: that is NOT
# behaviour-preserving - on Python 3 \\d matches every Unicode decimal digit - and C14 rightly reports it since its
# alphabet contains such digits; see seeded C14-G.)
R("patterns-precompiled",
  (CI, '        self._assert_matches_re("date", [r"^\\d{8}\\Z"])', '        self._assert_matches_re("date", [COMPOSE_DATE_RE])'),
  (CI, '#: supported variant types\nVARIANT_TYPES = [\n    "variant",', 'COMPOSE_DATE_RE = re.compile(r"^\\d{8}\\Z")\n\n\n#: supported variant types\nVARIANT_TYPES = [\n    "variant",'),
  (CM, 'RELEASE_VERSION_RE = re.compile(r"^([^0-9].*|([0-9]+(\\.[0-9]+)*))\\Z")', 'RELEASE_VERSION_RE = re.compile(r"^(?:[^0-9].*|(?:[0-9]+(?:\\.[0-9]+)*))\\Z")'))

# dump() writes through a temporary file and renames it into place on success
R("atomic-dump",
  (CM, '''        with open_file_obj(f, "w") as f:
            f.write(text.getvalue())
''', '''        if isinstance(f, six.string_types) and not f.startswith(("http://", "https://", "ftp://")):
            tmp = "%s.tmp%d" % (f, os.getpid())
            try:
                with open(tmp, "w") as fo:
                    fo.write(text.getvalue())
                os.rename(tmp, f)
            finally:
                if os.path.exists(tmp):
                    os.unlink(tmp)
            return
        with open_file_obj(f, "w") as f:
            f.write(text.getvalue())
'''))

# get_variants collects with a helper generator, then sorts
R("get-variants-generator",
  (CI, '''        for variant in six.itervalues(self.variants):
            if types and variant.type not in types:
                continue
            if arch and arch not in variant.arches.union(["src"]):
                continue
            result.append(variant)
            if recursive:
                result.extend(variant.get_variants(arch=arch, types=[i for i in types if i != "self"], recursive=True))
''', '''        child_types = [i for i in types if i != "self"]
        for variant_id in sorted(self.variants):
            variant = self.variants[variant_id]
            if types and variant.type not in types:
                continue
            if arch and arch != "src" and arch not in variant.arches:
                continue
            result.append(variant)
            if recursive:
                result.extend(variant.get_variants(arch=arch, types=child_types, recursive=True))
'''))

# Rpms.add: checks regrouped, same order of effects; messages changed
R("rpms-add-regrouped",
  (RP, '''        if arch not in productmd.common.RPM_ARCHES:
            raise ValueError("Arch not found in RPM_ARCHES: %s" % arch)

        if arch in ["src", "nosrc"]:
            raise ValueError("Source arch is not allowed. Map source files under binary arches.")
''', '''        if arch not in productmd.common.RPM_ARCHES or arch in ("src", "nosrc"):
            raise ValueError("Unsupported tree architecture: %s" % arch)
'''))

# treeinfo: checksum reader with a table instead of the if/elif ladder
R("checksum-length-table",
  (TI, '''                if ":" not in value:
                    if len(value) == 32:
                        checksum_type, checksum = "md5", value
                    elif len(value) == 40:
                        checksum_type, checksum = "sha1", value
                    elif len(value) == 64:
                        checksum_type, checksum = "sha256", value
                    else:
                        raise ValueError("Unknown checksum type for %s: %s" % (path, value))
                else:''', '''                if ":" not in value:
                    legacy = {32: "md5", 40: "sha1", 64: "sha256"}
                    if len(value) not in legacy:
                        raise ValueError("Unknown checksum type for %s: %s" % (path, value))
                    checksum_type, checksum = legacy[len(value)], value
                else:'''))

# compute_checksum with a smaller chunk and iter()
R("checksum-iter-chunks",
  (TI, '''        while True:
            chunk = fo.read(1024**2)
            if not chunk:
                break
            checksum.update(chunk)''', '''        for chunk in iter(lambda: fo.read(256 * 1024), b""):
            checksum.update(chunk)'''))

# header type check factored out (same gate)
R("header-type-check-helper",
  (CM, '''        if self.version_tuple >= (1, 1):
            metadata_type = data[self._section]["type"]
            if metadata_type != self.metadata_type:
                raise ValueError("Invalid metadata type '%s', expected '%s'" % (metadata_type, self.metadata_type))
        self.validate()''', '''        if self.version_tuple >= (1, 1):
            self._check_type(data[self._section]["type"])
        self.validate()

    def _check_type(self, metadata_type):
        if metadata_type != self.metadata_type:
            raise ValueError("Metadata of type %r cannot be loaded as %r" % (metadata_type, self.metadata_type))'''))

# JSON written with a final newline - the statement fixes key order and indentation only.  (An earlier version of this
# entry also switched to ensure_ascii=False: not behaviour-preserving, the bytes - and whether dump(path) works at all -
# then depend on the process locale; see seeded C03-G and the ASCII-locale shards of C01-C03.)
R("json-final-newline",
  (CM, 'json.dump(parser, f, indent=4, sort_keys=True, separators = (",", ": "))',
       'json.dump(parser, f, indent=4, sort_keys=True, separators = (",", ": "))\n        f.write("\\n")'))

# compose path normalised; error text reworded but still naming the location
R("compose-path-normalised",
  # (corrected in round 9: normalising the stored path itself is NOT behaviour-preserving - '<symlink>/..' is collapsed
  # textually, cf. seeded C20-Q; only the message is normalised now)
  (CO, "        raise RuntimeError('Failed to load metadata from %s' % self.compose_path)", "        raise RuntimeError('No metadata file (%s) under %s (%s)' % (', '.join(paths), self.compose_path, os.path.normpath(self.compose_path)))"))

# discinfo and treeinfo end with a newline; INI written without spaces around '='
R("ini-no-spaces-discinfo-newline",
  (DI, '        f.write("\\n".join(parser))', '        f.write("\\n".join(parser) + "\\n")'),
  (TI, "        parser.write(f)", "        parser.write(f, space_around_delimiters=False)"))

# --- aimed at the history / entry-point monitors added after seeded round 3 ---------------------------------

# parse_nvra memoised CORRECTLY: the memo stores a private copy and every call returns a fresh dict
R("parse-nvra-safe-memo",
  (CM, '''    if nvra.endswith(".rpm"):
        nvra = nvra[:-4]
    match = RPM_NVRA_RE.match(nvra)
    if match is None:
        raise ValueError("Invalid N-E:V-R.A: %s" % nvra)
    result = match.groupdict()
    result["epoch"] = result["epoch"] or 0
    result["epoch"] = int(result["epoch"])
    return result
''', '''    if nvra.endswith(".rpm"):
        nvra = nvra[:-4]
    cached = _NVRA_MEMO.get(nvra)
    if cached is not None:
        return dict(cached)
    match = RPM_NVRA_RE.match(nvra)
    if match is None:
        raise ValueError("Invalid N-E:V-R.A: %s" % nvra)
    result = match.groupdict()
    result["epoch"] = result["epoch"] or 0
    result["epoch"] = int(result["epoch"])
    if len(_NVRA_MEMO) < 4096:
        _NVRA_MEMO[nvra] = dict(result)
    return result


_NVRA_MEMO = {}
'''))

# compose-id decoder memoised correctly: only finished, accepted results are stored
R("date-type-respin-safe-memo",
  (CI, '''def get_date_type_respin(compose_id):
    pattern = re.compile(''', '''_DECODED = {}


def get_date_type_respin(compose_id):
    if compose_id not in _DECODED:
        result = _get_date_type_respin(compose_id)
        if len(_DECODED) < 4096:
            _DECODED[compose_id] = result
        return result
    return _DECODED[compose_id]


def _get_date_type_respin(compose_id):
    pattern = re.compile('''))

# DiscInfo: validation moved from the end of deserialize() into load() (which loads() goes through): same gate on
# every entry point
R("discinfo-validate-in-load",
  (DI, '''            self.disc_numbers = [int(i) for i in disc_numbers.split(",")]
        self.validate()

    def serialize(self, parser):''', '''            self.disc_numbers = [int(i) for i in disc_numbers.split(",")]

    def load(self, f):
        super(DiscInfo, self).load(f)
        self.validate()

    def serialize(self, parser):'''))

# Rpms readers: the compose section is read once in deserialize(); both readers still start from an empty mapping
R("rpms-compose-hoisted",
  (RP, '''        self.header.deserialize(data)
        if self.header.version_tuple <= (0, 3):
            self.deserialize_0_3(data)''', '''        self.header.deserialize(data)
        self.compose.deserialize(data["payload"])
        if self.header.version_tuple <= (0, 3):
            self.deserialize_0_3(data)'''),
  (RP, '''    def deserialize_0_3(self, data):
        self.compose.deserialize(data["payload"])
        payload = data["payload"]["manifest"]''', '''    def deserialize_0_3(self, data):
        payload = data["payload"]["manifest"]'''),
  (RP, '''    def deserialize_1_0(self, data):
        self.compose.deserialize(data["payload"])
        self.rpms = data["payload"]["rpms"]''', '''    def deserialize_1_0(self, data):
        self.rpms = data["payload"]["rpms"]'''))

# Modules.add: the RPM list is copied and sorted-merged through a local; the caller's list is never kept
R("modules-add-local-copy",
  (MO, '''        metadata.setdefault("rpms", []).extend(list(rpms))''', '''        merged = list(metadata.get("rpms", []))
        merged.extend(rpms)
        metadata["rpms"] = merged'''))

# checksum helper: file size looked at first, hashing in 64 KiB chunks through a bytearray
R("checksum-readinto",
  (TI, '''    checksum = hashlib.new(checksum_type)
    with open(path, "rb") as fo:
        while True:
            chunk = fo.read(1024**2)
            if not chunk:
                break
            checksum.update(chunk)
    return checksum.hexdigest().lower()''', '''    checksum = hashlib.new(checksum_type)
    buf = bytearray(64 * 1024)
    view = memoryview(buf)
    with open(path, "rb", buffering=0) as fo:
        while True:
            n = fo.readinto(buf)
            if not n:
                break
            checksum.update(view[:n])
    return checksum.hexdigest().lower()'''))
