#!/venv/bin/python
"""Reach audit: which lines of the repository did the monitored workloads of ALL checks execute, and which never?

    selftest/line_reach.py [--tier quick] [--only C01,C02] [-j 3] [--out selftest/line_reach.json]

Every shard of every check records the LINE events of sys.monitoring for code under the repository (each location
fires once, then is disabled - the cost is negligible).  This tool runs the checks with --no-evidence and
VERIF_LINES_OUT, merges the sets and prints, per source file, the lines that carry code and that no workload reached,
with their text.  A line listed here is behaviour no monitor has ever looked at: either out of scope (Python 2
branches, URL handling, __repr__) or a gap in a generator.  The committed summary is selftest/line_reach.json.
"""
import argparse
import concurrent.futures
import json
import os
import subprocess
import sys
import tempfile

HERE = os.path.dirname(os.path.dirname(os.path.abspath(__file__)))
sys.path.insert(0, HERE)
from rv.runner import executable_lines  # noqa: E402


def run_one(prop, tier, repo, outdir):
    out = os.path.join(outdir, prop + ".json")
    env = dict(os.environ)
    env["VERIF_LINES_OUT"] = out
    r = subprocess.run([os.path.join(HERE, "bin", "check"), prop, "--tier", tier, "--repo", repo, "--no-evidence"],
                       cwd=HERE, env=env, stdout=subprocess.PIPE, stderr=subprocess.STDOUT, text=True)
    lines = {}
    if os.path.exists(out):
        with open(out) as f:
            lines = json.load(f)
    return prop, r.returncode, lines


def main():
    ap = argparse.ArgumentParser()
    ap.add_argument("--tier", default="quick")
    ap.add_argument("--only", default="")
    ap.add_argument("--repo", default="/repo")
    ap.add_argument("-j", type=int, default=3)
    ap.add_argument("--out", default=os.path.join(HERE, "selftest", "line_reach.json"))
    args = ap.parse_args()
    props = sorted(f[:-3].upper() for f in os.listdir(os.path.join(HERE, "checks")) if f.startswith("c") and f.endswith(".py"))
    if args.only:
        props = [p for p in props if p in args.only.split(",")]
    outdir = tempfile.mkdtemp(prefix="pmdlines-")
    per = {}
    try:
        with concurrent.futures.ThreadPoolExecutor(max_workers=args.j) as ex:
            for prop, rc, lines in ex.map(lambda p: run_one(p, args.tier, args.repo, outdir), props):
                per[prop] = lines
                print("%s rc=%d files=%d lines=%d" % (prop, rc, len(lines), sum(len(v) for v in lines.values())), flush=True)
    finally:
        import shutil
        shutil.rmtree(outdir, ignore_errors=True)
    union = {}
    for prop, lines in per.items():
        for rel, ls in lines.items():
            union.setdefault(rel, set()).update(ls)
    summary = {"tier": args.tier, "checks": props, "files": {}}
    pm = os.path.join(args.repo, "productmd")
    for fn in sorted(os.listdir(pm)):
        if not fn.endswith(".py"):
            continue
        rel = os.path.join("productmd", fn)
        path = os.path.join(pm, fn)
        ex = executable_lines(path)
        hit = union.get(rel, set()) & ex
        missed = sorted(ex - hit)
        with open(path) as f:
            src = f.read().splitlines()
        by_check = dict((p, len(set(per[p].get(rel, [])) & ex)) for p in props if per[p].get(rel))
        summary["files"][rel] = {"lines_with_code": len(ex), "executed_by_some_check": len(hit),
                                 "executed_per_check": by_check,
                                 "never_executed": [[ln, src[ln - 1].strip()[:110]] for ln in missed]}
        print("\n%s: %d of %d lines with code executed" % (rel, len(hit), len(ex)))
        for ln in missed:
            print("   %4d  %s" % (ln, src[ln - 1].rstrip()[:120]))
    with open(args.out, "w") as f:
        json.dump(summary, f, indent=1)
    return 0


if __name__ == "__main__":
    sys.exit(main())
