"""pytest plugin: icontract invariants / postconditions on the real productmd
classes while the repository's OWN test-suite runs (DESIGN.md section 6.1b).

    cd /repo && PYTHONPATH=/verif/selftest:/verif:/verif/.deps PRODUCTMD_VERIF=1 \
        /venv/bin/python -m pytest -q -p rvplug -p no:cacheprovider

A contract that fires on a passing test is either too strict or a defect the
test does not assert; evaluation counts are printed at the end (zero
evaluations = the screen proved nothing).  Nothing in /repo is edited.
"""
import collections
import os

COUNTS = collections.Counter()
FIRED = []


class InvariantBroken(AssertionError):
    pass


class PostBroken(AssertionError):
    pass


def _images_identity_unique(self):
    COUNTS["Images.identity-unique"] += 1
    try:
        if self.header.version_tuple < (1, 1):
            return True
    except Exception:
        return True
    seen = []
    for v, arches in self.images.items():
        for a, cell in arches.items():
            for o in cell:
                ident = (o.subvariant, o.type, o.format, o.arch, o.disc_number, bool(o.unified), tuple(o.additional_variants or []))
                for ident2, cks in seen:
                    if ident2 == ident and cks != o.checksums:
                        FIRED.append("Images: two images share %r with different checksums" % (ident,))
                        return False
                seen.append((ident, o.checksums))
    return True


def _images_arch_keys(self):
    COUNTS["Images.arch-keys"] += 1
    import productmd.common
    for v, arches in self.images.items():
        for a in arches:
            if a in ("src", "nosrc") or a not in productmd.common.RPM_ARCHES:
                FIRED.append("Images: arch key %r under %r" % (a, v))
                return False
    return True


def _rpms_arch_keys(self):
    COUNTS["Rpms.arch-keys"] += 1
    import productmd.common
    for v, arches in self.rpms.items():
        for a in arches:
            if a in ("src", "nosrc") or a not in productmd.common.RPM_ARCHES:
                FIRED.append("Rpms: arch key %r under %r" % (a, v))
                return False
    return True


def _variant_children_mirror(self):
    COUNTS["Variant.children-mirror-parent"] += 1
    for key, child in self.variants.items():
        if hasattr(self, "uid"):
            if child.parent is not self:
                FIRED.append("Variant %s: child %s has parent %r" % (self.uid, child.uid, getattr(child.parent, "uid", child.parent)))
                return False
            if child.uid != "%s-%s" % (self.uid, child.id):
                FIRED.append("Variant %s: child uid %s not aligned" % (self.uid, child.uid))
                return False
            if not set(child.arches) <= set(self.arches):
                FIRED.append("Variant %s: child %s arches outside the parent's" % (self.uid, child.uid))
                return False
    return True


def _snap_checksums(self):
    return dict(self.checksums)


def _add_checksum_keeps_recorded(self, OLD):
    COUNTS["Image.add_checksum-keeps-recorded"] += 1
    for t, v in OLD.cks.items():
        if v and self.checksums.get(t) != v:
            FIRED.append("Image.add_checksum changed %s from %r to %r" % (t, v, self.checksums.get(t)))
            return False
    return True


def _checksums_key_normalised(self, relative_path, result):
    COUNTS["Checksums.add-key-normalised"] += 1
    import posixpath
    if posixpath.normpath(relative_path) not in self.checksums:
        FIRED.append("Checksums.add(%r): normalised key missing" % (relative_path,))
        return False
    return True


def install():
    import icontract
    import productmd.images
    import productmd.rpms
    import productmd.composeinfo
    import productmd.treeinfo
    I = productmd.images
    I.Images = icontract.invariant(_images_arch_keys, error=InvariantBroken)(
        icontract.invariant(_images_identity_unique, error=InvariantBroken)(I.Images))
    productmd.Images = I.Images
    R = productmd.rpms
    R.Rpms = icontract.invariant(_rpms_arch_keys, error=InvariantBroken)(R.Rpms)
    productmd.Rpms = R.Rpms
    C = productmd.composeinfo
    C.Variant = icontract.invariant(_variant_children_mirror, error=InvariantBroken)(C.Variant)
    I.Image.add_checksum = icontract.snapshot(_snap_checksums, name="cks")(
        icontract.ensure(_add_checksum_keeps_recorded, error=PostBroken)(I.Image.add_checksum))
    T = productmd.treeinfo
    T.Checksums.add = icontract.ensure(_checksums_key_normalised, error=PostBroken)(T.Checksums.add)
    import productmd.compose
    productmd.compose.productmd.images.Images = I.Images


def pytest_configure(config):
    if os.environ.get("PRODUCTMD_VERIF") == "1":
        install()


def pytest_terminal_summary(terminalreporter):
    tr = terminalreporter
    tr.write_line("rvplug contract evaluations: %s" % dict(COUNTS))
    tr.write_line("rvplug contracts fired: %d" % len(FIRED))
    for f in FIRED[:10]:
        tr.write_line("  " + f)
