#!/venv/bin/python
"""Runs the repository's own test-suite with the icontract invariants of
selftest/rvplug.py installed (no repo edit) and reports evaluations / firings.
Exit 0: suite green, every contract evaluated at least once, none fired."""
import os
import re
import subprocess
import sys

HERE = os.path.dirname(os.path.dirname(os.path.abspath(__file__)))
sys.path.insert(0, HERE)
from rv import setup_deps
setup_deps.ensure()
repo = sys.argv[1] if len(sys.argv) > 1 else "/repo"
env = dict(os.environ)
env["PRODUCTMD_VERIF"] = "1"
env["PYTHONDONTWRITEBYTECODE"] = "1"
env["PYTHONPATH"] = os.pathsep.join([os.path.join(HERE, "selftest"), HERE, os.path.join(HERE, ".deps")])
r = subprocess.run(["/venv/bin/python", "-m", "pytest", "-q", "-p", "rvplug", "-p", "no:cacheprovider", "--timeout=900"], cwd=repo, env=env,
                   stdout=subprocess.PIPE, stderr=subprocess.STDOUT, text=True)
lines = [l for l in r.stdout.splitlines() if "rvplug" in l or "passed" in l or "failed" in l or l.startswith("  ")]
print("\n".join(lines[-14:]))
m = re.search(r"rvplug contract evaluations: (\{.*\})", r.stdout)
counts = eval(m.group(1)) if m else {}
fired = re.search(r"rvplug contracts fired: (\d+)", r.stdout)
ok = r.returncode == 0 and counts and all(v > 0 for v in counts.values()) and fired and fired.group(1) == "0" and len(counts) >= 6
print("contracts-on-suite:", "OK" if ok else "ATTENTION", "(returncode %d, %d contracts evaluated)" % (r.returncode, len(counts)))
sys.exit(0 if ok else 1)
