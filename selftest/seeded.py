#!/venv/bin/python
"""Seeded changes written by independent sub-agents (only the property text was
given to them): ingest (verify + store under /verif/seeded/<id>/) and run the
checks against them.

    selftest/seeded.py ingest <dir> <variant> --id <id> --prop Cnn
        <dir> holds <variant>.diff, <variant>_demo.py, <variant>_notes.md.  Confirms on a scratch copy of /repo
        that the patch applies, the repository's 90 tests still pass with it, the demo exits 1 with it and 0 without.
    selftest/seeded.py run [--only id,id] [--tier quick] [--others] [-j N]
        applies each stored patch to a scratch copy (removed afterwards) and runs the owning check with --repo.
"""
import argparse
import concurrent.futures
import json
import os
import shutil
import subprocess
import sys
import tempfile

HERE = os.path.dirname(os.path.dirname(os.path.abspath(__file__)))
SEEDED = os.path.join(HERE, "seeded")
PY = "/venv/bin/python"


def make_copy(repo="/repo"):
    d = tempfile.mkdtemp(prefix="pmdseed-")
    dst = os.path.join(d, "repo")
    shutil.copytree(repo, dst, ignore=shutil.ignore_patterns(".git", "__pycache__", "*.pyc", "*.egg-info", "doc"))
    subprocess.run(["git", "init", "-q"], cwd=dst, check=True)
    return d, dst


def apply_patch(dst, patch):
    r = subprocess.run(["git", "apply", "--whitespace=nowarn", patch], cwd=dst, stdout=subprocess.PIPE, stderr=subprocess.STDOUT, text=True)
    if r.returncode != 0:
        r = subprocess.run(["patch", "-p1", "-i", patch], cwd=dst, stdout=subprocess.PIPE, stderr=subprocess.STDOUT, text=True)
    return r.returncode == 0, r.stdout


def run_suite(dst):
    env = dict(os.environ)
    env.pop("PRODUCTMD_VERIF", None)
    env["PYTHONDONTWRITEBYTECODE"] = "1"
    r = subprocess.run([PY, "-m", "pytest", "-q", "-p", "no:cacheprovider", "--timeout=600"], cwd=dst, env=env,
                       stdout=subprocess.PIPE, stderr=subprocess.STDOUT, text=True, timeout=1800)
    tail = r.stdout.strip().splitlines()[-1] if r.stdout.strip() else ""
    return r.returncode == 0, tail


def run_demo(demo, tree):
    env = dict(os.environ)
    env["PYTHONDONTWRITEBYTECODE"] = "1"
    try:
        r = subprocess.run([PY, demo, tree], env=env, stdout=subprocess.PIPE, stderr=subprocess.STDOUT, text=True, timeout=900)
        return r.returncode, r.stdout[-600:]
    except subprocess.TimeoutExpired:
        return 124, "timeout"


def ingest(args):
    src = args.dir
    v = args.variant
    patch = os.path.join(src, v + ".diff")
    demo = os.path.join(src, v + "_demo.py")
    notes = os.path.join(src, v + "_notes.md")
    for p in (patch, demo):
        if not os.path.exists(p):
            print("missing", p)
            return 1
    d0, clean = make_copy()
    d1, changed = make_copy()
    try:
        ok, out = apply_patch(changed, patch)
        if not ok:
            print("patch does not apply:", out[-400:])
            return 1
        suite_ok, tail = run_suite(changed)
        rc_changed, out_changed = run_demo(demo, changed)
        rc_clean, out_clean = run_demo(demo, clean)
        print("suite with change: %s (%s)" % ("pass" if suite_ok else "FAIL", tail))
        print("demo with change: rc=%d   demo without: rc=%d" % (rc_changed, rc_clean))
        if not (suite_ok and rc_changed == 1 and rc_clean == 0):
            print("NOT CONFIRMED; demo output with change:\n%s\nwithout:\n%s" % (out_changed, out_clean))
            return 1
        dst = os.path.join(SEEDED, args.id)
        os.makedirs(dst, exist_ok=True)
        shutil.copy(patch, os.path.join(dst, "patch.diff"))
        shutil.copy(demo, os.path.join(dst, "demo.py"))
        if os.path.exists(notes):
            shutil.copy(notes, os.path.join(dst, "notes.md"))
        meta = {"id": args.id, "property": args.prop, "origin": "independent sub-agent given only the property text (%s variant %s)" % (os.path.basename(src.rstrip('/')), v),
                "needs_to_manifest": args.needs or "see notes.md",
                "confirmed": {"suite_with_change": tail, "demo_rc_with_change": rc_changed, "demo_rc_without": rc_clean,
                              "how": "selftest/seeded.py ingest: patch applied to a scratch copy of /repo HEAD; repository test-suite; demo against both trees"},
                "demo_output_with_change": out_changed[-400:]}
        with open(os.path.join(dst, "meta.json"), "w") as f:
            json.dump(meta, f, indent=1)
        print("stored", dst)
        return 0
    finally:
        shutil.rmtree(d0, ignore_errors=True)
        shutil.rmtree(d1, ignore_errors=True)


def run_check(prop, dst, tier, seed):
    env = dict(os.environ)
    env["VERIF_SEED"] = str(seed)
    r = subprocess.run([os.path.join(HERE, "bin", "check"), prop, "--tier", tier, "--repo", dst, "--no-evidence"], cwd=HERE, env=env,
                       stdout=subprocess.PIPE, stderr=subprocess.STDOUT, text=True, timeout=14400)
    viol = [l for l in r.stdout.splitlines() if l.startswith("VIOLATION ")]
    mons = sorted(set(l.strip()[:170] for l in r.stdout.splitlines() if l.strip().startswith("monitor=")))
    for l in viol:
        rp = l.split("replay=")[-1].strip()
        try:
            os.unlink(os.path.join(HERE, rp))
        except OSError:
            pass
    verdict = "caught" if (r.returncode == 1 and viol) else ("inconclusive" if r.returncode == 2 else "MISSED")
    return verdict, mons[:3], r.stdout[-500:]


def one(sid, tier, seed, others, all_props):
    sdir = os.path.join(SEEDED, sid)
    with open(os.path.join(sdir, "meta.json")) as f:
        meta = json.load(f)
    d, dst = make_copy()
    try:
        ok, out = apply_patch(dst, os.path.join(sdir, "patch.diff"))
        if not ok:
            return {"id": sid, "error": "patch does not apply to the current tree: %s" % out[-200:]}
        res = {"id": sid, "property": meta["property"], "checks": {}}
        props = [meta["property"]] + ([p for p in all_props if p != meta["property"]] if others else [])
        for p in props:
            v, mons, tail = run_check(p, dst, tier, seed)
            res["checks"][p] = {"verdict": v, "monitors": mons, "tail": tail if v != "caught" and p == meta["property"] else ""}
        return res
    finally:
        shutil.rmtree(d, ignore_errors=True)


def run(args):
    ids = sorted(os.listdir(SEEDED)) if os.path.isdir(SEEDED) else []
    ids = [i for i in ids if os.path.exists(os.path.join(SEEDED, i, "meta.json"))]
    if args.only:
        only = set(args.only.split(","))
        ids = [i for i in ids if i in only]
    all_props = sorted(f[:-3].upper() for f in os.listdir(os.path.join(HERE, "checks")) if f.startswith("c") and f.endswith(".py"))
    results = []
    with concurrent.futures.ThreadPoolExecutor(max_workers=args.j) as ex:
        futs = [ex.submit(one, i, args.tier, args.seed, args.others, all_props) for i in ids]
        for f in futs:
            results.append(f.result())
    missed = 0
    for r in results:
        if "error" in r:
            print("%-14s ERROR %s" % (r["id"], r["error"]))
            missed += 1
            continue
        own = r["checks"][r["property"]]
        extra = ["%s:%s" % (p, c["verdict"]) for p, c in sorted(r["checks"].items()) if p != r["property"] and c["verdict"] != "MISSED"]
        print("%-14s %s:%s %s" % (r["id"], r["property"], own["verdict"], ("  also " + " ".join(extra)) if extra else ""))
        if own["verdict"] == "caught":
            for m in own["monitors"][:2]:
                print("      via %s" % m)
        else:
            missed += 1
            print("      tail: %s" % own["tail"][-400:].replace("\n", "\n            "))
    if args.json:
        with open(args.json, "w") as f:
            json.dump(results, f, indent=1)
    print("seeded=%d not-caught=%d" % (len(results), missed))
    return 1 if missed else 0


def main():
    ap = argparse.ArgumentParser()
    sub = ap.add_subparsers(dest="cmd")
    a = sub.add_parser("ingest")
    a.add_argument("dir")
    a.add_argument("variant")
    a.add_argument("--id", required=True)
    a.add_argument("--prop", required=True)
    a.add_argument("--needs", default="")
    b = sub.add_parser("run")
    b.add_argument("--only", default="")
    b.add_argument("--tier", default="quick")
    b.add_argument("--seed", type=int, default=0)
    b.add_argument("--others", action="store_true")
    b.add_argument("-j", type=int, default=3)
    b.add_argument("--json", default="")
    args = ap.parse_args()
    if args.cmd == "ingest":
        return ingest(args)
    if args.cmd == "run":
        return run(args)
    ap.print_help()
    return 2


if __name__ == "__main__":
    sys.exit(main())
