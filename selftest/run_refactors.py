#!/venv/bin/python
"""False-alarm screen: every check must exit 0 on behaviour-preserving refactorings (selftest/refactors.py).

    selftest/run_refactors.py [--only id,id] [--checks C01,C02] [-j N] [--skip C19]
"""
import argparse
import concurrent.futures
import os
import shutil
import subprocess
import sys

HERE = os.path.dirname(os.path.dirname(os.path.abspath(__file__)))
sys.path.insert(0, os.path.join(HERE, "selftest"))
import run_mutants as RM


def one(r, checks):
    d, dst = RM.make_copy("/repo")
    try:
        err = RM.apply_edits(dst, r["edits"])
        if err:
            return {"id": r["id"], "error": err}
        ok, tail = RM.run_suite(dst)
        res = {"id": r["id"], "suite": ok, "tail": tail, "checks": {}}
        for c in checks:
            p = subprocess.run([os.path.join(HERE, "bin", "check"), c, "--repo", dst, "--no-evidence"], cwd=HERE,
                               stdout=subprocess.PIPE, stderr=subprocess.STDOUT, text=True, timeout=7200)
            bad = [l for l in p.stdout.splitlines() if l.startswith(("VIOLATION", "INCONCLUSIVE", "BROKEN"))]
            for l in p.stdout.splitlines():
                if l.startswith("VIOLATION ") and "replay=" in l:
                    try:
                        os.unlink(os.path.join(HERE, l.split("replay=")[-1].strip()))
                    except OSError:
                        pass
            res["checks"][c] = {"rc": p.returncode, "lines": bad[:2], "detail": [l.strip() for l in p.stdout.splitlines() if l.startswith("  ")][:3]}
        return res
    finally:
        shutil.rmtree(d, ignore_errors=True)


def main():
    ap = argparse.ArgumentParser()
    ap.add_argument("--only", default="")
    ap.add_argument("--checks", default="")
    ap.add_argument("--skip", default="")
    ap.add_argument("-j", type=int, default=3)
    args = ap.parse_args()
    import refactors
    rs = refactors.REFACTORS
    if args.only:
        rs = [r for r in rs if r["id"] in set(args.only.split(","))]
    checks = sorted(f[:-3].upper() for f in os.listdir(os.path.join(HERE, "checks")) if f.startswith("c") and f.endswith(".py"))
    if args.checks:
        checks = args.checks.split(",")
    checks = [c for c in checks if c not in set(args.skip.split(","))]
    alarms = 0
    with concurrent.futures.ThreadPoolExecutor(max_workers=args.j) as ex:
        for res in ex.map(lambda r: one(r, checks), rs):
            if "error" in res:
                print("%-32s BROKEN-REFACTOR %s" % (res["id"], res["error"]))
                alarms += 1
                continue
            noisy = dict((c, v) for c, v in res["checks"].items() if v["rc"] != 0)
            print("%-32s suite=%s  silent=%d/%d %s" % (res["id"], "pass" if res["suite"] else "FAIL[%s]" % res["tail"][:40],
                                                      len(res["checks"]) - len(noisy), len(res["checks"]),
                                                      " ".join("%s:rc%d" % (c, v["rc"]) for c, v in sorted(noisy.items()))))
            for c, v in sorted(noisy.items()):
                alarms += 1
                for l in v["lines"] + v["detail"]:
                    print("      %s %s" % (c, l[:260]))
    print("refactorings=%d alarms=%d" % (len(rs), alarms))
    return 1 if alarms else 0


if __name__ == "__main__":
    sys.exit(main())
