"""Realistic, test-suite-surviving changes used to audit the monitors.

Each entry: id, props (checks that must report a VIOLATION), edits =
[(file, old text, new text)] applied exactly once each to a scratch copy.
"""

CI = "productmd/composeinfo.py"
CM = "productmd/common.py"
IM = "productmd/images.py"
RP = "productmd/rpms.py"
MO = "productmd/modules.py"
EF = "productmd/extra_files.py"
TI = "productmd/treeinfo.py"
DI = "productmd/discinfo.py"
CO = "productmd/compose.py"

MUTANTS = []


def M(id, props, *edits):
    MUTANTS.append({"id": id, "props": props, "edits": list(edits)})


# ---- C01 ------------------------------------------------------------------
M("c01-drop-internal-both", ["C01"],
  (CI, '        data[self._section]["internal"] = bool(self.internal)\n', ''),
  (CI, '        self.internal = bool(data[self._section].get("internal", False))\n', ''))
M("c01-skip-path-category", ["C01"],
  (CI, '    def serialize(self, data):\n        self.validate()\n        paths = data\n        for arch in sorted(self._variant.arches):\n            for name in self._fields:',
       '    def serialize(self, data):\n        self.validate()\n        paths = data\n        for arch in sorted(self._variant.arches):\n            for name in self._fields[:-1]:'))
M("c01-final-without-label", ["C01"],
  (CI, '            data[self._section]["label"] = self.label\n            data[self._section]["final"] = self.final',
       '            data[self._section]["label"] = self.label\n        data[self._section]["final"] = self.final'))
M("c01-lose-layered-product-release", ["C01"],
  (CI, '        if self.type == "layered-product":\n            self.release.deserialize(data)\n',
       '        if self.type == "layered-product" and not self.parent:\n            self.release.deserialize(data)\n'))
M("c01-bp-type-default", ["C01"],
  (CI, '        data[self._section]["short"] = self.short\n        data[self._section]["type"] = self.type\n\n    def deserialize(self, data):\n        self.name',
       '        data[self._section]["short"] = self.short\n        if self.type != "ga":\n            data[self._section]["type"] = self.type\n\n    def deserialize(self, data):\n        self.name'))
M("c01-respin-int32", ["C01"],
  (CI, '        data[self._section]["respin"] = self.respin\n', '        data[self._section]["respin"] = self.respin & 0xFFFFFFFF\n'))

# ---- C13 ------------------------------------------------------------------
M("c13-nongreedy-name", ["C13"],
  (CM, '(?P<name>.*)-((?P<epoch>', '(?P<name>.*?)-((?P<epoch>'))
M("c13-epoch-default-1", ["C13"],
  (CM, '    result["epoch"] = result["epoch"] or 0\n    result["epoch"] = int', '    result["epoch"] = result["epoch"] or 1\n    result["epoch"] = int'))
M("c13-rstrip-rpm", ["C13"],
  (CM, '    if nvra.endswith(".rpm"):\n        nvra = nvra[:-4]', '    nvra = nvra.rstrip(".rpm")'))
M("c13-release-nongreedy", ["C13"],
  (CM, r'(?P<release>.*)\.(?P<arch>.*)$', r'(?P<release>.*?)\.(?P<arch>.*)$'))
M("c13-epoch-string", ["C13"],
  (CM, '    result["epoch"] = int(result["epoch"])\n', '    result["epoch"] = result["epoch"] if result["epoch"] else 0\n'))
M("c13-epoch-single-digit", ["C13"],
  (CM, r'((?P<epoch>\d+):)?', r'((?P<epoch>\d):)?'))

# ---- C14 ------------------------------------------------------------------
M("c14-drop-updates-testing", ["C14"],
  (CM, '    "updates-testing",\n', ''))
M("c14-split-instead-of-rsplit", ["C14"],
  (CM, 'release_id.rsplit("-", 2)', 'release_id.split("-", 2)'))
M("c14-ga-elision-one-side", ["C14"],
  (CM, '    if type == "ga":\n        result = "%s-%s" % (short, version)', '    if type in ("ga", "fast"):\n        result = "%s-%s" % (short, version)'))
M("c14-at-split-last", ["C14"],
  (CM, 'release, base_product = release_id.split("@")', 'release, base_product = release_id.split("@")[0], release_id.split("@")[-1][1:] or release_id.split("@")[-1]'))
M("c14-create-skips-bp-validation", ["C14"],
  (CM, '        result += "@%s" % create_release_id(bp_short, bp_version, bp_type)',
       '        result += "@%s-%s" % (bp_short, bp_version) + ("" if bp_type == "ga" else "-%s" % bp_type)'))

# ---- C15 ------------------------------------------------------------------
M("c15-encoder-long-nightly", ["C15"],
  (CI, '        if self.type == "nightly":\n            return ".n"', '        if self.type == "nightly":\n            return ".nightly"'),
  (CI, "    \"nightly\": ['n', 'nightly'],", "    \"nightly\": ['n'],"))
M("c15-decoder-drops-d", ["C15"],
  (CI, "    \"development\": ['d']\n", "    \"development\": []\n"))
M("c15-respin-default-1", ["C15"],
  (CI, '    if result["respin"] is None:\n        result["respin"] = 0', '    if result["respin"] is None:\n        result["respin"] = 1'))
M("c15-bp-suffix-not-lowered", ["C15"],
  (CI, "        return '-%s' % self.type.lower()", "        return '_%s' % self.type"))
M("c15-decoder-drops-test-long", ["C15"],
  (CI, "    \"test\": ['t', 'test'],", "    \"test\": ['t'],"))


M("c01-children-list-omitted-below-top", ["C01"],
  (CI, '        if variant_ids:\n            dump["variants"] = sorted(variant_ids)',
       '        if variant_ids and self.parent is None:\n            dump["variants"] = sorted(variant_ids)'))
M("c14-type-class-letters-only", ["C14"],
  (CM, r'RELEASE_TYPE_RE = re.compile(r"^[a-z][a-z0-9]*(-[a-z0-9]+)*\Z")', r'RELEASE_TYPE_RE = re.compile(r"^[a-z][a-z]*(-[a-z0-9]+)*\Z")'))
M("c14-type-substring-match", ["C14"],
  (CM, '            if release_id.endswith(type_):', '            if type_ in release_id.split("-", 1)[-1] and release_id.endswith(type_[-2:]):'))
M("c14-version-allows-trailing-dot", ["C14"],
  (CM, r'([0-9]+(\.[0-9]+)*))\Z")', r'([0-9]+(\.[0-9]+)*\.?))\Z")'))
M("c14-short-allows-uppercase-tail", ["C14"],
  (CM, r'RELEASE_SHORT_RE = re.compile(r"^[a-z][a-z0-9]*(-[a-z0-9]+)*\Z")', r'RELEASE_SHORT_RE = re.compile(r"^[a-z][a-zA-Z0-9]*(-[a-z0-9]+)*\Z")'))
M("c15-date-not-anchored", ["C15"],
  (CI, r'(\.(?P<respin>\d+))?$", compose_id)', r'(\.(?P<respin>\d+))?", compose_id)'))

# ---- C19 ------------------------------------------------------------------
M("c19-nested-quantifier-short", ["C19"],
  (CM, r'RELEASE_SHORT_RE = re.compile(r"^[a-z][a-z0-9]*(-[a-z0-9]+)*\Z")', r'RELEASE_SHORT_RE = re.compile(r"^[a-z]+([a-z0-9]*-?[a-z0-9]+)*\Z")'))
M("c19-nested-quantifier-version", ["C19"],
  (CM, r'([0-9]+(\.[0-9]+)*))\Z")', r'([0-9]+(\.?[0-9]+)*))\Z")'))
M("c19-treeinfo-version-nested", ["C19"],
  (TI, r'self._assert_matches_re("version", [r"^\d+(\.\d+)*\Z"])', r'self._assert_matches_re("version", [r"^(\d+\.?)+\Z"])'))
M("c19-label-word-dash-nested", ["C19"],
  (CI, r'LABEL_RE_LIST.append(re.compile(r"^%s-\d+\.\d+\Z" % label_name))', r'LABEL_RE_LIST.append(re.compile(r"^(%s-?)+\d+(\.?\d+)+\Z" % label_name))'))
M("c19-variant-id-alternation", ["C19"],
  (CI, r'self._assert_matches_re("id", [r"^[a-zA-Z0-9]+\Z"])', r'self._assert_matches_re("id", [r"^([a-zA-Z0-9]+)+\Z"])'))
M("c19-module-uid-nested", ["C19"],
  (MO, r'(?P<module_name>[^:]+):', r'(?P<module_name>([^:/]+/?)+):'))
M("c19-implant-md5-nested", ["C19"],
  (IM, r'self._assert_matches_re("implant_md5", [r"^[a-z0-9]{32}\Z"])', r'self._assert_matches_re("implant_md5", [r"^([a-z]*[0-9]*)*\Z"])'))
