"""Realistic, test-suite-surviving changes used to audit the monitors.

Each entry: id, props (checks that must report a VIOLATION), edits =
[(file, old text, new text)] applied exactly once each to a scratch copy.
"""

CI = "productmd/composeinfo.py"
CM = "productmd/common.py"
IM = "productmd/images.py"
RP = "productmd/rpms.py"
MO = "productmd/modules.py"
EF = "productmd/extra_files.py"
TI = "productmd/treeinfo.py"
DI = "productmd/discinfo.py"
CO = "productmd/compose.py"

MUTANTS = []


def M(id, props, *edits):
    MUTANTS.append({"id": id, "props": props, "edits": list(edits)})


# ---- C01 ------------------------------------------------------------------
M("c01-drop-internal-both", ["C01"],
  (CI, '        data[self._section]["internal"] = bool(self.internal)\n', ''),
  (CI, '        self.internal = bool(data[self._section].get("internal", False))\n', ''))
M("c01-skip-path-category", ["C01"],
  (CI, '    def serialize(self, data):\n        self.validate()\n        paths = data\n        for arch in sorted(self._variant.arches):\n            for name in self._fields:',
       '    def serialize(self, data):\n        self.validate()\n        paths = data\n        for arch in sorted(self._variant.arches):\n            for name in self._fields[:-1]:'))
M("c01-final-without-label", ["C01"],
  (CI, '            data[self._section]["label"] = self.label\n            data[self._section]["final"] = self.final',
       '            data[self._section]["label"] = self.label\n        data[self._section]["final"] = self.final'))
M("c01-lose-layered-product-release", ["C01"],
  (CI, '        if self.type == "layered-product":\n            self.release.deserialize(data)\n',
       '        if self.type == "layered-product" and not self.parent:\n            self.release.deserialize(data)\n'))
M("c01-bp-type-default", ["C01"],
  (CI, '        data[self._section]["short"] = self.short\n        data[self._section]["type"] = self.type\n\n    def deserialize(self, data):\n        self.name',
       '        data[self._section]["short"] = self.short\n        if self.type != "ga":\n            data[self._section]["type"] = self.type\n\n    def deserialize(self, data):\n        self.name'))
M("c01-respin-int32", ["C01"],
  (CI, '        data[self._section]["respin"] = self.respin\n', '        data[self._section]["respin"] = self.respin & 0xFFFFFFFF\n'))

# ---- C13 ------------------------------------------------------------------
M("c13-nongreedy-name", ["C13"],
  (CM, '(?P<name>.*)-((?P<epoch>', '(?P<name>.*?)-((?P<epoch>'))
M("c13-epoch-default-1", ["C13"],
  (CM, '    result["epoch"] = result["epoch"] or 0\n    result["epoch"] = int', '    result["epoch"] = result["epoch"] or 1\n    result["epoch"] = int'))
M("c13-rstrip-rpm", ["C13"],
  (CM, '    if nvra.endswith(".rpm"):\n        nvra = nvra[:-4]', '    nvra = nvra.rstrip(".rpm")'))
M("c13-release-nongreedy", ["C13"],
  (CM, r'(?P<release>.*)\.(?P<arch>.*)$', r'(?P<release>.*?)\.(?P<arch>.*)$'))
M("c13-epoch-string", ["C13"],
  (CM, '    result["epoch"] = int(result["epoch"])\n', '    result["epoch"] = result["epoch"] if result["epoch"] else 0\n'))
M("c13-epoch-single-digit", ["C13"],
  (CM, r'((?P<epoch>\d+):)?', r'((?P<epoch>\d):)?'))

# ---- C14 ------------------------------------------------------------------
M("c14-drop-updates-testing", ["C14"],
  (CM, '    "updates-testing",\n', ''))
M("c14-split-instead-of-rsplit", ["C14"],
  (CM, 'release_id.rsplit("-", 2)', 'release_id.split("-", 2)'))
M("c14-ga-elision-one-side", ["C14"],
  (CM, '    if type == "ga":\n        result = "%s-%s" % (short, version)', '    if type in ("ga", "fast"):\n        result = "%s-%s" % (short, version)'))
M("c14-at-split-last", ["C14"],
  (CM, 'release, base_product = release_id.split("@")', 'release, base_product = release_id.split("@")[0], release_id.split("@")[-1][1:] or release_id.split("@")[-1]'))
M("c14-create-skips-bp-validation", ["C14"],
  (CM, '        result += "@%s" % create_release_id(bp_short, bp_version, bp_type)',
       '        result += "@%s-%s" % (bp_short, bp_version) + ("" if bp_type == "ga" else "-%s" % bp_type)'))

# ---- C15 ------------------------------------------------------------------
M("c15-encoder-long-nightly", ["C15"],
  (CI, '        if self.type == "nightly":\n            return ".n"', '        if self.type == "nightly":\n            return ".nightly"'),
  (CI, "    \"nightly\": ['n', 'nightly'],", "    \"nightly\": ['n'],"))
M("c15-decoder-drops-d", ["C15"],
  (CI, "    \"development\": ['d']\n", "    \"development\": []\n"))
M("c15-respin-default-1", ["C15"],
  (CI, '    if result["respin"] is None:\n        result["respin"] = 0', '    if result["respin"] is None:\n        result["respin"] = 1'))
M("c15-bp-suffix-not-lowered", ["C15"],
  (CI, "        return '-%s' % self.type.lower()", "        return '_%s' % self.type"))
M("c15-decoder-drops-test-long", ["C15"],
  (CI, "    \"test\": ['t', 'test'],", "    \"test\": ['t'],"))


M("c01-children-list-omitted-below-top", ["C01"],
  (CI, '        if variant_ids:\n            dump["variants"] = sorted(variant_ids)',
       '        if variant_ids and self.parent is None:\n            dump["variants"] = sorted(variant_ids)'))
M("c14-type-class-letters-only", ["C14"],
  (CM, r'RELEASE_TYPE_RE = re.compile(r"^[a-z][a-z0-9]*(-[a-z0-9]+)*\Z")', r'RELEASE_TYPE_RE = re.compile(r"^[a-z][a-z]*(-[a-z0-9]+)*\Z")'))
M("c14-type-substring-match", ["C14"],
  (CM, '            if release_id.endswith(type_):', '            if type_ in release_id.split("-", 1)[-1] and release_id.endswith(type_[-2:]):'))
M("c14-version-allows-trailing-dot", ["C14"],
  (CM, r'([0-9]+(\.[0-9]+)*))\Z")', r'([0-9]+(\.[0-9]+)*\.?))\Z")'))
M("c14-short-allows-uppercase-tail", ["C14"],
  (CM, r'RELEASE_SHORT_RE = re.compile(r"^[a-z][a-z0-9]*(-[a-z0-9]+)*\Z")', r'RELEASE_SHORT_RE = re.compile(r"^[a-z][a-zA-Z0-9]*(-[a-z0-9]+)*\Z")'))
M("c15-date-not-anchored", ["C15"],
  (CI, r'(\.(?P<respin>\d+))?$", compose_id)', r'(\.(?P<respin>\d+))?", compose_id)'))

# ---- C19 ------------------------------------------------------------------
M("c19-nested-quantifier-short", ["C19"],
  (CM, r'RELEASE_SHORT_RE = re.compile(r"^[a-z][a-z0-9]*(-[a-z0-9]+)*\Z")', r'RELEASE_SHORT_RE = re.compile(r"^[a-z]+([a-z0-9]*-?[a-z0-9]+)*\Z")'))
M("c19-nested-quantifier-version", ["C19"],
  (CM, r'([0-9]+(\.[0-9]+)*))\Z")', r'([0-9]+(\.?[0-9]+)*))\Z")'))
M("c19-treeinfo-version-nested", ["C19"],
  (TI, r'self._assert_matches_re("version", [r"^\d+(\.\d+)*\Z"])', r'self._assert_matches_re("version", [r"^(\d+\.?)+\Z"])'))
M("c19-label-word-dash-nested", ["C19"],
  (CI, r'LABEL_RE_LIST.append(re.compile(r"^%s-\d+\.\d+\Z" % label_name))', r'LABEL_RE_LIST.append(re.compile(r"^(%s-?)+\d+(\.?\d+)+\Z" % label_name))'))
M("c19-variant-id-alternation", ["C19"],
  (CI, r'self._assert_matches_re("id", [r"^[a-zA-Z0-9]+\Z"])', r'self._assert_matches_re("id", [r"^([a-zA-Z0-9]+)+\Z"])'))
M("c19-module-uid-nested", ["C19"],
  (MO, r'(?P<module_name>[^:]+):', r'(?P<module_name>([^:/]+/?)+):'))
M("c19-implant-md5-nested", ["C19"],
  (IM, r'self._assert_matches_re("implant_md5", [r"^[a-z0-9]{32}\Z"])', r'self._assert_matches_re("implant_md5", [r"^([a-z]*[0-9]*)*\Z"])'))

# ---- C02 ------------------------------------------------------------------
M("c02-implant-md5-dropped-both", ["C02"],
  (IM, '            "implant_md5": self.implant_md5,\n', ''),
  (IM, '        self.implant_md5 = data["implant_md5"]\n', '        self.implant_md5 = data.get("implant_md5")\n'))
M("c02-size-int32", ["C02"],
  (IM, '            "size": self.size,\n', '            "size": self.size & 0xFFFFFFFF,\n'))
M("c02-disc-count-from-number", ["C02"],
  (IM, '        self.disc_count = int(data["disc_count"])', '        self.disc_count = int(data["disc_number"])'))
M("c02-dedup-by-checksums", ["C02"],
  (IM, '                    images = data["payload"]["images"].setdefault(variant, {}).setdefault(arch, [])\n                    image_obj.serialize(images)',
       '                    images = data["payload"]["images"].setdefault(variant, {}).setdefault(arch, [])\n                    if any(i["checksums"] == image_obj.checksums for i in images):\n                        continue\n                    image_obj.serialize(images)'))
M("c02-volume-id-empty-for-null", ["C02"],
  (IM, '        self.volume_id = data["volume_id"]\n', '        self.volume_id = data["volume_id"] or None\n'),
  (IM, '            "volume_id": self.volume_id,\n', '            "volume_id": self.volume_id if self.volume_id and self.volume_id.strip() else None,\n'))
M("c02-additional-variants-sorted", ["C02"],
  (IM, '            result["additional_variants"] = self.additional_variants', '            result["additional_variants"] = sorted(self.additional_variants)'))

# ---- C03 ------------------------------------------------------------------
M("c03-modules-rpms-sorted", ["C03"],
  (MO, '        data["payload"]["modules"] = self.modules\n', '        for _v in self.modules.values():\n            for _a in _v.values():\n                for _m in _a.values():\n                    _m["rpms"] = sorted(_m["rpms"])\n        data["payload"]["modules"] = self.modules\n'))
M("c03-extra-files-sorted", ["C03"],
  (EF, '        data["payload"]["extra_files"] = self.extra_files\n', '        data["payload"]["extra_files"] = dict((v, dict((a, sorted(l, key=lambda i: i["file"])) for a, l in d.items())) for v, d in self.extra_files.items())\n'))
M("c03-rpms-null-sigkey-dropped-on-load", ["C03"],
  (RP, '        self.rpms = data["payload"]["rpms"]\n', '        self.rpms = data["payload"]["rpms"]\n        for _v in self.rpms.values():\n            for _a in _v.values():\n                for _s in _a.values():\n                    for _r in _s.values():\n                        if _r.get("sigkey") is None:\n                            _r["sigkey"] = ""\n'))

# ---- C04 ------------------------------------------------------------------
M("c04-optionxform-lower", ["C04"],
  (CM, "        # don't convert options to lower()\n        return optionstr", "        return optionstr.lower()"))
M("c04-identity-not-a-field", ["C04"],
  (TI, '            # others\n            "identity",\n', ''))
M("c04-media-swapped", ["C04"],
  (TI, '        parser.set(self._section, "discnum", str(int(self.discnum)))\n        parser.set(self._section, "totaldiscs", str(int(self.totaldiscs)))',
       '        parser.set(self._section, "discnum", str(int(self.totaldiscs)))\n        parser.set(self._section, "totaldiscs", str(int(self.discnum)))'))
M("c04-platforms-without-arch", ["C04", "C17"],
  (TI, '        parser.set(self._section, "platforms", ",".join(sorted(self.platforms | set([self.arch]))))', '        parser.set(self._section, "platforms", ",".join(sorted(self.platforms)) or self.arch)'))
M("c04-discinfo-join-comma-space", ["C04"],
  (DI, '            lines.append(",".join([str(i) for i in self.disc_numbers]))', '            lines.append(", ".join([str(i) for i in self.disc_numbers]))'))
M("c04-discinfo-timestamp-2f", ["C04"],
  (DI, '        lines.append(str(self.timestamp).strip())', '        lines.append(("%.6f" % self.timestamp).strip())'))
M("c04-stage2-instimage-only-with-main", ["C04"],
  (TI, '        if self.instimage:\n            parser.set(self._section, "instimage", self.instimage)', '        if self.instimage and self.mainimage:\n            parser.set(self._section, "instimage", self.instimage)'))
M("c04-child-parent-lost-depth3", ["C04"],
  (TI, '        if variant_uids:\n            parser.set(self._section, "addons", ",".join(sorted(variant_uids)))', '        if variant_uids and (self.parent is None or self.type != "addon"):\n            parser.set(self._section, "addons", ",".join(sorted(variant_uids)))'))

# ---- C05 ------------------------------------------------------------------
M("c05-src-images-first-arch-only", ["C05", "C10"],
  (IM, '                self.add(variant, variant_arch, image)\n        else:', '                self.add(variant, variant_arch, image)\n                break\n        else:'))
M("c05-rpms03-forgets-source", ["C05", "C10"],
  (RP, '                        if srpm_data is not None:\n                            self.add(', '                        if srpm_data is not None and category == "source":\n                            self.add('))
M("c05-composeinfo-version-not-updated", ["C05"],
  (CI, '        self.variants.deserialize(data["payload"])\n        self.header.set_current_version()\n', '        self.variants.deserialize(data["payload"])\n'))
M("c05-treeinfo03-src-swap-removed", ["C05"],
  (TI, '            setattr(self, field, value)\n\n        if self._metadata.tree.arch == "src":\n            self.source_packages = self.packages\n            self.source_repository = self.repository\n            self.packages = None\n            self.repository = None\n\n    def deserialize_1_0',
       '            setattr(self, field, value)\n\n    def deserialize_1_0'))
M("c05-treeinfo00-fix-path-dropped", ["C05"],
  (TI, '                self.images[platform][image] = self._fix_path(path)', '                self.images[platform][image] = path.lstrip("/")'))
M("c05-legacy-release-type-not-lowered", ["C05"],
  (CI, '        self.is_layered = bool(data["product"].get("is_layered", False))\n', '        self.is_layered = False\n'))
M("c05-legacy-prefix-children-exact-depth", ["C05"],
  (CI, '            variant_uids = [i for i in variant_uids if i.startswith("%s-" % variant_uid)]', '            variant_uids = sorted(i for i in variant_uids if i.startswith("%s-" % variant_uid))[:1]'))
M("c05-images10-format-default", ["C05"],
  (IM, '        self.format = data.get("format", "iso")', '        self.format = data.get("format", self.type if self.type in SUPPORTED_IMAGE_FORMATS else "iso")'))

# ---- C06 ------------------------------------------------------------------
M("c06-implant-validator-gone", ["C06"],
  (IM, '        if self.implant_md5 is not None:\n            self._assert_matches_re("implant_md5", [r"^[a-z0-9]{32}\\Z"])', '        pass'))
M("c06-compose-serialize-no-validate", ["C06"],
  (CI, '    def serialize(self, data):\n        self.validate()\n        data[self._section] = {}\n        data[self._section]["id"] = self.id', '    def serialize(self, data):\n        data[self._section] = {}\n        data[self._section]["id"] = self.id'))
M("c06-merges-variants-renamed", ["C06"],
  (IM, '    def _validate_merges_variants(self):', '    def _check_merges_variants(self):'))
M("c06-tree-serialize-no-validate", ["C06"],
  (TI, '    def serialize(self, parser):\n        self.validate()\n        parser.add_section(self._section)\n        parser.set(self._section, "arch", self.arch)', '    def serialize(self, parser):\n        parser.add_section(self._section)\n        parser.set(self._section, "arch", self.arch)'))
M("c06-variant-type-validator-only-top", ["C06"],
  (CI, '    def _validate_type(self):\n        self._assert_value("type", VARIANT_TYPES)', '    def _validate_type(self):\n        if self.parent is None or self.parent.parent is None:\n            self._assert_value("type", VARIANT_TYPES)'))
M("c06-image-validate-only-first-in-cell", ["C06"],
  (IM, '        data = parser\n        self.validate()\n        result = {', '        data = parser\n        if not data:\n            self.validate()\n        result = {'))
M("c06-label-prefix-match", ["C06"],
  (CI, r'LABEL_RE_LIST.append(re.compile(r"^%s-\d+\.\d+\Z" % label_name))', r'LABEL_RE_LIST.append(re.compile(r"^%s-\d+\.\d+" % label_name))'))
M("c06-media-totaldiscs-unchecked", ["C06"],
  (TI, '    def _validate_totaldiscs(self):\n        self._assert_type("totaldiscs", list(six.integer_types) + [type(None)])', '    def _validate_totaldiscs(self):\n        self._assert_type("totaldiscs", list(six.integer_types) + [type(None), float, str])'))
M("c06-drop-image-type-pr-3", ["C06"],
  (IM, "    'vsphere-ova': ['vsphere.ova'],\n", ""))

# ---- C07 ------------------------------------------------------------------
M("c07-type-gate-1-2", ["C07"],
  (CM, '        if self.version_tuple >= (1, 1):\n            metadata_type = data[self._section]["type"]', '        if self.version_tuple >= (1, 2):\n            metadata_type = data[self._section].get("type", self.metadata_type)'))
M("c07-type-gate-exclusive", ["C07"],
  (CM, '        if self.version_tuple >= (1, 1):\n            metadata_type = data[self._section]["type"]', '        if (1, 1) <= self.version_tuple < (2, 0):\n            metadata_type = data[self._section]["type"]'))
M("c07-image-deserialize-no-validate", ["C07"],
  (IM, '        self.additional_variants = data.get("additional_variants", [])\n        self.validate()\n', '        self.additional_variants = data.get("additional_variants", [])\n'))
M("c07-compose-deserialize-no-validate", ["C07"],
  (CI, '            self.deserialize_1_0(data)\n        self.validate()\n\n    def deserialize_0_3(self, data):\n        self.id = data[self._section]["id"]', '            self.deserialize_1_0(data)\n\n    def deserialize_0_3(self, data):\n        self.id = data[self._section]["id"]'))
M("c07-tree-deserialize-no-validate", ["C07"],
  (TI, '            self.deserialize_1_0(parser)\n        self.validate()\n\n    def deserialize_0_0(self, parser):\n        self.arch = parser.get("general", "arch")', '            self.deserialize_1_0(parser)\n\n    def deserialize_0_0(self, parser):\n        self.arch = parser.get("general", "arch")'))
M("c07-treeinfo-type-gate", ["C07"],
  (TI, '            if self.version_tuple >= (1, 1):\n                metadata_type = parser.get(self._section, "type")', '            if self.version_tuple >= (1, 1) and parser.has_option(self._section, "type"):\n                metadata_type = parser.get(self._section, "type")'))
M("c07-images-deserialize-bypasses-add", ["C07", "C09", "C10"],
  (IM, '                    else:\n                        self.add(variant, arch, image_obj)\n        self.header.set_current_version()', '                    else:\n                        self.images.setdefault(variant, {}).setdefault(arch, set()).add(image_obj)\n        self.header.set_current_version()'))
# ---- C08 ------------------------------------------------------------------
M("c08-images-not-sorted", ["C08"],
  (IM, '                    images.sort(key=lambda x: x["path"])\n', ''))
M("c08-sort-keys-false", ["C08"],
  (CM, 'json.dump(parser, f, indent=4, sort_keys=True, separators = (",", ": "))', 'json.dump(parser, f, indent=4, sort_keys=False, separators = (",", ": "))'))
M("c08-arches-unsorted", ["C08"],
  (CI, '        dump["arches"] = sorted(self.arches)', '        dump["arches"] = list(self.arches)'))
M("c08-sorteddict-unsorted", ["C08"],
  (CM, '        return sorted(dict.keys(self), reverse=False)', '        return list(dict.keys(self))'))
M("c08-addons-unsorted", ["C08"],
  (TI, '            parser.set(self._section, "addons", ",".join(sorted(variant_uids)))', '            parser.set(self._section, "addons", ",".join(variant_uids))'))
M("c08-platforms-raw-set", ["C08"],
  (TI, '        parser.set(self._section, "platforms", ",".join(sorted(self.platforms | set([self.arch]))))', '        parser.set(self._section, "platforms", ",".join(self.platforms | set([self.arch])))'))
M("c08-indent-2-for-large", ["C08"],
  (CM, 'json.dump(parser, f, indent=4, sort_keys=True, separators = (",", ": "))', 'json.dump(parser, f, indent=4 if len(parser.get("payload", {})) < 4 else 2, sort_keys=True, separators = (",", ": "))'))
M("c08-child-ids-unsorted", ["C08"],
  (CI, '            dump["variants"] = sorted(variant_ids)', '            dump["variants"] = list(variant_ids)'))

# ---- C09 ------------------------------------------------------------------
M("c09-drop-disc-number-from-identity", ["C09"],
  (IM, '    "arch",\n    "disc_number",\n    "unified",', '    "arch",\n    "unified",'))
M("c09-scan-target-variant-only", ["C09"],
  (IM, '            for checkvar in self.images:\n                for checkarch in self.images[checkvar]:', '            for checkvar in [v for v in self.images if v == variant]:\n                for checkarch in self.images[checkvar]:'))
M("c09-gate-exclusive", ["C09"],
  (IM, '        if self.header.version_tuple >= (1, 1):\n            # disallow adding', '        if self.header.version_tuple > (1, 1):\n            # disallow adding'))
M("c09-insert-before-check", ["C09"],
  (IM, '        if self.header.version_tuple >= (1, 1):\n            # disallow adding', '        self.images.setdefault(variant, {}).setdefault(arch, set()).add(image)\n        if self.header.version_tuple >= (1, 1):\n            # disallow adding'))
M("c09-identify-unified-none", ["C09"],
  (IM, '        unified=ui.unified or False, additional_variants=ui.additional_variants or []', '        unified=ui.unified, additional_variants=ui.additional_variants or []'))
M("c09-additional-variants-as-set", ["C09"],
  (IM, 'additional_variants=ui.additional_variants or []\n', 'additional_variants=sorted(set(ui.additional_variants or []))\n'))
M("c09-scan-same-arch-only", ["C09"],
  (IM, '                for checkarch in self.images[checkvar]:\n                    for curimg', '                for checkarch in [a for a in self.images[checkvar] if a == arch or checkvar != variant]:\n                    for curimg'))

# ---- C10 ------------------------------------------------------------------
M("c10-images-nosrc-allowed", ["C10"],
  (IM, '        if arch in ["src", "nosrc"]:\n            raise ValueError("Source arch is not allowed. Map source files under binary arches.")\n        if self.header', '        if arch in ["src"]:\n            raise ValueError("Source arch is not allowed. Map source files under binary arches.")\n        if self.header'))
M("c10-rpms-nosrc-allowed", ["C10"],
  (RP, '        if arch in ["src", "nosrc"]:', '        if arch == "src":'))
M("c10-images-unknown-arch-allowed", ["C10"],
  (IM, '        if arch not in productmd.common.RPM_ARCHES:\n            raise ValueError("Arch not found in RPM_ARCHES: %s" % arch)\n        if arch in ["src", "nosrc"]:\n            raise ValueError("Source arch is not allowed. Map source files under binary arches.")\n        if self.header',
       '        if arch in ["src", "nosrc"]:\n            raise ValueError("Source arch is not allowed. Map source files under binary arches.")\n        if self.header'))
M("c10-rpms03-src-kept", ["C10"],
  (RP, '                if arch == "src":\n                    continue\n', '                if arch == "src" and len(payload[variant]) > 1:\n                    continue\n'))
M("c10-arch-case-insensitive", ["C10"],
  (RP, '        if arch not in productmd.common.RPM_ARCHES:', '        if arch.lower() not in productmd.common.RPM_ARCHES:'))
M("c10-drop-arch-from-table", ["C10", "C06"],
  (CM, '"riscv128", "riscv32", "riscv64",', '"riscv32", "riscv64",'))

# ---- C11 ------------------------------------------------------------------
M("c11-duplicate-check-removed", ["C11"],
  (CI, '            new_variant = self.variants.setdefault(variant_id, variant)\n            if new_variant != variant:\n                raise ValueError("Variant ID already exists: %s" % variant.id)', '            self.variants[variant_id] = variant'))
M("c11-result-not-sorted", ["C11"],
  (CI, '        result.sort(key=lambda x: x.uid)\n', ''))
M("c11-arch-filter-dropped-recursive", ["C11"],
  (CI, 'result.extend(variant.get_variants(arch=arch, types=', 'result.extend(variant.get_variants(types='))
M("c11-uid-scan-removed", ["C11"],
  (CI, '            for i in self.variants:\n                var = self.variants[i]\n                if var.uid == full:\n                    return var\n            # ... or for a descendant', '            # ... or for a descendant'))
M("c11-dashed-prefix-descent-removed", ["C11"],
  (CI, '                if "-" in var.uid and full.startswith(var.uid + "-"):', '                if False:'))
M("c19-legacy-children-expanded-again", ["C19"],
  (TI, '        if self.type == "variant" and not addon:', '        if self.type == "variant":'))
M("c04-timestamp-through-float-again", ["C04"],
  (TI, '    try:\n        return int(value)\n    except ValueError:\n        return int(float(value))', '    return int(float(value))'))
M("c04-platform-suffix-always-stripped", ["C04"],
  (TI, ' \\\n                    and platform not in self._metadata.tree.platforms:', ':'))
M("c11-parent-not-restored", ["C11"],
  (CI, '            # a refused variant must not stay re-parented\n            variant.parent = old_parent\n', '            # a refused variant must not stay re-parented\n'))
M("c11-parent-arch-truthiness", ["C11"],
  (CI, '    def _validate_parent_arch(self):\n        if self.parent is None:', '    def _validate_parent_arch(self):\n        if not self.parent:'))
M("c11-type-filter-self-leak", ["C11"],
  (CI, '            if types and variant.type not in types:\n                continue', '            if types and variant.type not in types and not recursive:\n                continue'))
M("c11-src-arch-only-flat", ["C11"],
  (CI, '            if arch and arch not in variant.arches.union(["src"]):', '            if arch and arch not in (variant.arches.union(["src"]) if not recursive else variant.arches):'))

# ---- C12 ------------------------------------------------------------------
M("c12-sigkey-not-lowered", ["C12"],
  (RP, '        if sigkey is not None:\n            sigkey = sigkey.lower()\n', ''))
M("c12-setdefault-before-checks", ["C12"],
  (RP, '        if category not in SUPPORTED_CATEGORIES:\n            raise ValueError("Invalid category value: %s" % category)\n\n        if not path:', '        self.rpms.setdefault(variant, {}).setdefault(arch, {})\n        if category not in SUPPORTED_CATEGORIES:\n            raise ValueError("Invalid category value: %s" % category)\n\n        if not path:'))
M("c12-srpm-key-not-canonical", ["C12", "C13"],
  (RP, '        if srpm_nevra:\n            srpm_nevra, _ = self._check_nevra(srpm_nevra)', '        if srpm_nevra:\n            self._check_nevra(srpm_nevra)'))
M("c12-relative-to-no-slash", ["C12"],
  (EF, '    root = root.rstrip("/") + "/"\n    if path.startswith(root):\n        return path[len(root):]', '    root = root.rstrip("/")\n    if path.startswith(root):\n        return path[len(root):].lstrip("/")'))
M("c12-modules-rpms-assigned", ["C12"],
  (MO, '        metadata.setdefault("rpms", []).extend(list(rpms))', '        metadata["rpms"] = list(rpms)'))
M("c12-category-check-removed", ["C12"],
  (RP, '        if category not in SUPPORTED_CATEGORIES:\n            raise ValueError("Invalid category value: %s" % category)\n\n        if not path:', '        if not path:'))
M("c12-modulemd-path-overwrites-categories", ["C12"],
  (MO, '        metadata.setdefault("modulemd_path", {})[category] = modulemd_path', '        metadata["modulemd_path"] = {category: modulemd_path}'))
M("c12-extra-checksums-shared", ["C12"],
  (EF, '        metadata.append({"file": path, "size": size, "checksums": checksums})', '        if metadata and metadata[-1]["file"] == path:\n            metadata[-1] = {"file": path, "size": size, "checksums": checksums}\n        else:\n            metadata.append({"file": path, "size": size, "checksums": checksums})'))
M("c12-modules-koji-tag-kept", ["C12"],
  (MO, '            "koji_tag": koji_tag,\n        }', '            "koji_tag": metadata.get("metadata", {}).get("koji_tag", koji_tag),\n        }'))

# ---- C16 ------------------------------------------------------------------
M("c16-one-chunk-only", ["C16"],
  (TI, '            checksum.update(chunk)\n', '            checksum.update(chunk)\n            if fo.tell() >= 4 * 1024**2:\n                break\n'))
M("c16-stop-on-short-read", ["C16"],
  (TI, '            if not chunk:\n                break\n            checksum.update(chunk)', '            if len(chunk) < 1024**2:\n                checksum.update(chunk) if len(chunk) > 1 else None\n                break\n            checksum.update(chunk)'))
M("c16-normpath-dropped", ["C16"],
  (TI, '        relative_path = os.path.normpath(relative_path)\n', '        relative_path = relative_path.lstrip("./") if relative_path.startswith("./") else relative_path\n'))
M("c16-sha1-typed-sha256", ["C16"],
  (TI, '                        checksum_type, checksum = "sha1", value', '                        checksum_type, checksum = "sha256", value'))
M("c16-add-checksum-overwrites", ["C16"],
  (IM, '            if checksum_value and checksum_value != self.checksums[checksum_type]:\n                raise ValueError', '            if checksum_value and checksum_value != self.checksums[checksum_type] and not root:\n                raise ValueError'),
  (IM, '            return self.checksums[checksum_type]\n', '            if not checksum_value:\n                return self.checksums[checksum_type]\n'))
M("c16-absolute-refusal-removed", ["C16"],
  (TI, '        if relative_path.startswith("/"):\n            raise ValueError("Relative path expected: %s" % relative_path)\n        relative_path', '        relative_path'))
M("c16-unknown-length-falls-to-md5", ["C16"],
  (TI, '                    else:\n                        raise ValueError("Unknown checksum type for %s: %s" % (path, value))', '                    elif len(value) == 128:\n                        checksum_type, checksum = "sha512", value\n                    else:\n                        raise ValueError("Unknown checksum type for %s: %s" % (path, value))'))
M("c16-hexdigest-upper-for-blake", ["C16"],
  (TI, '    return checksum.hexdigest().lower()', '    return checksum.hexdigest().lower() if checksum.digest_size != 28 else checksum.hexdigest()[:-1] + "0"'))

# ---- C17 ------------------------------------------------------------------
M("c17-default-main-last", ["C17"],
  (TI, '            variant = variants[0]\n        else:\n            variant = main_variant', '            variant = variants[-1]\n        else:\n            variant = main_variant'))
M("c17-timestamp-str", ["C17"],
  (TI, 'parser.set(self._section, "timestamp", str(int(self._metadata.tree.build_timestamp)))', 'parser.set(self._section, "timestamp", str(self._metadata.tree.build_timestamp))'))
M("c17-general-platforms-without-arch", ["C17"],
  (TI, '        parser.set(self._section, "platforms", ",".join(sorted(self._metadata.tree.platforms | set([self._metadata.tree.arch]))))', '        parser.set(self._section, "platforms", ",".join(sorted(self._metadata.tree.platforms)) or self._metadata.tree.arch)'))
M("c17-family-from-short", ["C17"],
  (TI, '        parser.set(self._section, "family", self._metadata.release.name)', '        parser.set(self._section, "family", self._metadata.release.short or self._metadata.release.name)'))
M("c17-src-fallback-removed", ["C17"],
  (TI, '        elif self._metadata.tree.arch == "src" and self._metadata.variants[variant].paths.source_repository is not None:', '        elif False and self._metadata.variants[variant].paths.source_repository is not None:'))
M("c17-packagedir-from-first", ["C17"],
  (TI, '        if self._metadata.variants[variant].paths.packages is not None:\n            parser.set(self._section, "packagedir", self._metadata.variants[variant].paths.packages)', '        if self._metadata.variants[variants[0]].paths.packages is not None:\n            parser.set(self._section, "packagedir", self._metadata.variants[variants[0]].paths.packages)'))
M("c17-name-without-version", ["C17"],
  (TI, '        parser.set(self._section, "name", "%s %s" % (self._metadata.release.name, self._metadata.release.version))', '        parser.set(self._section, "name", ("%s %s" % (self._metadata.release.name, self._metadata.release.major_version)))'))
M("c17-src-fallback-binary-tree", ["C17"],
  (TI, '        elif self._metadata.tree.arch == "src" and self._metadata.variants[variant].paths.source_packages is not None:', '        elif self._metadata.variants[variant].paths.source_packages is not None:'))

# ---- C18 ------------------------------------------------------------------
M("c18-open-before-serialize", ["C18"],
  (CM, '        parser = self._get_parser()\n        self.serialize(parser)\n        # ... and render the whole text first: values no validator looks at\n        # may still be refused by the encoder\n        text = six.StringIO()\n        self.build_file(parser, text)\n        with open_file_obj(f, "w") as f:\n            f.write(text.getvalue())', '        with open_file_obj(f, "w") as f:\n            parser = self._get_parser()\n            self.serialize(parser)\n            self.build_file(parser, f)'))
M("c18-treeinfo-open-before-serialize", ["C18"],
  (TI, '        parser = self._get_parser()\n        self.serialize(parser, main_variant=main_variant)\n        text = six.StringIO()\n        self.build_file(parser, text)\n        with productmd.common.open_file_obj(f, "w") as f:\n            f.write(text.getvalue())', '        with productmd.common.open_file_obj(f, "w") as f:\n            parser = self._get_parser()\n            self.serialize(parser, main_variant=main_variant)\n            self.build_file(parser, f)'))
M("c18-delete-on-failure", ["C18"],
  (CM, '        parser = self._get_parser()\n        self.serialize(parser)\n        # ... and render the whole text first: values no validator looks at\n        # may still be refused by the encoder\n        text = six.StringIO()\n        self.build_file(parser, text)\n        with open_file_obj(f, "w") as f:\n            f.write(text.getvalue())', '        parser = self._get_parser()\n        try:\n            self.serialize(parser)\n        except Exception:\n            if isinstance(f, six.string_types) and os.path.exists(f):\n                os.unlink(f)\n            raise\n        text = six.StringIO()\n        self.build_file(parser, text)\n        with open_file_obj(f, "w") as f:\n            f.write(text.getvalue())'))
M("c18-render-into-the-open-file-again", ["C18"],
  (CM, '        text = six.StringIO()\n        self.build_file(parser, text)\n        with open_file_obj(f, "w") as f:\n            f.write(text.getvalue())', '        with open_file_obj(f, "w") as f:\n            self.build_file(parser, f)'))
M("c18-touch-destination-first", ["C18"],
  (CM, '        self.validate()\n        # serialize (and thereby validate all nested objects) before the', '        self.validate()\n        if isinstance(f, six.string_types) and not os.path.exists(f):\n            open(f, "a").close()\n        # serialize (and thereby validate all nested objects) before the'))

# ---- C20 ------------------------------------------------------------------
M("c20-direct-preferred", ["C20"],
  (CO, '        if _file_exists(os.path.join(path, "metadata/composeinfo.json")):\n            self.compose_path = path\n', '        if _file_exists(os.path.join(compose_path, "metadata/composeinfo.json")):\n            pass\n        elif _file_exists(os.path.join(path, "metadata/composeinfo.json")):\n            self.compose_path = path\n'))
M("c20-legacy-rpm-name-dropped", ["C20"],
  (CO, '            "metadata/rpms.json",\n            "metadata/rpm-manifest.json",\n', '            "metadata/rpms.json",\n'))
M("c20-images-cache-not-stored", ["C20"],
  (CO, '        self._images = self._load_metadata(paths, productmd.images.Images)\n        return self._images', '        return self._load_metadata(paths, productmd.images.Images)'))
M("c20-except-keyerror", ["C20"],
  (CO, '        except ValueError as exc:', '        except KeyError as exc:'))
M("c20-legacy-scan-any-subdir", ["C20"],
  (CO, '                if _file_exists(metadata_path):\n                    self.compose_path = path\n                    break', '                if os.path.isdir(path) and not i.startswith("."):\n                    self.compose_path = path\n                    break'))
M("c20-modules-reuse-rpms-cache", ["C20"],
  (CO, '        if self._modules is not None:\n            return self._modules\n', '        if self._modules is not None or self._rpms is not None and False:\n            return self._modules\n'),
  (CO, '        self._modules = self._load_metadata(paths, productmd.modules.Modules)\n        return self._modules', '        obj = self._load_metadata(paths, productmd.modules.Modules)\n        self._modules = obj if self._composeinfo is not None else None\n        return obj'))
M("c20-error-message-no-location", ["C20"],
  (CO, "        raise RuntimeError('Failed to load metadata from %s' % self.compose_path)", "        raise RuntimeError('Failed to load metadata')"))

# ---- round 8: "keep what the file said" (state carried over from a load into later writes) ---------------------
M("c02-raw-dict-kept-from-load", ["C02"],
  (IM, '        self.additional_variants = data.get("additional_variants", [])\n        self.validate()\n',
       '        self.additional_variants = data.get("additional_variants", [])\n        self._raw = dict(data)\n        self.validate()\n'),
  (IM, '        if self.unified:\n            # Only add the `unified` field',
       '        for key, value in getattr(self, "_raw", {}).items():\n            if result.get(key) is None:\n                result[key] = value\n        if self.unified:\n            # Only add the `unified` field'))
M("c11-readd-attached-variant-elsewhere", ["C11"],
  (CI, '            if old_parent is not None and old_parent is not self and any(i is variant for i in old_parent.variants.values()):\n                raise ValueError("Variant already belongs to another parent: %s" % variant.uid)\n', ''),
  (CI, '                if item is not self and any(i is variant for i in item.variants.values()):\n                    # the very same object under a second holder would be in the forest twice\n                    raise ValueError("Variant already belongs to another parent: %s" % variant.uid)\n', ''))
M("c04-checksums-of-the-loaded-file-written-again", ["C04"],
  (TI, '                self.checksums[path] = (checksum_type, checksum)\n        self.validate()\n',
       '                self.checksums[path] = (checksum_type, checksum)\n            self._loaded = dict(self.checksums)\n        self.validate()\n'),
  (TI, '        self.validate()\n        if not self.checksums:\n            return\n        parser.add_section(self._section)\n',
       '        self.validate()\n        for path, value in getattr(self, "_loaded", {}).items():\n            self.checksums.setdefault(path, value)\n        if not self.checksums:\n            return\n        parser.add_section(self._section)\n'))
M("c11-relative-remainder-vs-absolute-uid", ["C11"],
  (CI, '            full = "%s-%s" % (self.uid, name) if hasattr(self, "uid") else name\n', '            full = name\n'))
