"""Down-converters: render valid content (descriptions of C01-C04) as documents of
every supported OLDER format version, following the mapping the property names:
header without type; fields that did not exist yet removed (release.type,
base_product.type, internal, subvariant, unified, child 'variants' lists);
legacy section names ('product' for 'release', also inside layered-product
variants); compose date/type/respin only in the id (< 0.3); variants related
only by UID prefix (< 1.0, depth <= 2 as the legacy reader supports); source
images / source RPMs under a 'src' arch; treeinfo 1.1/1.0 (no header type),
0.3 ([product], variants=/addons= lists, src trees carrying source paths in
packages/repository), 0.0 (only [general] + images/stage2/checksums).

Each function first RESTRICTS the description to what the old format can
express (so that expectations are exact) and returns
(document text, expected observation after load).
"""
import copy
import json

from rv import fmt_composeinfo as FC
from rv import fmt_images as FI
from rv import fmt_manifests as FM
from rv import fmt_treeinfo as FT
from rv.model import domains

COMPOSEINFO_VERSIONS = ["0.0", "0.2", "0.3", "1.0", "1.1"]
IMAGES_VERSIONS = ["1.0", "1.1"]
RPMS_VERSIONS = ["0.3", "1.0", "1.1"]
TREEINFO_VERSIONS = ["0.0", "0.3", "1.0", "1.1"]


def exact_int(stamp):
    """The integer a timestamp text denotes: exactly for an integer literal, else the integer part of the number."""
    try:
        return int(stamp)
    except (TypeError, ValueError):
        return int(float(stamp))


def vt(version):
    return tuple(int(x) for x in version.split("."))


# ---------------------------------------------------------------------------
# composeinfo
# ---------------------------------------------------------------------------

def composeinfo(D, version, rng):
    D = copy.deepcopy(D)
    v = vt(version)
    rel = D["release"]
    # fields that did not exist yet
    if v <= (1, 1):
        rel["internal"] = False
    if v <= (1, 0):
        rel["type"] = "ga"
        if D["base_product"]:
            D["base_product"]["type"] = "ga"
    if not rel["is_layered"]:
        D["base_product"] = None
    comp = D["compose"]
    # the id must carry date/type/respin for < 0.3 (and is a realistic id everywhere)
    comp["respin"] = comp["respin"] % 1000
    comp["id"] = "%s-%s-%s%s.%d" % (rel["short"] if rel["short"] and "\n" not in rel["short"] else "X", "1",
                                   comp["date"], domains.COMPOSE_TYPE_SUFFIX[comp["type"]], comp["respin"])
    if v < (1, 0):
        # variants related only by UID prefix: depth <= 2; a dashed top-level UID ('Server-Tools', id 'ServerTools') is
        # top-level there iff the part before its last dash is not itself a variant - with or without children of its own
        top_uids = set(t["uid"] for t in D["variants"])
        tops = []
        for t in D["variants"]:
            if "-" in t["uid"] and any(t["uid"].startswith(u + "-") for u in top_uids if u != t["uid"]):
                continue
            for c in t["children"]:
                c["children"] = []
            tops.append(t)
        # no kept variant may look like a descendant of another top-level one
        keep = []
        for t in tops:
            others = [n["uid"] for o in tops if o is not t for n in [o] + o["children"]]
            if any(u.startswith(t["uid"] + "-") for u in others) or any(t["uid"].startswith(u + "-") for u in others):
                continue
            keep.append(t)
        D["variants"] = keep
    for n in FC.iter_nodes(D["variants"]):
        if n["type"] == "layered-product" and n["release"]:
            if v <= (1, 1):
                n["release"]["internal"] = False
            if v <= (1, 0):
                n["release"]["type"] = "ga"
    E = FC.expected_obs(D, comp["id"])
    hdr = {"version": version}
    if v >= (1, 1):
        hdr["type"] = "productmd.composeinfo"
    payload = {}
    c = {"id": comp["id"], "type": comp["type"]}
    if v >= (0, 3) or rng.random() < 0.5:
        c["date"] = comp["date"]
        c["respin"] = comp["respin"]
    if comp["label"]:
        c["label"] = comp["label"]
        c["final"] = bool(comp["final"])
    elif rng.random() < 0.3:
        # hand-written files may spell the defaults out
        c["final"] = False
        if rng.random() < 0.5:
            c["label"] = rng.choice([None, ""])
    payload["compose"] = c
    r = {"name": rel["name"], "version": rel["version"], "short": rel["short"]}
    if v >= (1, 1):
        r["type"] = rel["type"]
    if rel["is_layered"]:
        r["is_layered"] = True
    elif rng.random() < 0.3:
        r["is_layered"] = False
    payload["release" if v > (0, 3) else "product"] = r
    if rel["is_layered"] and D["base_product"]:
        b = dict((k, D["base_product"][k]) for k in ("name", "version", "short"))
        if v >= (1, 1):
            b["type"] = D["base_product"]["type"]
        payload["base_product"] = b
    variants = {}

    def emit(n):
        d = {"id": n["id"], "uid": n["uid"], "name": n["name"], "type": n["type"], "arches": sorted(n["arches"]),
             "paths": FC.norm_paths(n)}
        if n["type"] == "layered-product" and n["release"]:
            rr = {"name": n["release"]["name"], "version": n["release"]["version"], "short": n["release"]["short"], "is_layered": True}
            if v >= (1, 1):
                rr["type"] = n["release"]["type"]
            d["release" if v > (0, 3) else "product"] = rr
        if n["children"] and v >= (1, 0):
            d["variants"] = sorted(c["id"] for c in n["children"])
        variants[n["uid"]] = d
        for c in n["children"]:
            emit(c)
    for n in D["variants"]:
        emit(n)
    payload["variants"] = variants
    return json.dumps({"header": hdr, "payload": payload}, indent=1), E


# ---------------------------------------------------------------------------
# images
# ---------------------------------------------------------------------------

def images(rng, version, collide=False):
    """Builds an images document of the old version directly (with src entries); returns (text, expected cells, meta)."""
    variants = rng.sample(FI.VARIANT_POOL, rng.randint(1, 3))
    layout = {}
    expected = {}
    n = 0
    used_ident = set()
    src_seen = False
    for v in variants:
        nbin = rng.choice([1, 1, 2, 3])
        arches = rng.sample(FI.ARCH_POOL, nbin)
        has_src = rng.random() < 0.6
        cells = {}
        src_imgs = []
        keys = arches + (["src"] if has_src else [])
        keys = sorted(keys) if rng.random() < 0.5 else rng.sample(keys, len(keys))
        for a in keys:
            lst = []
            for _ in range(rng.randint(1, 3)):
                at = FI.gen_image_attrs(rng)
                at["unified"], at["additional_variants"] = False, []
                at["arch"] = a if a != "src" else "src"
                at["path"] = "%s/%s/iso/img%d.%s" % (v, "source" if a == "src" else a, n, at["format"])
                if version == "1.0":
                    at["subvariant"] = ""
                    both = [t for t in domains.IMAGE_TYPES if t in domains.IMAGE_FORMATS]
                    if both and rng.random() < 0.15:
                        # the format key is absent (documented default 'iso') on an image whose TYPE is also a format name
                        at["type"], at["format"] = rng.choice(both), "iso"
                        at["omit_format"] = True
                # identity must stay unique once the file is rewritten as a current-version file
                for _try in range(30):
                    ident = FI.model_identity(at)
                    if ident not in used_ident:
                        break
                    at["disc_number"] = at["disc_number"] + 1
                if collide and n == 1:
                    pass
                used_ident.add(FI.model_identity(at))
                n += 1
                lst.append(at)
                if a == "src":
                    src_imgs.append(at)
                    src_seen = True
            cells[a] = lst
        layout[v] = cells
        src_imgs = cells.get("src", [])
        for a in arches:
            cell = expected.setdefault((v, a), {})
            for at in cells[a] + src_imgs:
                cell[at["path"]] = FI.norm_attrs(at)
    collided = False
    if collide:
        # two images equal on (type, format, arch, disc number[, subvariant]) with different checksums
        v = variants[0]
        a = [x for x in layout[v] if x != "src"][0]
        first = layout[v][a][0]
        twin = copy.deepcopy(first)
        twin["path"] = first["path"] + ".twin"
        twin["checksums"] = FI.gen_checksums(rng)
        if twin["checksums"] == first["checksums"]:
            twin["checksums"] = {"md5": "f" * 32}
        layout[v][a].append(twin)
        expected[(v, a)][twin["path"]] = FI.norm_attrs(twin)
        collided = True
    doc_images = {}
    for v, cells in layout.items():
        for a, lst in cells.items():
            out = doc_images.setdefault(v, {}).setdefault(a, [])
            for at in lst:
                d = dict((k, at[k]) for k in FI.ATTRS if k not in ("unified", "additional_variants"))
                if version == "1.0":
                    d.pop("subvariant")
                    if d["format"] == "iso" and (rng.random() < 0.5 or at.get("omit_format")):
                        d.pop("format")        # documented default
                out.append(d)
    hdr = {"version": version}
    if version != "1.0":
        hdr["type"] = "productmd.images"
    comp = {"id": "X-1-20200101.n.3", "type": "nightly", "date": "20200101", "respin": 3}
    doc = {"header": hdr, "payload": {"compose": comp, "images": doc_images}}
    exp_comp = {"id": comp["id"], "type": "nightly", "date": "20200101", "respin": 3, "label": None, "final": False}
    return json.dumps(doc, indent=1), expected, {"compose": exp_comp, "src": src_seen, "collide": collided}


# ---------------------------------------------------------------------------
# rpms
# ---------------------------------------------------------------------------

def rpms(H, version, rng):
    """H: a C03 history of valid adds.  Returns (text, expected mapping)."""
    model = FM.RpmsModel()
    for op in H["ops"]:
        model.add(copy.deepcopy(op["args"]), op["meta"])
    mapping = model.state()
    comp = H["compose"]
    c = {"id": comp["id"], "type": comp["type"], "date": comp["date"], "respin": comp["respin"]}
    if comp["label"]:
        c["label"] = comp["label"]
        c["final"] = bool(comp["final"])
    if version in ("1.0", "1.1"):
        hdr = {"version": version}
        if version == "1.1":
            hdr["type"] = "productmd.rpms"
        return json.dumps({"header": hdr, "payload": {"compose": c, "rpms": mapping}}, indent=1), mapping
    # 0.3: payload 'manifest'; binary/debug packages typed package|debug under binary arches; source RPMs in a per-variant
    # 'src' table keyed by their own NEVRA
    manifest = {}
    expected = {}
    for variant, arches in mapping.items():
        src_table = {}
        for arch, srpms in arches.items():
            for skey, rpms_ in srpms.items():
                for rkey, d in rpms_.items():
                    if d["category"] == "source":
                        # the same source RPM may be listed under several arches with different paths; 0.3 has one table
                        src_table.setdefault(skey, {"path": d["path"], "sigkey": d["sigkey"]})
        for arch, srpms in arches.items():
            for skey, rpms_ in srpms.items():
                bins = dict((rk, d) for rk, d in rpms_.items() if d["category"] != "source")
                if not bins:
                    continue     # a source RPM without any package built from it has no place in a 0.3 binary arch
                tgt = manifest.setdefault(variant, {}).setdefault(arch, {}).setdefault(skey, {})
                exp = expected.setdefault(variant, {}).setdefault(arch, {}).setdefault(skey, {})
                for rk, d in bins.items():
                    tgt[rk] = {"path": d["path"], "sigkey": d["sigkey"], "type": "package" if d["category"] == "binary" else "debug"}
                    exp[rk] = dict(d)
                if skey in src_table:
                    exp[skey] = {"path": src_table[skey]["path"], "sigkey": src_table[skey]["sigkey"], "category": "source"}
        if src_table and variant in manifest:
            manifest[variant]["src"] = src_table
    return json.dumps({"header": {"version": "0.3"}, "payload": {"compose": c, "manifest": manifest}}, indent=1), expected


# ---------------------------------------------------------------------------
# treeinfo
# ---------------------------------------------------------------------------

def treeinfo(D, version, rng):
    D = copy.deepcopy(D)
    v = vt(version)
    if v == (0, 0):
        return treeinfo_0_0(D, rng)
    arch = D["tree"]["arch"]
    if v <= (0, 3):
        if arch == "src":
            # 0.3 src trees carry their source paths in packages/repository; binary paths cannot be expressed
            for n in FT.iter_nodes(D["variants"]):
                n["paths"].pop("packages", None)
                n["paths"].pop("repository", None)
        # the 0.3 reader forces type 'addon' on children only through their own section: keep any type
    E = FT.expected_obs(D)
    S = {}
    hdr = {"version": version}
    if v >= (1, 1):
        hdr["type"] = "productmd.treeinfo"
    S["header"] = hdr
    rel = {"name": D["release"]["name"], "short": D["release"]["short"], "version": D["release"]["version"]}
    if D["release"]["is_layered"]:
        rel["is_layered"] = "true"
        S["base_product"] = dict(D["base_product"])
    S["release" if v > (0, 3) else "product"] = rel
    S["tree"] = {"arch": arch, "build_timestamp": str(D["tree"]["build_timestamp"]),
                 "platforms": ",".join(sorted(set(D["tree"]["platforms"]) | set([arch]))),
                 "variants": ",".join(sorted(x["uid"] for x in D["variants"]))}

    def emit(n, parent):
        sec = ("addon-" if n["type"] == "addon" else "variant-") + n["uid"]
        d = {"id": n["id"], "uid": n["uid"], "name": n["name"], "type": n["type"]}
        paths = dict(n["paths"])
        if v <= (0, 3) and arch == "src":
            if "source_packages" in paths:
                paths["packages"] = paths.pop("source_packages")
            if "source_repository" in paths:
                paths["repository"] = paths.pop("source_repository")
        d.update(paths)
        if parent is not None:
            d["parent"] = parent["uid"]
        if n["children"]:
            key = "addons" if (v > (0, 3) or rng.random() < 0.5) else "variants"
            d[key] = ",".join(sorted(c["uid"] for c in n["children"]))
        S[sec] = d
        for c in n["children"]:
            emit(c, n)
    for n in D["variants"]:
        emit(n, None)
    for plat, table in D["images"].items():
        S["images-" + plat] = dict(table)
    st = dict((k, x) for k, x in D["stage2"].items() if x)
    if st:
        S["stage2"] = st
    if D["media"]:
        S["media"] = {"discnum": str(D["media"]["discnum"]), "totaldiscs": str(D["media"]["totaldiscs"])}
    if D["checksums"]:
        S["checksums"] = dict((p, "%s:%s" % (t, x)) for p, (t, x) in D["checksums"].items())
    return render_ini(S, rng), E


def render_ini(S, rng, ordered=None):
    """Hand-written looking INI text: legacy files were not produced by this library, so spacing, delimiter, blank lines,
    comments, section order, option order and the spelling of booleans vary."""
    style = rng.choice(["plain", "plain", "nospace", "colon", "comments", "shuffled"])
    secs = list(ordered if ordered is not None else sorted(S))
    if style == "shuffled":
        rng.shuffle(secs)
    lines = []
    if style == "comments":
        lines += ["# written by hand", "; another comment style", ""]
    for sec in secs:
        lines.append("[%s]" % sec)
        keys = list(S[sec]) if ordered is not None else sorted(S[sec])
        if style == "shuffled":
            rng.shuffle(keys)
        for k in keys:
            v = S[sec][k]
            if k == "is_layered" and v == "true":
                v = rng.choice(["true", "True", "TRUE", "yes", "1", "on"])
            if style == "nospace":
                lines.append("%s=%s" % (k, v))
            elif style == "colon" and ":" not in k and "=" not in k:
                lines.append("%s: %s" % (k, v))
            else:
                lines.append("%s = %s" % (k, v))
            if style == "comments" and rng.random() < 0.2:
                lines.append("# comment after %s" % k.replace("\n", " "))
        lines.append("")
        if style == "comments":
            lines.append("")
    return "\n".join(lines)


NOT_JUDGED = "<not judged>"
KNOWN_FAMILIES = ["Red Hat Enterprise Linux", "Red Hat Enterprise Linux Server", "Red Hat Enterprise Linux Client",
                  "Red Hat Enterprise Linux Workstation", "CentOS", "CentOS Linux", "EulerOS", "Subscription Asset Manager",
                  "Red Hat Storage", "JBEAP", "Red Hat Storage Software Appliance", "Fedora Core", "Fedora"]
HACK_NAMES = ("Red Hat", "Fedora", "CentOS", "EulerOS", "Subscription Asset Manager", "JBEAP")


def treeinfo_0_0(D, rng):
    """Pre-productmd file: only [general] + images/stage2/checksums.  Restricted to names and versions on which the
    legacy reader applies none of its product-specific hacks."""
    name = D["release"]["name"]
    if any(name.startswith(h) for h in HACK_NAMES) or not name or "%" in name:
        name = "Spacewalk"
    version = D["release"]["version"]
    if not version.replace(".", "").isdigit() or version.startswith(".") or version.endswith(".") or ".." in version:
        version = "2.1"
    known_family = None
    if D.get("legacy_known_family"):
        # the product families the pre-productmd reader has special cases for.  How it NAMES them is code, not documentation:
        # release name / short (and the version when the file spells it 'x.y-Beta') are not judged for these files -
        # everything else is, and so is the whole conversion cycle (current header, identical reload, identical second write)
        known_family = name = D["legacy_known_family"]
        version = D["release"]["version"]
    arch = D["tree"]["arch"]
    top = sorted(D["variants"], key=lambda x: x["uid"])[0]
    uid = top["uid"] if "-" not in top["uid"] else top["id"]
    ts = D["tree"]["build_timestamp"]
    if ts < 1:
        ts = 123456
    stamp = "%d.%02d" % (ts, rng.randrange(100)) if rng.random() < 0.5 else str(ts)
    g = {"family": name, "version": version, "name": "%s-%s" % (name, version), "arch": arch, "timestamp": stamp, "variant": uid}
    pk = top["paths"].get("packages") if arch != "src" else top["paths"].get("source_packages")
    rp = top["paths"].get("repository") if arch != "src" else top["paths"].get("source_repository")
    pk = (pk or "").rstrip("/") or None
    rp = (rp or "").rstrip("/") or None
    if rp and rp.endswith("/repodata"):
        rp = None
    if pk and "%" in pk:
        pk = "Packages"
    if rp and "%" in rp:
        rp = "repo"
    blank_pk = False
    if pk:
        g[rng.choice(["packagedir", "packages"])] = pk
    elif rng.random() < 0.4:
        # the option spelled out and left blank (every Fedora file of that age): packages sit in the tree root - which is
        # NOT the same as the option being absent (then they sit where the repository is)
        g[rng.choice(["packagedir", "packages"])] = ""
        blank_pk = True
    if rp:
        g["repository"] = rp
    ident = top["paths"].get("identity")
    if ident:
        g["identity"] = ident
    if D["media"]:
        g["discnum"] = str(D["media"]["discnum"])
        g["totaldiscs"] = str(D["media"]["totaldiscs"])
    S = {"general": g}
    images = {}
    platforms = set([arch])
    for plat, table in D["images"].items():
        sec = "images-" + plat
        if plat != arch and rng.random() < 0.5:
            sec = "images-%s-%s" % (plat, arch)          # legacy naming
        tbl = {}
        exp_tbl = {}
        for k, p in table.items():
            if rng.random() < 0.3 and not p.startswith("."):
                tbl[k] = "/mnt/tree/%s/os/%s" % (arch, p)     # legacy absolute path; the reader keeps what follows /os/
            else:
                tbl[k] = p
            exp_tbl[k] = p
        S[sec] = tbl
        images[plat] = exp_tbl
        platforms.add(plat)
    st = dict((k, x) for k, x in D["stage2"].items() if x)
    if st:
        S["stage2"] = st
    if D["checksums"]:
        S["checksums"] = {}
        for p, (t, x) in D["checksums"].items():
            S["checksums"][p] = "%s:%s" % (t, x)
    repo_exp = rp or "."
    pk_exp = pk or ("." if blank_pk else repo_exp)
    paths = dict((k, None) for k in domains.TREE_PATH_KINDS)
    if arch == "src":
        paths["source_packages"], paths["source_repository"] = pk_exp, repo_exp
    else:
        paths["packages"], paths["repository"] = pk_exp, repo_exp
    paths["identity"] = ident
    E = {"release": {"name": name if known_family is None else NOT_JUDGED, "short": "" if known_family is None else NOT_JUDGED,
                     "version": version, "is_layered": False},
         "base_product": {"name": None, "short": None, "version": None},
         "tree": {"arch": arch, "build_timestamp": exact_int(stamp), "platforms": sorted(platforms)},
         "variants": [{"id": uid.split("-")[-1], "uid": uid, "name": uid.split("-")[-1], "type": "variant", "parent": None,
                       "paths": paths, "children": []}],
         "images": images,
         "stage2": {"mainimage": D["stage2"]["mainimage"] or None, "instimage": D["stage2"]["instimage"] or None},
         "media": dict(D["media"]) if D["media"] else {"discnum": None, "totaldiscs": None},
         "checksums": dict((p, [tv[0], tv[1]]) for p, tv in D["checksums"].items())}
    return render_ini(S, rng, ordered=list(S)), E
