"""Writes the monitor inventory (DESIGN.md section 14) from the committed evidence files:

    python -m rv.inventory > /tmp/inventory.md
"""
import glob
import json
import os

HERE = os.path.dirname(os.path.dirname(os.path.abspath(__file__)))


def main():
    out = ["## 14. Monitor inventory (generated from evidence/ by `python -m rv.inventory`)", "",
           "What each check's monitors actually observed in the committed quick-tier evidence: evaluations / firings per",
           "monitor, number of distinct input classes counted, functions of the repository entered.  A monitor that is",
           "listed as required and shows zero evaluations makes the run inconclusive (exit 2), never held.", "",
           "| Check | evaluations | distinct non-trivial | input classes | repo functions entered | monitors (evaluations / fired) |",
           "|---|---|---|---|---|---|"]
    for f in sorted(glob.glob(os.path.join(HERE, "evidence", "C*.json"))):
        with open(f) as fh:
            e = json.load(fh)
        c = e["coverage"]
        mons = c.get("monitors", {})
        mtxt = "; ".join("`%s` %d/%d" % (k, v["evals"], v["fired"]) for k, v in sorted(mons.items()))
        reach = c.get("reach_functions_entered")
        reach_n = len(reach) if isinstance(reach, (list, dict)) else (reach if isinstance(reach, int) else "-")
        out.append("| %s | %s | %s | %d | %s | %s |" % (e["property_id"], c.get("evaluations"), c.get("distinct_nontrivial"),
                                                      len(c.get("classes", {})), reach_n, mtxt))
    out.append("")
    out.append("Firings above zero on the repaired tree belong to the open known findings (C05, C09, C14); every other monitor is silent.")
    print("\n".join(out))


if __name__ == "__main__":
    main()
