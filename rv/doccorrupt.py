"""Document corruptors for C07: one corruption applied to a valid
current-version document (JSON dict / INI sections / discinfo lines).

A corruption is plain data:
  {"kind": "value",  "path": [...], "value": X, "slot": name}   replace one field value by an invalid one
  {"kind": "delete", "path": [...], "slot": name}                delete one required key / section / line
  {"kind": "header-type", "type": T|None, "version": V}          foreign or missing header type at version V
  {"kind": "version", "value": X}                                mangled header version
Paths address JSON keys / list indexes, or (section, option) for INI, or a
line number for discinfo.
"""
import copy
import json

from rv import corrupt as C
from rv import formats
from rv import fmt_treeinfo as FT

JSON_FORMATS = ["composeinfo", "images", "rpms", "modules", "extra_files"]
OTHER_TYPES = sorted(set(formats.HEADER_TYPE.values())) + ["productmd.discinfo", "", "composeinfo", "PRODUCTMD.IMAGES"]

# values that a reader may legitimately normalise are fine: the oracle only objects when the
# loaded object is still invalid (cannot be written, or writes the invalid value back).
DOC_BAD_DATES = ["2015052", "201505222", "2015-05-2", "abcdefgh", 20150522, None, "20150522\n", ""]
DOC_BAD_COMPOSE_TYPES = ["prod", "Production", "", None, 5, "nightly "]
DOC_BAD_IDS = ["no-digits-here", "", None, 12345678, "1234567"]
DOC_BAD_LABELS = ["GA", "Beta", "Beta-1", "beta-1.0", "Beta-1.0.0", "RC-1.0\n", "Foo-1.0", 5, "Beta 1.0"]
DOC_BAD_RESPINS = ["0", 1.5, None, "x"]
DOC_BAD_VERSIONS = ["1.", "1..2", "", "1a", "1-2", None, 5, "1\n"]
DOC_BAD_RTYPES = ["unknown", "", None, "updates_testing", 5]
DOC_BAD_TEXT = [None, 5, ["x"]]
DOC_BAD_VTYPES = ["Variant", "addons", "", None]
DOC_BAD_VIDS = ["a-b", "", "a b", None, 5, "a\n"]
DOC_BAD_INTS = ["x", None, [1], "1.5x"]
DOC_BAD_ITYPES = ["DVD", "unknown", None, ""]
DOC_BAD_IFORMATS = ["ISO", "zip", None, ""]
DOC_BAD_CHECKSUMS = [{}, None, [], "sha256:abc"]
DOC_BAD_IMPLANT = ["abc", "A" * 32, "!" * 32, "a" * 31, "a" * 33, "a" * 32 + "\n", 5, ""]


def json_value_slots(fmt, doc):
    """[(slot name, path, invalid values)] for every position in this document."""
    out = []
    p = doc["payload"]
    comp = ["payload", "compose"]
    out += [("compose.type", comp + ["type"], DOC_BAD_COMPOSE_TYPES), ("compose.date", comp + ["date"], DOC_BAD_DATES),
            ("compose.id", comp + ["id"], DOC_BAD_IDS), ("compose.respin", comp + ["respin"], DOC_BAD_RESPINS)]
    if "label" in p["compose"]:
        out.append(("compose.label", comp + ["label"], DOC_BAD_LABELS))
    else:
        out.append(("compose.label-added", comp + ["label"], DOC_BAD_LABELS))
    if fmt == "composeinfo":
        rel = ["payload", "release"]
        out += [("release.version", rel + ["version"], DOC_BAD_VERSIONS), ("release.type", rel + ["type"], DOC_BAD_RTYPES),
                ("release.name", rel + ["name"], DOC_BAD_TEXT), ("release.short", rel + ["short"], DOC_BAD_TEXT),
                # documented read-side normalisation (case-fold): expected to load and come back valid
                ("release.type-casefold", rel + ["type"], ["GA", "Updates", "EUS"])]
        if "base_product" in p:
            bp = ["payload", "base_product"]
            out += [("base_product.version", bp + ["version"], DOC_BAD_VERSIONS), ("base_product.type", bp + ["type"], DOC_BAD_RTYPES),
                    ("base_product.name", bp + ["name"], DOC_BAD_TEXT)]
        for uid, v in sorted(p["variants"].items()):
            vp = ["payload", "variants", uid]
            out += [("variant.type", vp + ["type"], DOC_BAD_VTYPES), ("variant.name", vp + ["name"], ["", None, 5]),
                    ("variant.id", vp + ["id"], DOC_BAD_VIDS), ("variant.arches-empty", vp + ["arches"], [[]]),
                    ("variant.uid-misaligned", vp + ["uid"], [uid + "X", "Z-" + v["id"]])]
            if "-" in uid and uid.replace("-", "") != v["id"]:
                out.append(("variant.child-arch-outside-parent", vp + ["arches"], [v["arches"] + ["sparc"], ["mips"]]))
            if v["type"] == "layered-product":
                out += [("variant.release.version", vp + ["release", "version"], DOC_BAD_VERSIONS),
                        ("variant.release.type", vp + ["release", "type"], DOC_BAD_RTYPES)]
    if fmt == "images":
        for variant, arches in sorted(p["images"].items()):
            for arch, lst in sorted(arches.items()):
                if lst:
                    out.append(("images.cell-arch-invalid", ["payload", "images", variant, arch], ["__rename_arch__"]))
                for i, img in enumerate(lst):
                    ip = ["payload", "images", variant, arch, i]
                    out += [("image.path", ip + ["path"], ["", None, 5]), ("image.mtime", ip + ["mtime"], DOC_BAD_INTS),
                            ("image.size", ip + ["size"], DOC_BAD_INTS), ("image.volume_id", ip + ["volume_id"], ["", 5]),
                            ("image.type", ip + ["type"], DOC_BAD_ITYPES), ("image.format", ip + ["format"], DOC_BAD_IFORMATS),
                            ("image.arch", ip + ["arch"], ["", None, 5]), ("image.disc_number", ip + ["disc_number"], DOC_BAD_INTS),
                            ("image.disc_count", ip + ["disc_count"], DOC_BAD_INTS),
                            ("image.checksums", ip + ["checksums"], DOC_BAD_CHECKSUMS),
                            ("image.implant_md5", ip + ["implant_md5"], DOC_BAD_IMPLANT),
                            ("image.subvariant", ip + ["subvariant"], [None, 5]),
                            ("image.unified", ip + ["unified"], ["yes", 1, None]),
                            # coercions the reader applies (int(), bool()): expected to load and come back valid
                            ("image.mtime-numeric-string", ip + ["mtime"], ["12", 12.0]),
                            ("image.bootable-truthy", ip + ["bootable"], ["yes", 1, 0])]
                    if not img.get("unified"):
                        out.append(("image.additional-variants-on-non-unified", ip + ["additional_variants"], [["Server"], ["A", "B"]]))
    return out


def json_required_paths(fmt, doc):
    out = [["header"], ["header", "version"], ["payload"], ["payload", "compose"]]
    p = doc["payload"]
    for k in ("id", "type", "date", "respin"):
        out.append(["payload", "compose", k])
    if fmt == "composeinfo":
        out += [["payload", "release"], ["payload", "variants"]]
        for k in ("name", "version", "short"):
            out.append(["payload", "release", k])
        if "base_product" in p:
            out.append(["payload", "base_product"])
            for k in ("name", "version", "short"):
                out.append(["payload", "base_product", k])
        for uid in sorted(p["variants"]):
            for k in ("id", "uid", "name", "type", "arches", "paths"):
                out.append(["payload", "variants", uid, k])
    elif fmt == "images":
        out.append(["payload", "images"])
        for variant, arches in sorted(p["images"].items()):
            for arch, lst in sorted(arches.items()):
                for i in range(len(lst)):
                    for k in ("path", "mtime", "size", "volume_id", "type", "arch", "disc_number", "disc_count", "checksums",
                              "implant_md5", "bootable", "subvariant"):
                        out.append(["payload", "images", variant, arch, i, k])
    else:
        out.append(["payload", {"rpms": "rpms", "modules": "modules", "extra_files": "extra_files"}[fmt]])
    return out


def get_path(doc, path):
    cur = doc
    for k in path:
        cur = cur[k]
    return cur


def has_path(doc, path):
    try:
        get_path(doc, path)
        return True
    except (KeyError, IndexError, TypeError):
        return False


def set_path(doc, path, value):
    cur = doc
    for k in path[:-1]:
        cur = cur[k]
    cur[path[-1]] = value


def del_path(doc, path):
    cur = doc
    for k in path[:-1]:
        cur = cur[k]
    del cur[path[-1]]


# ---- INI (treeinfo) ------------------------------------------------------------

def write_ini(sections):
    lines = []
    for sec in sorted(sections):
        lines.append("[%s]" % sec)
        for k in sorted(sections[sec]):
            lines.append("%s = %s" % (k, sections[sec][k]))
        lines.append("")
    return "\n".join(lines)


def ini_value_slots(sections):
    out = []
    out += [("release.version", ["release", "version"], ["1.", "1..2", "1a", "1-2", "1.2."]),
            ("tree.arch", ["tree", "arch"], [""]),
            ("tree.build_timestamp", ["tree", "build_timestamp"], ["abc", "", "12:30", "1e"]),
            ("release.is_layered", ["release", "is_layered"], ["maybe", "2", "ja"])]
    if "base_product" in sections:
        out.append(("base_product.version", ["base_product", "version"], ["1.", "1..2", "1a"]))
    for sec in sorted(sections):
        if sec.startswith("variant-") or sec.startswith("addon-"):
            out += [("variant.type", [sec, "type"], ["Variant", "addons", "", "layered-product"]),
                    ("variant.id-dashed", [sec, "id"], ["a-b", "Server-optional"])]
            if "parent" in sections[sec]:
                uid = sections[sec]["uid"]
                out.append(("variant.uid-misaligned", [sec, "uid"], [uid + "X", "Z-" + sections[sec]["id"], sections[sec]["id"]]))
        if sec.startswith("images-"):
            for name in sorted(sections[sec]):
                out.append(("images.absolute-path", [sec, name], ["/abs/vmlinuz", "/"]))
    out.append(("images.platform-not-listed", ["images-sparc64x", "kernel"], ["images/vmlinuz"]))
    if "stage2" in sections:
        for k in sorted(sections["stage2"]):
            out.append(("stage2.%s-absolute" % k, ["stage2", k], ["/abs/img", "/"]))
    else:
        out.append(("stage2.mainimage-absolute", ["stage2", "mainimage"], ["/abs/img"]))
        out.append(("stage2.instimage-absolute", ["stage2", "instimage"], ["/abs/img"]))
    out.append(("checksums.absolute-path", ["checksums", "/abs/boot.iso"], ["sha256:" + "a" * 64]))
    if "media" in sections:
        out += [("media.discnum", ["media", "discnum"], ["x", "1.5", ""]), ("media.totaldiscs", ["media", "totaldiscs"], ["y", "2.5", ""])]
    else:
        out.append(("media.discnum", ["media", "discnum"], ["x"]))
    return out


def ini_required_paths(sections):
    out = [["release"], ["release", "name"], ["release", "version"], ["tree", "arch"], ["tree", "platforms"],
           ["tree", "build_timestamp"]]
    if "base_product" in sections:
        out += [["base_product"], ["base_product", "name"], ["base_product", "version"], ["base_product", "short"]]
    for sec in sorted(sections):
        if sec.startswith("variant-") or sec.startswith("addon-"):
            out.append([sec])
            for k in ("id", "uid", "name", "type"):
                out.append([sec, k])
    if "media" in sections:
        out += [["media", "discnum"], ["media", "totaldiscs"]]
    return out


# ---- discinfo -------------------------------------------------------------------

DISC_VALUE_SLOTS = [("timestamp", [0], ["abc", "", "12:30", "1,5"]), ("description", [1], ["", "   "]), ("arch", [2], ["", "  "]),
                    ("disc_numbers", [3], ["x,y", "1,,2", "1;2", "1.5", "ALL,1"])]


# ---- apply ------------------------------------------------------------------------

def parse(fmt, textin):
    if fmt in JSON_FORMATS:
        return json.loads(textin)
    if fmt == "treeinfo":
        sections, _ = FT.read_ini(textin)
        return sections
    return textin.split("\n")


def render(fmt, doc, rng=None):
    """rng: render in a 'hand-written' style (shuffled JSON key order, varying INI spelling) - documents need not have
    been written by this library."""
    if fmt in JSON_FORMATS:
        if rng is not None and rng.random() < 0.5:
            return json.dumps(formats.shuffle_keys(doc, rng), indent=rng.choice([None, 1, 2, 4]))
        return json.dumps(doc, indent=4, sort_keys=True)
    if fmt == "treeinfo":
        if rng is not None and rng.random() < 0.5:
            from rv import downconvert
            return downconvert.render_ini(doc, rng)
        return write_ini(doc)
    return "\n".join(doc)


def apply(fmt, doc, cor):
    """Returns the corrupted document (a copy) or None when the corruption does not apply."""
    d = copy.deepcopy(doc)
    kind = cor["kind"]
    if fmt in JSON_FORMATS:
        if kind == "value":
            if not has_path(d, cor["path"][:-1]):
                return None
            if cor["value"] == "__rename_arch__" or cor.get("slot") == "images.cell-arch-invalid":
                # file the cell's images under a source / unknown architecture key
                if not has_path(d, cor["path"]):
                    return None
                cell = get_path(d, cor["path"])
                del_path(d, cor["path"])
                new_arch = cor.get("new_arch", "src")
                get_path(d, cor["path"][:-1])[new_arch] = cell
                return d
            set_path(d, cor["path"], cor["value"])
        elif kind == "delete":
            if not has_path(d, cor["path"]):
                return None
            del_path(d, cor["path"])
        elif kind == "header-type":
            d["header"]["version"] = cor["version"]
            if cor["type"] is None:
                d["header"].pop("type", None)
            else:
                d["header"]["type"] = cor["type"]
        elif kind == "version":
            d["header"]["version"] = cor["value"]
        return d
    if fmt == "treeinfo":
        if kind == "value":
            sec, opt = cor["path"]
            d.setdefault(sec, {})[opt] = cor["value"]
        elif kind == "delete":
            if len(cor["path"]) == 1:
                if cor["path"][0] not in d:
                    return None
                del d[cor["path"][0]]
            else:
                sec, opt = cor["path"]
                if sec not in d or opt not in d[sec]:
                    return None
                del d[sec][opt]
        elif kind == "header-type":
            d["header"]["version"] = cor["version"]
            if cor["type"] is None:
                d["header"].pop("type", None)
            else:
                d["header"]["type"] = cor["type"]
        elif kind == "version":
            d["header"]["version"] = cor["value"]
        return d
    # discinfo
    if kind == "value":
        i = cor["path"][0]
        while len(d) <= i:
            d.append("")
        d[i] = cor["value"]
    elif kind == "delete":
        i = cor["path"][0]
        if i >= len(d):
            return None
        d = d[:i]           # a missing line means the file ends before it
    else:
        return None
    return d
