"""Regenerates /verif/MANIFEST.json from the check modules (python -m rv.mkmanifest)."""
import importlib
import json
import os
import sys

HERE = os.path.dirname(os.path.dirname(os.path.abspath(__file__)))
BASELINE_OFF = ("cd /repo && env -u PRODUCTMD_VERIF /venv/bin/python -m pytest -ra -q -p no:cacheprovider "
                "--timeout=900 --continue-on-collection-errors")


def main():
    sys.path.insert(0, HERE)
    props = [json.loads(l) for l in open(os.path.join(HERE, "properties.jsonl"))]
    checks, na = [], []
    for p in props:
        pid = p["id"]
        path = os.path.join(HERE, "checks", pid.lower() + ".py")
        if not os.path.exists(path):
            na.append({"property_id": pid, "reason": "check not built yet (runtime monitor designed in DESIGN.md section 4, "
                       "implementation pending); not claimed until it runs"})
            continue
        mod = importlib.import_module("checks." + pid.lower())
        checks.append({
            "property_id": pid,
            "quick_cmd": "bin/check %s --tier quick" % pid,
            "thorough_cmd": "bin/check %s --tier thorough" % pid,
            "evidence_file": "evidence/%s.json" % pid,
            "replay_cmd_template": "bin/check %s --replay {path}" % pid,
            "engine": "rv",
            "level_claimed": {"category": getattr(mod, "LEVEL", "exploration"),
                              "text": getattr(mod, "LEVEL_TEXT", mod.__doc__.strip().split("\n\n", 1)[-1].strip()),
                              "design_ref": "DESIGN.md section 4, %s" % pid},
            "level_note": getattr(mod, "LEVEL_NOTE", "; ".join(getattr(mod, "ASSUMPTIONS", []))),
            "technique": getattr(mod, "TECHNIQUE", "runtime monitoring: generated workloads against the real code, "
                                 "independent oracle over observed executions"),
        })
    man = {
        "version": 1,
        "setup_cmd": "bin/setup",
        "hooks": {
            "guard": "PRODUCTMD_VERIF",
            "enable": "bin/check exports PRODUCTMD_VERIF=1 in every workload process and installs boundary wrappers, "
                      "sys.monitoring reach counters, audit hooks, validator failpoints and icontract invariants from the "
                      "harness at import time; the repository carries no source hooks",
            "baseline_off_cmd": BASELINE_OFF,
            "source_commits": [],
            "add_only": True,
        },
        "engines": [{"name": "rv", "path": "rv/", "serves_properties": [c["property_id"] for c in checks],
                     "kind_free_text": "runtime monitoring harness: sharded subprocess workloads importing productmd from the "
                                       "working tree, reference-model / by-construction oracles, audit-hook and validator-failpoint "
                                       "instrumentation, callgrind instruction counting (C19)"}],
        "checks": checks,
        "not_applicable": na,
        "notes": "Exit codes of bin/check: 0 held, 1 violated (VIOLATION line), 2 inconclusive (monitor starved; never folded "
                 "into held).  Known findings: known_findings.json (matched by mechanism classifier keys).",
    }
    with open(os.path.join(HERE, "MANIFEST.json"), "w") as f:
        json.dump(man, f, indent=1)
        f.write("\n")
    print("MANIFEST.json: %d checks, %d not_applicable" % (len(checks), len(na)))


if __name__ == "__main__":
    main()
