"""Regenerates /verif/MANIFEST.json from the check modules (python -m rv.mkmanifest)."""
import importlib
import json
import os
import sys

HERE = os.path.dirname(os.path.dirname(os.path.abspath(__file__)))
BASELINE_OFF = ("cd /repo && env -u PRODUCTMD_VERIF /venv/bin/python -m pytest -ra -q -p no:cacheprovider "
                "--timeout=900 --continue-on-collection-errors")


TECHNIQUE = {
    "C01": "runtime monitoring: description->expectation oracle over generated composeinfo write/read executions (independent JSON reader, public-attribute observation), every entry point and path spelling, one shard in an ASCII-locale process",
    "C02": "runtime monitoring: description->expectation oracle over generated image-manifest write/read executions, per-cell conservation, one shard in an ASCII-locale process",
    "C03": "runtime monitoring: add histories stepped against an executable reference model, then write/read/continue and load-into-a-used-object; one shard in an ASCII-locale process",
    "C04": "runtime monitoring: description->expectation oracle with an independent INI line reader over hostile-but-representable treeinfo/discinfo content",
    "C05": "runtime monitoring: down-converted documents of every older version + shipped fixtures, facts/idempotence monitors on the upgrade cycle",
    "C06": "runtime monitoring: single-field object corruption at arbitrary positions from a documented invalid table; validator-level raise counters (wrapped from outside)",
    "C07": "runtime monitoring: single document corruption (value / foreign type / mangled version / missing key) fed through loads / load(path) / load(file object) / Compose(dir).<accessor> asked twice; rejection oracle (declared coercion slots may normalise)",
    "C08": "runtime monitoring: digests of dumps across construction-order permutations, interpreter processes and PYTHONHASHSEED values; canonical-form readers",
    "C09": "runtime monitoring: history + executable sequential model + invariant walk after every add / del / load-into-non-empty, several header situations, colliding documents (also with source images under src)",
    "C10": "runtime monitoring: architecture-class add sweeps (fresh objects, objects / calls already accepted, builders that refused an older document) with before/after snapshots; conversion conservation oracle on legacy documents with src entries",
    "C11": "runtime monitoring: history + reference forest model + global invariant walk after every add; exhaustive query matrix; per-case stall guard",
    "C12": "runtime monitoring: add histories with valid/invalid/doubly-invalid arguments compared step by step with an executable model (state after refusals included)",
    "C13": "runtime monitoring: by-construction oracle over generated NEVRA strings (millions of cases), fixed-point and Rpms.add key monitors",
    "C14": "runtime monitoring: exhaustive enumeration of all strings up to length L against loop-based reference predicates; generated create/parse round trips",
    "C15": "runtime monitoring: by-construction oracle over created ids, exhaustive suffix table, legacy documents",
    "C16": "runtime monitoring: independent digests (hashlib one-shot + coreutils) on chunk-boundary file sizes; per-line reader oracle; add_checksum history invariant",
    "C17": "runtime monitoring: relations inside one written text read by an independent INI reader, against the description, plus a legacy-reader cross-check",
    "C18": "fault enumeration at runtime: validator failpoints at every activation of every sampled dump, byte/existence comparison, audit-hook and strace logs",
    "C19": "runtime monitoring with dynamic binary instrumentation: callgrind instruction counts of single calls on string pump families derived from harvested patterns and on structural document families; growth-degree rule; differential-loading taint scan for patterns built from document text; CPU-time stall guard",
    "C20": "runtime monitoring: enumerated compose-directory configurations with identifiable content, allowed-root/accessor oracles, audit-hook caching monitor",
}


def main():
    sys.path.insert(0, HERE)
    props = [json.loads(l) for l in open(os.path.join(HERE, "properties.jsonl"))]
    checks, na = [], []
    for p in props:
        pid = p["id"]
        path = os.path.join(HERE, "checks", pid.lower() + ".py")
        if not os.path.exists(path):
            na.append({"property_id": pid, "reason": "check not built yet (runtime monitor designed in DESIGN.md section 4, "
                       "implementation pending); not claimed until it runs"})
            continue
        mod = importlib.import_module("checks." + pid.lower())
        checks.append({
            "property_id": pid,
            "quick_cmd": "bin/check %s --tier quick" % pid,
            "thorough_cmd": "bin/check %s --tier thorough" % pid,
            "evidence_file": "evidence/%s.json" % pid,
            "replay_cmd_template": "bin/check %s --replay {path}" % pid,
            "engine": "rv",
            "level_claimed": {"category": getattr(mod, "LEVEL", "exploration"),
                              "text": ("Held-on-what-was-explored, not a proof: the verdict covers the executions this run produced "
                                       "(counts, input classes, monitors and reached functions are in the evidence file); a starved "
                                       "monitor makes the run inconclusive (exit 2), never held.  " +
                                       " ".join(getattr(mod, "LEVEL_TEXT", mod.__doc__.strip().split("\n\n", 1)[-1].strip()).split())),
                              "design_ref": "DESIGN.md section 4, %s" % pid},
            "level_note": getattr(mod, "LEVEL_NOTE", "; ".join(getattr(mod, "ASSUMPTIONS", []))),
            "technique": TECHNIQUE.get(pid, "runtime monitoring: generated workloads against the real code, independent oracle"),
        })
    man = {
        "version": 1,
        "setup_cmd": "bin/setup",
        "hooks": {
            "guard": "PRODUCTMD_VERIF",
            "enable": "bin/check exports PRODUCTMD_VERIF=1 in every workload process and installs boundary wrappers, "
                      "sys.monitoring reach counters, audit hooks, validator failpoints and icontract invariants from the "
                      "harness at import time; the repository carries no source hooks",
            "baseline_off_cmd": BASELINE_OFF,
            "source_commits": [],
            "add_only": True,
        },
        "engines": [{"name": "rv", "path": "rv/", "serves_properties": [c["property_id"] for c in checks],
                     "kind_free_text": "runtime monitoring harness: sharded subprocess workloads importing productmd from the "
                                       "working tree, reference-model / by-construction oracles, audit-hook and validator-failpoint "
                                       "instrumentation, callgrind instruction counting (C19)"}],
        "checks": checks,
        "not_applicable": na,
        "notes": "Exit codes of bin/check: 0 held, 1 violated (VIOLATION line), 2 inconclusive (monitor starved; never folded "
                 "into held).  Known findings: known_findings.json (matched by mechanism classifier keys).",
    }
    with open(os.path.join(HERE, "MANIFEST.json"), "w") as f:
        json.dump(man, f, indent=1)
        f.write("\n")
    print("MANIFEST.json: %d checks, %d not_applicable" % (len(checks), len(na)))


if __name__ == "__main__":
    main()
