"""C19 worker process.  Modes:

  harvest   : wrap re._compile, import productmd, drive a workload through every
              format and codec, print the patterns the repository handed to `re`.
  prescreen : native, cheap: step each family through small sizes with
              time.perf_counter_ns and report the suspicious ones (candidates for
              the instruction-count oracle).  Never a verdict.
  measure   : under `valgrind --tool=callgrind --collect-atstart=no`: executed
              instruction count of ONE call per (family, size), online growth rule.

    python -m rv.cgworker <mode> <spec.json> <out.json>
"""
import ctypes
import json
import math
import os
import re
import sys
import time

HERE = os.path.dirname(os.path.dirname(os.path.abspath(__file__)))

SIZES = list(range(4, 50, 2)) + [56, 64, 80, 96, 128, 160, 192, 256, 320, 384, 448, 512]
NOISE_FLOOR = 200000          # instructions; below this the count is dominated by call overhead
DEGREE_LIMIT = 5.5
SHORT_INPUT_LEN = 48
SHORT_INPUT_CAP = 50000000
STALL_CPU_S = 10.0            # CPU seconds; a <= 64-character input needing more than this natively has stalled the caller


# ---------------------------------------------------------------------------
# targets
# ---------------------------------------------------------------------------

def build_targets():
    """Public validators / parsers (name -> callable(str))."""
    import productmd.common as c
    import productmd.composeinfo as ci
    import productmd.images as im
    import productmd.modules as mo
    import productmd.rpms as rp
    import productmd.treeinfo as ti
    import productmd.discinfo as di
    class Targets(dict):
        """Targets whose construction fails (renamed / removed API) are skipped, not fatal."""
    T = Targets()
    try:
        T["is_valid_release_short"] = c.is_valid_release_short
    except AttributeError:
        pass
    try:
        T["is_valid_release_version"] = c.is_valid_release_version
    except AttributeError:
        pass
    try:
        T["is_valid_release_type"] = c.is_valid_release_type
    except AttributeError:
        pass
    T["create_release_id:short"] = lambda s: c.create_release_id(s, "1", "ga")
    T["create_release_id:version"] = lambda s: c.create_release_id("f", s, "ga")
    T["create_release_id:type"] = lambda s: c.create_release_id("f", "1", s)
    T["create_release_id:bp_short"] = lambda s: c.create_release_id("f", "1", "ga", s, "1", "ga")
    try:
        T["parse_release_id"] = c.parse_release_id
    except AttributeError:
        pass
    try:
        T["parse_nvra"] = c.parse_nvra
    except AttributeError:
        pass
    try:
        T["split_version"] = c.split_version
    except AttributeError:
        pass
    try:
        T["get_major_version"] = c.get_major_version
    except AttributeError:
        pass
    T["Rpms.add:nevra"] = lambda s: rp.Rpms().add("V", "x86_64", s, "p", None, "binary", "a-0:1-1.src")
    T["Rpms.add:srpm_nevra"] = lambda s: rp.Rpms().add("V", "x86_64", "a-0:1-1.x86_64", "p", None, "binary", s)
    try:
        T["Modules.parse_uid"] = mo.Modules.parse_uid
    except AttributeError:
        pass
    T["Modules.add:uid"] = lambda s: mo.Modules().add("V", "x86_64", s, "tag", "p", "binary", [])
    try:
        T["verify_label"] = ci.verify_label
    except AttributeError:
        pass
    try:
        T["get_date_type_respin"] = ci.get_date_type_respin
    except AttributeError:
        pass

    def field(cls_factory, attr, method):
        def run(s):
            obj = cls_factory()
            setattr(obj, attr, s)
            getattr(obj, method)()
        return run
    T["Header.version"] = field(lambda: c.Header(None, "productmd.images"), "version", "validate")
    T["Compose.date"] = field(lambda: ci.Compose(None), "date", "_validate_date")
    T["Compose.id"] = field(lambda: ci.Compose(None), "id", "_validate_id")
    T["Compose.label"] = field(lambda: ci.Compose(None), "label", "_validate_label")
    T["composeinfo.Release.version"] = field(lambda: ci.Release(None), "version", "_validate_version")
    T["composeinfo.Variant.id"] = field(lambda: ci.Variant(ci.ComposeInfo()), "id", "_validate_id")
    T["Image.implant_md5"] = field(lambda: im.Image(None), "implant_md5", "_validate_implant_md5")
    T["treeinfo.Release.version"] = field(lambda: ti.Release(None), "version", "_validate_version")

    # loads() with the pumped string in a validated field of an otherwise valid document
    base_ci = {"header": {"version": "1.2", "type": "productmd.composeinfo"},
               "payload": {"compose": {"id": "F-22-20150522.0", "type": "production", "date": "20150522", "respin": 0},
                           "release": {"name": "Fedora", "short": "F", "version": "22", "type": "ga", "internal": False},
                           "variants": {"Server": {"id": "Server", "uid": "Server", "name": "Server", "type": "variant",
                                                   "arches": ["x86_64"], "paths": {}}}}}

    def ci_loads(path):
        def run(s):
            doc = json.loads(json.dumps(base_ci))
            cur = doc
            for k in path[:-1]:
                cur = cur[k]
            cur[path[-1]] = s
            ci.ComposeInfo().loads(json.dumps(doc))
        return run
    T["ComposeInfo.loads:header.version"] = ci_loads(["header", "version"])
    T["ComposeInfo.loads:release.version"] = ci_loads(["payload", "release", "version"])
    T["ComposeInfo.loads:release.type"] = ci_loads(["payload", "release", "type"])
    T["ComposeInfo.loads:compose.id"] = ci_loads(["payload", "compose", "id"])
    T["ComposeInfo.loads:compose.date"] = ci_loads(["payload", "compose", "date"])
    T["ComposeInfo.loads:compose.label"] = ci_loads(["payload", "compose", "label"])
    T["ComposeInfo.loads:variant.id"] = ci_loads(["payload", "variants", "Server", "id"])

    base_img = {"header": {"version": "1.2", "type": "productmd.images"},
                "payload": {"compose": {"id": "F-22-20150522.0", "type": "production", "date": "20150522", "respin": 0},
                            "images": {"Server": {"x86_64": [{"path": "a.iso", "mtime": 1, "size": 1, "volume_id": None, "type": "dvd",
                                                              "format": "iso", "arch": "x86_64", "disc_number": 1, "disc_count": 1,
                                                              "checksums": {"md5": "x"}, "implant_md5": None, "bootable": False,
                                                              "subvariant": "S"}]}}}}

    def img_loads(s):
        doc = json.loads(json.dumps(base_img))
        doc["payload"]["images"]["Server"]["x86_64"][0]["implant_md5"] = s
        im.Images().loads(json.dumps(doc))
    T["Images.loads:implant_md5"] = img_loads

    def ti_loads(section, option):
        def run(s):
            if "\n" in s or "\r" in s:
                s = s.replace("\n", " ").replace("\r", " ")
            text = ("[header]\nversion = 1.2\ntype = productmd.treeinfo\n[release]\nname = F\nshort = F\nversion = 22\n"
                    "[tree]\narch = x86_64\nplatforms = x86_64\nbuild_timestamp = 1\nvariants = Server\n"
                    "[variant-Server]\nid = Server\nuid = Server\nname = Server\ntype = variant\n")
            lines = text.split("\n")
            out = []
            cur = None
            for l in lines:
                if l.startswith("["):
                    cur = l[1:-1]
                if cur == section and l.startswith(option + " ="):
                    l = "%s = %s" % (option, s)
                out.append(l)
            ti.TreeInfo().loads("\n".join(out))
        return run
    T["TreeInfo.loads:release.version"] = ti_loads("release", "version")
    T["TreeInfo.loads:header.version"] = ti_loads("header", "version")
    T["TreeInfo.loads:tree.build_timestamp"] = ti_loads("tree", "build_timestamp")
    T["TreeInfo.loads:tree.arch"] = ti_loads("tree", "arch")
    T["TreeInfo.loads:tree.platforms"] = ti_loads("tree", "platforms")
    T["TreeInfo.loads:tree.variants"] = ti_loads("tree", "variants")
    T["TreeInfo.loads:release.short"] = ti_loads("release", "short")
    T["TreeInfo.loads:variant.id"] = ti_loads("variant-Server", "id")
    T["TreeInfo.loads:variant.uid"] = ti_loads("variant-Server", "uid")
    T["TreeInfo.loads:variant.type"] = ti_loads("variant-Server", "type")

    def ti_extra(template):
        def run(s):
            s = s.replace("\n", " ").replace("\r", " ")
            text = ("[header]\nversion = 1.2\ntype = productmd.treeinfo\n[release]\nname = F\nshort = F\nversion = 22\n"
                    "[tree]\narch = x86_64\nplatforms = x86_64,xen\nbuild_timestamp = 1\nvariants = Server\n"
                    "[variant-Server]\nid = Server\nuid = Server\nname = Server\ntype = variant\npackages = Packages\n" + template % s)
            ti.TreeInfo().loads(text)
        return run
    T["TreeInfo.loads:images.path"] = ti_extra("[images-x86_64]\nkernel = %s\n")
    T["TreeInfo.loads:images.section"] = ti_extra("[images-%s]\nkernel = vmlinuz\n")
    T["TreeInfo.loads:checksums.value"] = ti_extra("[checksums]\nimages/boot.iso = %s\n")
    T["TreeInfo.loads:checksums.path"] = ti_extra("[checksums]\n%s = sha256:" + "a" * 64 + "\n")
    T["TreeInfo.loads:stage2.mainimage"] = ti_extra("[stage2]\nmainimage = %s\n")
    T["TreeInfo.loads:media.discnum"] = ti_extra("[media]\ndiscnum = %s\ntotaldiscs = 1\n")
    T["TreeInfo.loads:variant.packages"] = ti_extra("[variant-Server-x]\nid = x\nuid = Server-x\nname = x\ntype = addon\nparent = Server\nrepository = %s\n")
    def legacy_ti(template):
        """The same fields in a pre-productmd file (no [header]): its reader has code paths of its own."""
        def run(s):
            s = s.replace("\n", " ").replace("\r", " ")
            text = ("[general]\nfamily = Spacewalk\nversion = 2.1\nname = Spacewalk-2.1\narch = x86_64\ntimestamp = 1\nvariant = Server\n"
                    "packagedir = Packages\nrepository = .\n" + template.replace("%s", s))
            ti.TreeInfo().loads(text)
        return run
    T["legacy TreeInfo.loads:images.path"] = legacy_ti("[images-x86_64]\nkernel = %s\n")
    T["legacy TreeInfo.loads:images.section"] = legacy_ti("[images-%s]\nkernel = vmlinuz\n")
    T["legacy TreeInfo.loads:stage2.mainimage"] = legacy_ti("[stage2]\nmainimage = %s\n")
    T["legacy TreeInfo.loads:checksums.path"] = legacy_ti("[checksums]\n%s = sha256:" + "a" * 64 + "\n")
    T["legacy TreeInfo.loads:checksums.value"] = legacy_ti("[checksums]\nimages/boot.iso = %s\n")
    T["legacy TreeInfo.loads:general.version"] = lambda s: ti.TreeInfo().loads(
        "[general]\nfamily = Spacewalk\nversion = %s\narch = x86_64\ntimestamp = 1\nvariant = Server\n" % s.replace("\n", " "))
    T["legacy TreeInfo.loads:general.family"] = lambda s: ti.TreeInfo().loads(
        "[general]\nfamily = %s\nversion = 2.1\narch = x86_64\ntimestamp = 1\nvariant = Server\n" % s.replace("\n", " "))
    T["legacy TreeInfo.loads:general.timestamp"] = lambda s: ti.TreeInfo().loads(
        "[general]\nfamily = Spacewalk\nversion = 2.1\narch = x86_64\ntimestamp = %s\nvariant = Server\n" % s.replace("\n", " "))
    T["legacy TreeInfo.loads:general.variant"] = lambda s: ti.TreeInfo().loads(
        "[general]\nfamily = Spacewalk\nversion = 2.1\narch = x86_64\ntimestamp = 1\nvariant = %s\n" % s.replace("\n", " "))
    T["legacy TreeInfo.loads:general.packagedir"] = lambda s: ti.TreeInfo().loads(
        "[general]\nfamily = Spacewalk\nversion = 2.1\narch = x86_64\ntimestamp = 1\nvariant = Server\npackagedir = %s\n" % s.replace("\n", " "))
    T["DiscInfo.loads:description"] = lambda s: di.DiscInfo().loads("1.0\n" + s.replace("\n", " ") + "\nx86_64\nALL")
    T["DiscInfo.loads:arch"] = lambda s: di.DiscInfo().loads("1.0\nFedora\n" + s.replace("\n", " ") + "\nALL")
    T["ComposeInfo.loads:variant.uid"] = ci_loads(["payload", "variants", "Server", "uid"])
    T["ComposeInfo.loads:variant.type"] = ci_loads(["payload", "variants", "Server", "type"])
    T["ComposeInfo.loads:release.short"] = ci_loads(["payload", "release", "short"])

    def img_field(field):
        def run(s):
            doc = json.loads(json.dumps(base_img))
            doc["payload"]["images"]["Server"]["x86_64"][0][field] = s
            im.Images().loads(json.dumps(doc))
        return run
    for fld in ("path", "type", "format", "arch", "subvariant", "volume_id"):
        T["Images.loads:" + fld] = img_field(fld)

    def doc_target(cls_factory):
        def run(s):
            cls_factory().loads(s)
        return run
    T["doc:ComposeInfo.loads"] = doc_target(ci.ComposeInfo)
    T["doc:TreeInfo.loads"] = doc_target(ti.TreeInfo)
    T["doc:Images.loads"] = doc_target(im.Images)
    T["DiscInfo.loads:disc_numbers"] = lambda s: di.DiscInfo().loads("1.0\nFedora\nx86_64\n" + s.replace("\n", " "))
    T["DiscInfo.loads:timestamp"] = lambda s: di.DiscInfo().loads(s.replace("\n", " ") + "\nFedora\nx86_64\nALL")
    return T


def make_callable(target, targets):
    if target["kind"] == "callable":
        fn = targets[target["name"]]

        def run(s):
            try:
                fn(s)
            except Stall:
                raise
            except Exception:
                pass
        return run
    pat = re.compile(target["pattern"], target.get("flags", 0))
    m = getattr(pat, target.get("method", "match"))
    return m


class Stall(Exception):
    pass


def _on_vtalrm(sig, frm):
    raise Stall()


def guarded(fn, s, cpu_s):
    """Runs fn(s) under a CPU-time (ITIMER_VIRTUAL) limit; returns True when it had to be interrupted.
    CPython's regex engine polls for signals, so a runaway match is interruptible."""
    import signal
    signal.signal(signal.SIGVTALRM, _on_vtalrm)
    signal.setitimer(signal.ITIMER_VIRTUAL, cpu_s)
    try:
        fn(s)
        return False
    except Stall:
        return True
    finally:
        signal.setitimer(signal.ITIMER_VIRTUAL, 0)


def structure_doc(name, n):
    """Documents whose STRUCTURE is pumped (nesting depth / repetition n), for the doc:* targets."""
    if name.startswith("composeinfo-"):
        variants = {}
        uid = "V"
        depth = n if "chain" in name else 2
        for level in range(depth):
            entry = {"id": "V" if level == 0 else "c", "uid": uid, "name": "Variant %d" % level, "type": "variant",
                     "arches": ["x86_64"], "paths": {}}
            if level < depth - 1:
                k = 2 if name.endswith("-dup") and "chain" in name else (n if name == "composeinfo-wide-dup" else 1)
                entry["variants"] = ["c"] * k
            variants[uid] = entry
            uid += "-c"
        if name == "composeinfo-wide":
            variants["V"]["variants"] = ["c%d" % i for i in range(n)]
            del variants["V-c"]
            for i in range(n):
                variants["V-c%d" % i] = {"id": "c%d" % i, "uid": "V-c%d" % i, "name": "x", "type": "addon", "arches": ["x86_64"], "paths": {}}
        return json.dumps({"header": {"type": "productmd.composeinfo", "version": "1.2"},
                           "payload": {"compose": {"id": "D-1.0-20240101.0", "type": "production", "date": "20240101", "respin": 0},
                                       "release": {"name": "D", "short": "D", "version": "1.0", "type": "ga", "internal": False},
                                       "variants": variants}}, indent=1, sort_keys=True)
    if name.startswith("treeinfo-"):
        out = ["[header]", "version = 1.2", "type = productmd.treeinfo", "[release]", "name = F", "short = F", "version = 22",
               "[tree]", "arch = x86_64", "platforms = x86_64", "build_timestamp = 1", "variants = V"]
        uid = "V"
        for level in range(n):
            out += ["[variant-%s]" % uid, "id = %s" % ("V" if level == 0 else "c"), "uid = %s" % uid, "name = x",
                    "type = %s" % ("variant" if level == 0 else "addon")]
            if level > 0:
                out.append("parent = %s" % uid[:-2])
            if level < n - 1:
                child = uid + "-c"
                out.append("variants = %s" % (child + "," + child if name.endswith("-dup") else child))
            uid += "-c"
        return "\n".join(out) + "\n"
    if name == "legacy-treeinfo-sections-shared-by-id":
        # pre-productmd file: sections are found by variant ID, every level's two sections list both ids of the next level
        out = ["[general]", "family = Spacewalk", "version = 2.1", "name = Spacewalk-2.1", "arch = x86_64", "timestamp = 1", "variant = a0"]
        for l in range(n):
            nxt = "variants = a%d,b%d" % (l + 1, l + 1) if l < n - 1 else None
            for x in ("ab" if l else "a"):
                out += ["[variant-%s%d]" % (x, l), "id = %s%d" % (x, l), "name = n", "type = variant"]
                if nxt:
                    out.append(nxt)
        return "\n".join(out) + "\n"
    if name == "legacy-treeinfo-addons-shared-by-id":
        out = ["[general]", "family = Spacewalk", "version = 2.1", "name = Spacewalk-2.1", "arch = x86_64", "timestamp = 1", "variant = a0",
               "addons = a1,b1"]
        for l in range(1, n):
            nxt = "addons = a%d,b%d" % (l + 1, l + 1) if l < n - 1 else None
            for x in "ab":
                out += ["[addon-%s%d]" % (x, l), "id = %s%d" % (x, l), "name = n", "type = variant"]
                if nxt:
                    out.append(nxt)
        return "\n".join(out) + "\n"
    if name.startswith("ini-reference-"):
        # option values that MENTION other options of their section, %(name)s: a reader that expands such references
        # multiplies the text - a chain of ten options, each naming the previous one n times (fan-out), or a chain of n
        # options each naming the previous one twice (depth)
        base = ("[header]\nversion = 1.2\ntype = productmd.treeinfo\n[release]\nname = F\nshort = F\nversion = 22\n"
                "[tree]\narch = x86_64\nplatforms = x86_64\nbuild_timestamp = 1\nvariants = Server\n"
                "[variant-Server]\nid = Server\nuid = Server\nname = Server\ntype = variant\n")
        depth, fan = (10, n) if name.endswith("fanout") else (n, 2)
        sec = ["[checksums]" if "checksums" in name else "[stage2]"]
        lines = ["p0 = sha256:" + "a" * 64 if "checksums" in name else "p0 = x"]
        for i in range(1, depth):
            lines.append("p%d = %s" % (i, ("%%(p%d)s" % (i - 1)) * fan))
        if "checksums" not in name:
            lines.append("mainimage = %%(p%d)s" % (depth - 1))
        return base + "\n".join(sec + lines) + "\n"
    if name == "images-same-image-repeated":
        img = {"path": "a.iso", "mtime": 1, "size": 1, "volume_id": None, "type": "dvd", "format": "iso", "arch": "x86_64",
               "disc_number": 1, "disc_count": 1, "checksums": {"md5": "x"}, "implant_md5": None, "bootable": False, "subvariant": "S"}
        return json.dumps({"header": {"version": "1.2", "type": "productmd.images"},
                           "payload": {"compose": {"id": "F-22-20150522.0", "type": "production", "date": "20150522", "respin": 0},
                                       "images": {"Server": {"x86_64": [dict(img, path="a%d.iso" % i) for i in range(n)]}}}})
    raise KeyError(name)


def family_input(fam, n):
    if fam.get("structure"):
        return structure_doc(fam["structure"], n)
    if fam.get("blocks"):
        return fam["prefix"] + "".join(b * n for b in fam["blocks"]) + fam["suffix"]
    return fam["prefix"] + fam["pump"] * n + fam["suffix"]


# ---------------------------------------------------------------------------
# patterns built from document data (dynamic taint by differential loading)
# ---------------------------------------------------------------------------

TAINT_BOMBS = ["(x+x+)+y", "|(x+x+)+y", "(x|x)+y", "|(.*x)*y", "(x+)+"]
TAINT_RUN = 30
TAINT_STALL_CPU_S = 4.0
_ARCH_SWAP = {"x86_64": "aarch64", "aarch64": "x86_64", "ppc64le": "s390x", "s390x": "ppc64le", "i386": "ppc64", "src": "x86_64"}


def _tokens(text, limit=70):
    seen, out = set(), []
    for t in re.findall(r"[A-Za-z0-9_+~][A-Za-z0-9_.+~]{2,}", text):
        if t.isdigit() or t in seen:
            continue
        seen.add(t)
        out.append(t)
    return out[:limit]


def _retok(text, tok, new):
    return re.sub(r"(?<![A-Za-z0-9_.+~])%s(?![A-Za-z0-9_+~])" % re.escape(tok), lambda m: new, text)


def taint_docs(pms, repo):
    """(format, text) documents of every format and age the readers accept, small and valid."""
    import random
    from rv import formats, downconvert
    from rv import fmt_treeinfo as FT
    rng = random.Random(11)
    docs = []
    for fmt in formats.FORMATS:
        for i in range(3):
            try:
                D = formats.gen(fmt, rng, hostile=False)
                docs.append((fmt, formats.build(pms, fmt, D, i).dumps()))
                if fmt == "treeinfo":
                    docs.append((fmt, downconvert.render_ini(downconvert.treeinfo_0_0(D, rng), rng)))
                    docs.append((fmt, downconvert.render_ini(downconvert.treeinfo(D, "0.3", rng), rng)))
            except Exception:
                pass
    # hand-written: the section kinds a generated tree may lack
    docs.append(("treeinfo", "[header]\nversion = 1.2\ntype = productmd.treeinfo\n\n[release]\nname = Fedora\nshort = Fedora\nversion = 21\n\n"
                 "[tree]\narch = x86_64\nplatforms = x86_64,xen\nbuild_timestamp = 1400000000\nvariants = Server\n\n"
                 "[variant-Server]\nid = Server\nuid = Server\nname = Server\ntype = variant\npackages = Packages\nrepository = .\n\n"
                 "[images-x86_64]\nkernel = images/pxeboot/vmlinuz\n\n[images-xen]\nkernel = images/pxeboot/vmlinuz\n\n"
                 "[stage2]\nmainimage = images/install.img\n\n[media]\ndiscnum = 1\ntotaldiscs = 1\n\n"
                 "[checksums]\nimages/pxeboot/vmlinuz = sha256:%s\n" % ("a" * 64)))
    docs.append(("treeinfo", "[general]\nfamily = Fedora\nversion = 21\narch = x86_64\nvariant = Server\ntimestamp = 1400000000.5\n"
                 "packagedir = Packages\nrepository = .\nvariants = Server\n\n[variant-Server]\nid = Server\nuid = Server\nname = Server\n"
                 "type = variant\npackages = Packages\nrepository = .\n\n[images-x86_64]\nkernel = images/pxeboot/vmlinuz\n\n"
                 "[images-xen-x86_64]\nkernel = images/pxeboot/vmlinuz\n\n[stage2]\nmainimage = images/install.img\n"))
    return docs


def taint_scan(hv, pms, repo, budget_s=150.0):
    """Differential loading: a pattern handed to `re` while loading doc' that CONTAINS the replacement token (and was not
    compiled for doc) is built from document data.  For every such (document, token) the token is replaced by regex bombs
    and every other token by a run of the bombed atom; a load that then needs more than TAINT_STALL_CPU_S CPU seconds
    has been stalled by a short document."""
    from rv import formats
    t_end = time.time() + budget_s
    res = {"docs": 0, "tokens": 0, "loads": 0, "tainted": [], "stalls": [], "bomb_loads": 0, "truncated": False}

    def load(fmt, text):
        hv.window = set()
        try:
            formats.new_object(pms, fmt).loads(text)
        except Stall:
            raise
        except Exception:
            pass
        w, hv.window = hv.window, None
        res["loads"] += 1
        return w
    for fmt, text in taint_docs(pms, repo):
        res["docs"] += 1
        base = load(fmt, text)
        toks = _tokens(text)
        for tok in toks:
            if time.time() > t_end:
                res["truncated"] = True
                break
            res["tokens"] += 1
            hit = None
            for new in [_ARCH_SWAP.get(tok), tok + "q", "Zq" + tok[2:]]:
                if not new or new == tok:
                    continue
                w = load(fmt, _retok(text, tok, new))
                derived = [k for k in w - base if new in k[0]]
                if derived:
                    hit = (new, derived)
                    break
            if not hit:
                continue
            entry = {"format": fmt, "token": tok, "patterns": [k[0] for k in hit[1]][:4]}
            res["tainted"].append(entry)
            # bomb the tainting token, pump every other token
            stalled = False
            for bomb in TAINT_BOMBS:
                bombed = _retok(text, tok, bomb)
                run = "x" * TAINT_RUN
                for other in [None] + [t for t in toks if t != tok]:
                    variants = [bombed] if other is None else [_retok(bombed, other, other + run), _retok(bombed, other, run),
                                                                _retok(bombed, other, other + "-" + run + "!")]
                    for doc in variants:
                        res["bomb_loads"] += 1
                        if guarded(lambda d: load(fmt, d), doc, TAINT_STALL_CPU_S):
                            hv.window = None
                            res["stalls"].append({"format": fmt, "token": tok, "bomb": bomb, "pumped": other, "document": doc,
                                                  "patterns": entry["patterns"], "cpu_s": TAINT_STALL_CPU_S})
                            stalled = True
                            break
                    if stalled or time.time() > t_end:
                        break
                if stalled or time.time() > t_end:
                    break
    return res


# ---------------------------------------------------------------------------
# harvest
# ---------------------------------------------------------------------------

def do_harvest(spec, out):
    repo = spec["repo"]
    sys.path.insert(0, repo)
    sys.path.insert(1, HERE)
    from rv import instr
    hv = instr.ReHarvest(repo).install()
    import productmd
    assert os.path.realpath(productmd.__file__).startswith(os.path.realpath(repo) + os.sep)
    targets = build_targets()
    # drive: every public target on valid and invalid inputs, every format's reader and writer
    samples = ["f", "rhel-7", "1.0", "Rawhide", "ga", "updates-testing", "f-23", "rhel-7.1-updates@rhel-7-ga", "glibc-0:2.17-55.el7.x86_64",
               "dir/glibc-2.17-55.el7.x86_64.rpm", "nodejs:10:8010020190612143724:6c81f848", "RC-1.0", "Beta-1.2", "F-22-20150522.n.0",
               "20150522", "1.2", "Server", "a" * 32, "!", "", "1..2"]
    stalls = []
    for name, fn in sorted(targets.items()):
        for s in samples:
            def call(x, fn=fn):
                try:
                    fn(x)
                except Stall:
                    raise
                except Exception:
                    pass
            if guarded(call, s, STALL_CPU_S):
                stalls.append({"target": {"kind": "callable", "name": name}, "input": s, "cpu_s": STALL_CPU_S})
    from rv import formats
    import random
    rng = random.Random(5)
    pms = formats.modules()
    for fmt in formats.FORMATS:
        for i in range(6):
            try:
                D = formats.gen(fmt, rng, hostile=False)
                obj = formats.build(pms, fmt, D, i)
                t = obj.dumps()
                formats.new_object(pms, fmt).loads(t)
            except Exception:
                pass
    # legacy readers
    import glob
    for path in sorted(glob.glob(os.path.join(repo, "tests", "treeinfo", "*")))[:80]:
        try:
            pms["treeinfo"].TreeInfo().load(path)
        except Exception:
            pass
    for path in sorted(glob.glob(os.path.join(repo, "tests", "discinfo", "*")))[:10]:
        try:
            pms["discinfo"].DiscInfo().load(path)
        except Exception:
            pass
    try:
        import productmd.compose
        c = productmd.compose.Compose(os.path.join(repo, "tests", "compose"))
        c.info
        c2 = productmd.compose.Compose(os.path.join(repo, "tests", "compose-legacy"))
        c2.info
    except Exception:
        pass
    try:
        taint = taint_scan(hv, pms, repo)
    except Exception as e:
        taint = {"error": "%s: %s" % (type(e).__name__, e)}
    hv.scan_compiled()
    pats = [{"pattern": p, "flags": fl, "where": sorted(w)} for (p, fl), w in sorted(hv.patterns.items())]
    with open(out, "w") as f:
        json.dump({"events": hv.events, "patterns": pats, "targets": sorted(targets), "stalls": stalls, "taint": taint}, f)
    return 0


# ---------------------------------------------------------------------------
# prescreen (native)
# ---------------------------------------------------------------------------

def do_prescreen(spec, out):
    sys.path.insert(0, spec["repo"])
    targets = build_targets()
    limit_ns = int(spec.get("limit_ns", 2000000))
    res = []
    stalls = []
    t_end = time.time() + float(spec.get("budget_s", 60))
    done = 0
    progress = open(out + ".progress", "w")
    for fam in spec["families"]:
        if time.time() > t_end:
            break
        done += 1
        fn = make_callable(fam["target"], targets)
        times = {}
        worst = 0
        for n in (4, 8, 12, 16, 20, 24, 28, 32, 48, 64):
            s = family_input(fam, n)
            # which call is running: a call that cannot be interrupted from inside (C code that polls no signals) is
            # identified by the parent after it had to kill this process
            progress.seek(0)
            progress.write("%8d %4d\n" % (fam["id"], n))
            progress.flush()
            best = None
            for rep in range(3):
                t0 = time.perf_counter_ns()
                if guarded(fn, s, STALL_CPU_S):
                    stalls.append({"id": fam["id"], "input": s, "cpu_s": STALL_CPU_S})
                    best = STALL_CPU_S * 1e9
                    break
                dt = time.perf_counter_ns() - t0
                best = dt if best is None or dt < best else best
                # one slow sample is an outlier (scheduler, allocator, GC) until a second sample is slow too
                if rep >= 1 and (best > limit_ns or best < limit_ns / 20):
                    break
            times[n] = best
            worst = max(worst, best)
            if best > limit_ns:
                break
        sus = 0.0
        first = max(times.get(4) or 1, 1000)
        growth = worst / float(first)
        if worst > limit_ns and growth > 3.0:
            # slow AND growing: ranked by how much it grew over the sizes stepped (a call that is merely slow at every
            # size - loading a whole document - is not a candidate: its cost does not follow the pumped length)
            sus = 1000.0 + min(growth, 1e6)
        elif worst > limit_ns:
            sus = 0.0
        else:
            if 16 in times and 32 in times and times[32] > 20000:
                sus = max(sus, times[32] / max(times[16], 1))
            if 32 in times and 64 in times and times[64] > 20000:
                sus = max(sus, times[64] / max(times[32], 1))
        if sus > 5.0:
            res.append({"id": fam["id"], "suspicion": round(sus, 2), "times_ns": times})
    with open(out, "w") as f:
        json.dump({"screened": done, "of": len(spec["families"]), "candidates": res, "stalls": stalls}, f)
    return 0


# ---------------------------------------------------------------------------
# measure (valgrind/callgrind, or CPU-time fallback)
# ---------------------------------------------------------------------------

class Counter(object):
    def __init__(self, outdir):
        self.cg = None
        self.outdir = outdir
        self.mode = "cpu-time"
        so = os.path.join(HERE, ".build", "cgctl.so")
        if os.path.exists(so):
            try:
                cg = ctypes.CDLL(so)
                cg.cg_dump.argtypes = [ctypes.c_char_p]
                if cg.cg_running():
                    self.cg = cg
                    self.mode = "callgrind-instructions"
            except OSError:
                pass
        self.seen = set(os.listdir(outdir)) if os.path.isdir(outdir) else set()

    def measure(self, fn, s):
        if self.cg is None:
            t0 = time.process_time_ns()
            fn(s)
            # scale: ~1 instruction per 0.3 ns is the same order as callgrind's Ir; only growth matters
            return (time.process_time_ns() - t0) * 3
        cg = self.cg
        cg.cg_zero()
        cg.cg_toggle()
        fn(s)
        cg.cg_toggle()
        cg.cg_dump(b"m")
        total = None
        for name in os.listdir(self.outdir):
            if name in self.seen:
                continue
            path = os.path.join(self.outdir, name)
            try:
                with open(path) as f:
                    for line in f:
                        if line.startswith("totals:"):
                            total = int(line.split()[1])
                os.unlink(path)
            except (OSError, ValueError):
                self.seen.add(name)
        return total


def judge(points):
    """points: [(length, count)] in increasing length.  Returns (verdict, detail)."""
    degs = []
    for (l1, s1), (l2, s2) in zip(points, points[1:]):
        if s1 is None or s2 is None or s1 < NOISE_FLOOR or s2 <= 0 or l2 <= l1:
            degs.append(None)
            continue
        degs.append(math.log(s2 / float(s1)) / math.log(l2 / float(l1)))
    for i in range(len(degs) - 1):
        if degs[i] is not None and degs[i + 1] is not None and degs[i] > DEGREE_LIMIT and degs[i + 1] > DEGREE_LIMIT and \
                points[i][1] < points[i + 1][1] < points[i + 2][1]:
            return "super-polynomial", {"degrees": [None if d is None else round(d, 2) for d in degs], "at": points[i + 2][0]}
    for l, s in points:
        if s is not None and l <= SHORT_INPUT_LEN and s > SHORT_INPUT_CAP:
            return "short-input-too-expensive", {"length": l, "instructions": s}
    return "ok", {"degrees": [None if d is None else round(d, 2) for d in degs]}


def do_measure(spec, out):
    sys.path.insert(0, spec["repo"])
    targets = build_targets()
    counter = Counter(spec["cgdir"])
    cap = int(spec.get("cap", 100000000))
    t_end = time.time() + float(spec.get("budget_s", 120))
    results = []
    import gc
    gc.disable()
    base_cap = cap
    for fam in spec["families"]:
        gc.collect()
        # structural families: unit steps (cost doubling per level is only 'degree 6' per step of one level on a document
        # that grows linearly) and a higher measurement cap - their documents are not 'short' anyway
        cap = base_cap * 40 if fam.get("structure") else base_cap
        sizes = list(range(4, 41)) if fam.get("structure") else SIZES
        if time.time() > t_end:
            results.append({"id": fam["id"], "verdict": "unmeasured", "points": []})
            continue
        fn = make_callable(fam["target"], targets)
        fn(family_input(fam, 2))        # warm-up: pattern compilation, first-call effects
        fn(family_input(fam, 3))
        points = []
        verdict, detail = "ok", {}
        for n in sizes:
            s = family_input(fam, n)
            if len(points) >= 2 and points[-1][1] and points[-2][1] and points[-1][1] > NOISE_FLOOR:
                # extrapolate; skip sizes that would blow the measurement cap (the verdict is formed by then)
                (l1, s1), (l2, s2) = points[-2], points[-1]
                if s1 > 0 and s2 > s1:
                    d = math.log(s2 / float(s1)) / math.log(l2 / float(l1))
                    pred = s2 * (len(s) / float(l2)) ** max(d, 1.0)
                    if pred > cap * 4:
                        break
            c = counter.measure(fn, s)
            points.append((len(s), c))
            verdict, detail = judge(points)
            if verdict != "ok":
                # confirm: re-measure the deciding sizes and keep the minimum per size, so that a one-off
                # spike (allocator / cache effects) can never form a verdict
                k = max(0, len(points) - 3)
                for j in range(k, len(points)):
                    sj = family_input(fam, sizes[j])
                    c2 = counter.measure(fn, sj)
                    if c2 is not None and (points[j][1] is None or c2 < points[j][1]):
                        points[j] = (points[j][0], c2)
                verdict, detail = judge(points)
                if verdict != "ok":
                    break
            if c is not None and c > cap:
                break
            if time.time() > t_end:
                break
        results.append({"id": fam["id"], "verdict": verdict, "detail": detail, "points": points})
    with open(out, "w") as f:
        json.dump({"mode": counter.mode, "results": results}, f)
    return 0


def do_confirm(spec, out):
    """One call under a hard CPU limit (RLIMIT_CPU: the kernel kills the process, whatever code is running)."""
    import resource
    sys.path.insert(0, spec["repo"])
    targets = build_targets()
    fn = make_callable(spec["family"]["target"], targets)
    s = family_input(spec["family"], spec["n"])
    lim = int(spec.get("cpu_s", 60))
    resource.setrlimit(resource.RLIMIT_CPU, (lim, lim + 5))
    t0 = time.process_time()
    fn(s)
    with open(out, "w") as f:
        json.dump({"cpu_s": time.process_time() - t0, "input": s}, f)
    return 0


def main(argv):
    mode, spec_path, out = argv[1], argv[2], argv[3]
    with open(spec_path) as f:
        spec = json.load(f)
    if mode in ("harvest", "prescreen", "confirm"):
        # a value-driven blow-up (range expansion, repetition) must end in MemoryError, not in the OOM killer
        import resource
        lim = 3 * 1024 ** 3
        try:
            resource.setrlimit(resource.RLIMIT_AS, (lim, lim))
        except (ValueError, OSError):
            pass
    if mode == "harvest":
        return do_harvest(spec, out)
    if mode == "prescreen":
        return do_prescreen(spec, out)
    if mode == "measure":
        return do_measure(spec, out)
    if mode == "confirm":
        return do_confirm(spec, out)
    return 2


if __name__ == "__main__":
    sys.exit(main(sys.argv))
