"""rpms / modules / extra-files manifests: reference models of the documented
layout, operation generators (valid and invalid arguments), and appliers.

An operation is plain data: {"kind": "rpms"|"modules"|"extra", "args": {...},
"meta": {...}}.  `meta` carries what the generator knows by construction (the
parts a NEVRA was rendered from, or the invalid class it belongs to), so the
model never has to parse strings the way the library does; strings whose
reading is debatable (grey) are never generated.
"""
import copy

from rv.gen import text
from rv.model import domains

VARIANTS = ["Server", "Client", "Server-optional", "Workstation", "AppStream"]
TREE_ARCHES = ["x86_64", "i386", "aarch64", "ppc64le", "s390x"]
HEX = "0123456789abcdef"


# --------------------------------------------------------------------------
# NEVRA helpers (by construction)
# --------------------------------------------------------------------------

def canon(parts):
    return "%s-%d:%s-%s.%s" % (parts["name"], int(parts["epoch"]), parts["version"], parts["release"], parts["arch"])


def render_nevra(rng, parts, style=None):
    style = style or rng.choice(["canon", "canon", "rpm", "dir", "dir-rpm", "epoch-zeros"])
    e = str(parts["epoch"])
    if style == "epoch-zeros":
        e = "0" + e
    s = "%s-%s:%s-%s.%s" % (parts["name"], e, parts["version"], parts["release"], parts["arch"])
    if style in ("dir", "dir-rpm"):
        s = rng.choice(["Packages/", "Server/x86_64/os/Packages/g/", "a-b/c.d/"]) + s
    if style in ("rpm", "dir-rpm"):
        s += ".rpm"
    return s


def sibling_rpms_op(rng, pool, prev):
    """Another sub-package of the source package of `prev`, filed in the same cell with the IDENTICAL srpm_nevra string
    (what a compose tool does: the sub-packages of one build are added in a row).  None when `prev` is not a valid
    binary/debug add."""
    if prev["meta"].get("invalid") is not None or not prev["args"].get("srpm_nevra") or not prev["meta"].get("srpm_parts"):
        return None
    pkgs = [p for p in pool if p["src"] == prev["meta"]["srpm_parts"]]
    if not pkgs:
        return None
    parts, category = rng.choice(pkgs[0]["subs"])
    parts = dict(parts)
    if rng.random() < 0.5:
        parts["name"] = parts["name"] + rng.choice(["-devel", "-doc", "-tools"])
    args = dict(prev["args"])
    args.update({"nevra": render_nevra(rng, parts), "category": category,
                 "path": "Packages/%s/%s-%s-%s.%s.rpm" % (parts["name"][0].lower(), parts["name"], parts["version"], parts["release"], parts["arch"])})
    return {"kind": "rpms", "args": args, "meta": {"nevra_parts": parts, "srpm_parts": dict(prev["meta"]["srpm_parts"]), "invalid": None,
                                                   "sibling_of_previous": True}}


def any_tree_arch(rng, extra=()):
    """Mostly the common architectures; one time in eight any name of the documented table (amd64, arm64, sparc64v, ...)."""
    if rng.random() < 0.125:
        return rng.choice(domains.BINARY_ARCHES)
    return rng.choice(TREE_ARCHES + list(extra))


def gen_source_package(rng, idx):
    name = rng.choice(["glibc", "kernel", "python3", "foo-bar", "perl-Foo-Bar", "lib2to3", "a", "gtk+", "x-1-2"]) + \
        rng.choice(["", "", str(idx), "-%d" % idx])
    epoch = rng.choice([0, 0, 1, 2, 12, 7])
    version = rng.choice(["1.0", "2.17", "4.18.0", "0.9.8~rc1", "20240101", "1_2+git"])
    release = rng.choice(["1", "55.el7", "1.fc22", "0.1.rc1.el8_4", "3.module+el8.1.0+42"])
    src = {"name": name, "epoch": epoch, "version": version, "release": release, "arch": rng.choice(["src", "src", "src", "nosrc"])}
    subs = []
    for suffix, cat in [("", "binary"), ("-libs", "binary"), ("-common", "binary"), ("-debuginfo", "debug"), ("-debugsource", "debug")]:
        if suffix == "" or rng.random() < 0.5:
            subs.append(({"name": name + suffix, "epoch": epoch if rng.random() < 0.9 else epoch + 1, "version": version,
                          "release": release, "arch": rng.choice(["x86_64", "noarch", "i686", "aarch64", "ppc64le", "armhfp", "s390x"] +
                                                                 [rng.choice(domains.BINARY_ARCHES)])}, cat))
    return {"src": src, "subs": subs}


# --------------------------------------------------------------------------
# reference models
# --------------------------------------------------------------------------

class RpmsModel(object):
    """variant -> arch -> canonical srpm NEVRA -> canonical rpm NEVRA -> {path, sigkey, category}"""

    def __init__(self):
        self.rpms = {}

    def add(self, args, meta):
        """Returns (verdict, reason): verdict in accept / refuse."""
        arch, category, path = args["arch"], args["category"], args["path"]
        if arch not in domains.RPM_ARCHES:
            return "refuse", "unknown-arch"
        if arch in domains.SOURCE_ARCHES:
            return "refuse", "source-arch"
        if category not in domains.RPM_CATEGORIES:
            return "refuse", "unknown-category"
        if not isinstance(path, str) or path == "":
            return "refuse", "empty-path"
        if path.startswith("/"):
            return "refuse", "absolute-path"
        if meta.get("nevra_invalid"):
            return "refuse", meta["nevra_invalid"]
        parts = meta["nevra_parts"]
        srpm = args.get("srpm_nevra")
        if category == "source" and srpm is not None:
            return "refuse", "srpm-given-for-source"
        if category != "source" and srpm is None:
            return "refuse", "srpm-missing"
        if (category == "source") != (parts["arch"] in domains.SOURCE_ARCHES):
            return "refuse", "category-arch-disagree"
        if srpm is not None and meta.get("srpm_invalid"):
            return "refuse", "srpm-" + meta["srpm_invalid"]
        key_rpm = canon(parts)
        key_srpm = canon(meta["srpm_parts"]) if srpm is not None else key_rpm
        sigkey = args["sigkey"]
        if sigkey is not None:
            sigkey = sigkey.lower()
        self.rpms.setdefault(args["variant"], {}).setdefault(arch, {}).setdefault(key_srpm, {})[key_rpm] = {
            "path": path, "sigkey": sigkey, "category": category}
        return "accept", None

    def state(self):
        return copy.deepcopy(self.rpms)


class ModulesModel(object):
    """variant -> arch -> uid -> {metadata{...}, modulemd_path{category: path}, rpms[list]}"""

    def __init__(self):
        self.modules = {}

    def add(self, args, meta):
        if not args["variant"]:
            return "refuse", "empty-variant"
        if args["arch"] not in domains.RPM_ARCHES:
            return "refuse", "unknown-arch"
        if args["category"] not in domains.RPM_CATEGORIES:
            return "refuse", "unknown-category"
        if meta.get("uid_invalid"):
            return "refuse", "uid-" + meta["uid_invalid"]
        p = args["modulemd_path"]
        if not isinstance(p, str) or p == "":
            return "refuse", "empty-path"
        if p.startswith("/"):
            return "refuse", "absolute-path"
        if not args["koji_tag"]:
            return "refuse", "empty-koji-tag"
        if not isinstance(args["rpms"], (list, tuple)):
            return "refuse", "rpms-not-a-list"
        u = meta["uid_parts"]
        uid = "%s:%s" % (u["name"], u["stream"])
        if u["version"]:
            uid += ":" + u["version"]
            if u["context"]:
                uid += ":" + u["context"]
        entry = self.modules.setdefault(args["variant"], {}).setdefault(args["arch"], {}).setdefault(uid, {})
        entry["metadata"] = {"uid": uid, "name": u["name"], "stream": u["stream"], "version": u["version"] or "",
                             "context": (u["context"] or "") if u["version"] else "", "koji_tag": args["koji_tag"]}
        entry.setdefault("modulemd_path", {})[args["category"]] = p
        entry.setdefault("rpms", []).extend(list(args["rpms"]))
        return "accept", None

    def state(self):
        return copy.deepcopy(self.modules)


class ExtraFilesModel(object):
    """variant -> arch -> [ {file, size, checksums}, ... ] in call order"""

    def __init__(self):
        self.extra_files = {}

    def add(self, args, meta):
        if not args["variant"]:
            return "refuse", "empty-variant"
        if args["arch"] not in domains.RPM_ARCHES:
            return "refuse", "unknown-arch"
        p = args["path"]
        if not isinstance(p, str) or p == "":
            return "refuse", "empty-path"
        if p.startswith("/"):
            return "refuse", "absolute-path"
        if not isinstance(args["checksums"], dict):
            return "refuse", "checksums-not-a-dict"
        self.extra_files.setdefault(args["variant"], {}).setdefault(args["arch"], []).append(
            {"file": p, "size": args["size"], "checksums": copy.deepcopy(args["checksums"])})
        return "accept", None

    def state(self):
        return copy.deepcopy(self.extra_files)

    def dump_for_tree(self, variant, arch, basepath):
        base = basepath.rstrip("/")
        data = []
        for item in self.extra_files[variant][arch]:
            f = item["file"]
            if f.startswith(base + "/"):
                f = f[len(base) + 1:]
            data.append({"file": f, "size": item["size"], "checksums": item["checksums"]})
        return {"header": {"version": "1.0"}, "data": data}


MODELS = {"rpms": RpmsModel, "modules": ModulesModel, "extra": ExtraFilesModel}


# --------------------------------------------------------------------------
# operation generators
# --------------------------------------------------------------------------

RPMS_INVALID = ["unknown-arch", "source-arch", "nosrc-arch", "case-arch", "unknown-category", "absolute-path", "empty-path",
                "missing-epoch", "unparsable-no-colon", "unparsable-with-colon", "srpm-given-for-source", "srpm-missing",
                "source-category-binary-arch", "binary-category-source-arch", "srpm-missing-epoch", "srpm-unparsable",
                # two rules broken by one call (each rule alone is covered above)
                "source-category-binary-arch-with-srpm", "binary-category-source-arch-no-srpm", "two-invalid-arguments"]
UNPARSABLE_NO_COLON = ["", "nodash", "one-dash.x86_64", "nodashnodot", "a-b-c"]
UNPARSABLE_WITH_COLON = ["foo:bar", ":", "a-1:b-c", "0:nodash.x86_64", "x-1:2"]


def gen_rpms_op(rng, pool, invalid=None):
    pkg = rng.choice(pool)
    use_src = rng.random() < 0.3
    if use_src:
        parts, category = pkg["src"], "source"
    else:
        parts, category = rng.choice(pkg["subs"])
    args = {"variant": rng.choice(VARIANTS), "arch": any_tree_arch(rng), "nevra": render_nevra(rng, parts),
            "path": "%s/%s/os/Packages/%s/%s.rpm" % (rng.choice(VARIANTS), rng.choice(TREE_ARCHES), parts["name"][0].lower(),
                                                    "%(name)s-%(version)s-%(release)s.%(arch)s" % parts),
            "sigkey": rng.choice([None, None, "fd431d51", "FD431D51", "Fd431d51", "4AE0493B", "81b46521", "",
                                  # long key ids and fingerprints are signing keys too; short ones
                                  "199E2F91FD431D51", "6a2faea2352c64e5", "567E347AD0044ADE55BA8A5F199E2F91FD431D51", "a1", "0"]),
            "category": category, "srpm_nevra": None if use_src else render_nevra(rng, pkg["src"])}
    if rng.random() < 0.08:
        args["path"] = rng.choice(["café/", "日本/", "Ünïcode dir/"]) + args["path"]      # paths are free text
    elif rng.random() < 0.08:
        args["path"] = rng.choice(["./" + args["path"], args["path"].replace("/", "//", 1), args["path"].replace("/os/", "/os/./", 1)])
    meta = {"nevra_parts": dict(parts), "srpm_parts": None if use_src else dict(pkg["src"]), "invalid": invalid}
    if invalid is None:
        return {"kind": "rpms", "args": args, "meta": meta}
    if invalid == "unknown-arch":
        args["arch"] = rng.choice(["x86-64", "i387", "arm", "", "ppc65", "noarch "])
    elif invalid == "source-arch":
        args["arch"] = "src"
    elif invalid == "nosrc-arch":
        args["arch"] = "nosrc"
    elif invalid == "case-arch":
        args["arch"] = rng.choice(["X86_64", "SRC", "I386", "Noarch"])
    elif invalid == "unknown-category":
        args["category"] = rng.choice(["bin", "", "Binary", "src", "package", "debuginfo"])
    elif invalid == "absolute-path":
        args["path"] = "/" + args["path"]
    elif invalid == "empty-path":
        args["path"] = ""
    elif invalid == "missing-epoch":
        args["nevra"] = "%(name)s-%(version)s-%(release)s.%(arch)s" % parts + rng.choice(["", ".rpm"])
        meta["nevra_invalid"] = "missing-epoch"
    elif invalid == "unparsable-no-colon":
        args["nevra"] = rng.choice(UNPARSABLE_NO_COLON)
        meta["nevra_invalid"] = "unparsable"
    elif invalid == "unparsable-with-colon":
        args["nevra"] = rng.choice(UNPARSABLE_WITH_COLON)
        meta["nevra_invalid"] = "unparsable"
    elif invalid == "srpm-given-for-source":
        parts = pkg["src"]
        args.update({"nevra": render_nevra(rng, parts), "category": "source", "srpm_nevra": render_nevra(rng, parts)})
        meta.update({"nevra_parts": dict(parts), "srpm_parts": dict(parts)})
    elif invalid == "srpm-missing":
        parts, category = rng.choice(pkg["subs"])
        args.update({"nevra": render_nevra(rng, parts), "category": category, "srpm_nevra": None})
        meta.update({"nevra_parts": dict(parts), "srpm_parts": None})
    elif invalid == "source-category-binary-arch":
        parts, _ = rng.choice(pkg["subs"])
        args.update({"nevra": render_nevra(rng, parts), "category": "source", "srpm_nevra": None})
        meta.update({"nevra_parts": dict(parts), "srpm_parts": None})
    elif invalid == "binary-category-source-arch":
        parts = pkg["src"]
        args.update({"nevra": render_nevra(rng, parts), "category": rng.choice(["binary", "debug"]),
                     "srpm_nevra": render_nevra(rng, parts)})
        meta.update({"nevra_parts": dict(parts), "srpm_parts": dict(parts)})
    elif invalid == "source-category-binary-arch-with-srpm":
        parts, _ = rng.choice(pkg["subs"])
        args.update({"nevra": render_nevra(rng, parts), "category": "source", "srpm_nevra": render_nevra(rng, pkg["src"])})
        meta.update({"nevra_parts": dict(parts), "srpm_parts": dict(pkg["src"])})
    elif invalid == "binary-category-source-arch-no-srpm":
        parts = pkg["src"]
        args.update({"nevra": render_nevra(rng, parts), "category": rng.choice(["binary", "debug"]), "srpm_nevra": None})
        meta.update({"nevra_parts": dict(parts), "srpm_parts": None})
    elif invalid == "two-invalid-arguments":
        first = rng.choice(["unknown-arch", "source-arch", "unknown-category", "absolute-path", "empty-path", "missing-epoch",
                            "srpm-missing", "source-category-binary-arch", "binary-category-source-arch"])
        op = gen_rpms_op(rng, pool, first)
        args, meta = op["args"], op["meta"]
        second = rng.choice(["arch", "category", "path"])
        if second == "arch":
            args["arch"] = rng.choice(["src", "nosrc", "x86-64", ""])
        elif second == "category":
            args["category"] = rng.choice(["bin", "", "package"])
        else:
            args["path"] = rng.choice(["", "/abs/x.rpm"])
        meta["invalid"] = invalid
        return {"kind": "rpms", "args": args, "meta": meta}
    elif invalid in ("srpm-missing-epoch", "srpm-unparsable"):
        parts, category = rng.choice(pkg["subs"])
        args.update({"nevra": render_nevra(rng, parts), "category": category})
        meta.update({"nevra_parts": dict(parts), "srpm_parts": dict(pkg["src"])})
        if invalid == "srpm-missing-epoch":
            args["srpm_nevra"] = "%(name)s-%(version)s-%(release)s.%(arch)s" % pkg["src"]
            meta["srpm_invalid"] = "missing-epoch"
        else:
            args["srpm_nevra"] = rng.choice([s for s in UNPARSABLE_NO_COLON + UNPARSABLE_WITH_COLON if s])
            meta["srpm_invalid"] = "unparsable"
    return {"kind": "rpms", "args": args, "meta": meta}


MODULES_INVALID = ["empty-variant", "unknown-arch", "unknown-category", "uid-no-stream", "uid-five-parts", "uid-empty-part",
                   "uid-not-a-string", "absolute-path", "empty-path", "empty-koji-tag", "rpms-not-a-list"]


def gen_module_uid(rng, nparts=None):
    n = nparts or rng.choice([2, 3, 4])
    u = {"name": rng.choice(["nodejs", "postgresql", "python36", "perl-DBI", "container-tools", "a.b_c+d"]),
         "stream": rng.choice(["10", "9.6", "rhel8", "1.0-beta", "master"]),
         "version": rng.choice(["8010020190612143724", "20180816142114", "1", "rawhide", "el8.1", "0", "1-2", "v3"]) if n >= 3 else "",
         "context": rng.choice(["6c81f848", "cdc1202b", "a", "0", "123", "x86_64", "9.9"]) if n >= 4 else ""}
    s = "%s:%s" % (u["name"], u["stream"])
    if n >= 3:
        s += ":" + u["version"]
    if n >= 4:
        s += ":" + u["context"]
    return u, s


def gen_modules_op(rng, invalid=None):
    u, s = gen_module_uid(rng)
    cat = rng.choice(domains.RPM_CATEGORIES)
    args = {"variant": rng.choice(VARIANTS), "arch": any_tree_arch(rng, ["src", "noarch"]), "uid": s,
            "koji_tag": rng.choice(["module-nodejs-10-8010020190612143724-cdc1202b", "tag-1", "module-x"]),
            "modulemd_path": "%s/%s/os/repodata/%s-modules.yaml.gz" % (rng.choice(VARIANTS), rng.choice(TREE_ARCHES),
                                                                     text.chars(rng, HEX, 8, 8)),
            "category": cat,
            "rpms": [("%s-%d:%d.%d-%d.module.x86_64" % (u["name"], rng.choice([0, 1]), rng.randint(0, 9), rng.randint(0, 99),
                                                         rng.randint(1, 50))) for _ in range(rng.randint(0, 4))]}
    if rng.random() < 0.2:
        args["rpms"] = tuple(args["rpms"])
    if rng.random() < 0.08:
        args["modulemd_path"] = "módulos/" + args["modulemd_path"]
        args["koji_tag"] = args["koji_tag"] + rng.choice(["-é", "-日本"])
    meta = {"uid_parts": u, "invalid": invalid}
    if invalid is None:
        return {"kind": "modules", "args": args, "meta": meta}
    if invalid == "empty-variant":
        args["variant"] = ""
    elif invalid == "unknown-arch":
        args["arch"] = rng.choice(["x86-64", "", "arm", "X86_64"])
    elif invalid == "unknown-category":
        args["category"] = rng.choice(["bin", "", "Binary", None])
    elif invalid == "uid-no-stream":
        args["uid"] = u["name"]
        meta["uid_invalid"] = "no-stream"
    elif invalid == "uid-five-parts":
        args["uid"] = s + ":x" * (5 - s.count(":") - 1)
        meta["uid_invalid"] = "five-parts"
    elif invalid == "uid-empty-part":
        args["uid"] = rng.choice([u["name"] + ":", ":" + u["stream"], u["name"] + "::1", u["name"] + ":s::c", ":"])
        meta["uid_invalid"] = "empty-part"
    elif invalid == "uid-not-a-string":
        args["uid"] = rng.choice([None, 5, ["a:b"]])
        meta["uid_invalid"] = "not-a-string"
    elif invalid == "absolute-path":
        args["modulemd_path"] = "/" + args["modulemd_path"]
    elif invalid == "empty-path":
        args["modulemd_path"] = ""
    elif invalid == "empty-koji-tag":
        args["koji_tag"] = rng.choice(["", None])
    elif invalid == "rpms-not-a-list":
        args["rpms"] = rng.choice(["foo-0:1-1.x86_64", None, {"a": 1}, 5])
    return {"kind": "modules", "args": args, "meta": meta}


EXTRA_INVALID = ["empty-variant", "unknown-arch", "empty-path", "absolute-path", "checksums-not-a-dict"]


def gen_extra_op(rng, invalid=None):
    n = rng.choice([1, 1, 2, 3])
    checksums = {}
    for t in rng.sample(["md5", "sha1", "sha256", "sha512"], n):
        checksums[t] = text.chars(rng, HEX, 32, 64)
    args = {"variant": rng.choice(VARIANTS), "arch": any_tree_arch(rng, ["src"]),
            "path": "%s/%s/os/%s" % (rng.choice(VARIANTS), rng.choice(TREE_ARCHES), rng.choice(["GPL", "EULA", "RPM-GPG-KEY", "media.repo", "a/b/c.txt"])),
            "size": rng.choice([0, 1, 18092, 2 ** 32 + 1]), "checksums": checksums}
    if rng.random() < 0.1:
        args["path"] = args["path"].rsplit("/", 1)[0] + "/" + rng.choice(["LÉEME", "許諾.txt", "Лицензия", "licence – fr.txt"])
    elif rng.random() < 0.12:
        # relative paths in a spelling a normaliser would rewrite: they are recorded as given
        args["path"] = rng.choice(["./" + args["path"], args["path"].replace("/", "//", 1), args["path"].replace("/os/", "/os/./", 1),
                                   args["path"].replace("/os/", "/os/../os/", 1), args["path"] + "/"])
    meta = {"invalid": invalid}
    if invalid == "empty-variant":
        args["variant"] = rng.choice(["", None])
    elif invalid == "unknown-arch":
        args["arch"] = rng.choice(["x86-64", "", "arm", "X86_64"])
    elif invalid == "empty-path":
        args["path"] = ""
    elif invalid == "absolute-path":
        args["path"] = "/" + args["path"]
    elif invalid == "checksums-not-a-dict":
        args["checksums"] = rng.choice([None, "sha256:abc", [("md5", "x")], 7])
    return {"kind": "extra", "args": args, "meta": meta}


# --------------------------------------------------------------------------
# appliers and observation
# --------------------------------------------------------------------------

def new_real(pm, kind):
    """pm: dict with Rpms, Modules, ExtraFiles classes."""
    return {"rpms": pm["Rpms"], "modules": pm["Modules"], "extra": pm["ExtraFiles"]}[kind]()


def apply_real(obj, op):
    a = op["args"]
    if op["kind"] == "rpms":
        if a.get("srpm_nevra") is None:
            return obj.add(a["variant"], a["arch"], a["nevra"], a["path"], a["sigkey"], a["category"])
        return obj.add(a["variant"], a["arch"], a["nevra"], a["path"], a["sigkey"], a["category"], a["srpm_nevra"])
    if op["kind"] == "modules":
        rp = a["rpms"]
        return obj.add(a["variant"], a["arch"], a["uid"], a["koji_tag"], a["modulemd_path"], a["category"], rp)
    return obj.add(a["variant"], a["arch"], a["path"], a["size"], a["checksums"])


def real_state(obj, kind):
    attr = {"rpms": "rpms", "modules": "modules", "extra": "extra_files"}[kind]
    return to_plain(getattr(obj, attr))


def to_plain(x):
    if isinstance(x, dict):
        return dict((k, to_plain(v)) for k, v in x.items())
    if isinstance(x, (list, tuple)):
        return [to_plain(v) for v in x]
    return x


def fill_compose(compose, rng=None, c=None):
    c = c or {"id": "Fedora-22-20150522.0", "type": "production", "date": "20150522", "respin": 0, "label": None, "final": False}
    compose.id = c["id"]
    compose.type = c["type"]
    compose.date = c["date"]
    compose.respin = c["respin"]
    compose.label = c.get("label")
    compose.final = c.get("final", False)
    return c


def first_diff(a, b, path=""):
    """First few differences between two plain structures (expected a, observed b)."""
    out = []
    if isinstance(a, dict) and isinstance(b, dict):
        for k in sorted(set(a) | set(b), key=repr):
            if k not in b:
                out.append("%s/%s: missing" % (path, k))
            elif k not in a:
                out.append("%s/%s: unexpected" % (path, k))
            else:
                out.extend(first_diff(a[k], b[k], "%s/%s" % (path, k)))
            if len(out) > 6:
                break
    elif isinstance(a, list) and isinstance(b, list):
        if len(a) != len(b):
            out.append("%s: %d entries expected, %d observed" % (path, len(a), len(b)))
        for i, (x, y) in enumerate(zip(a, b)):
            out.extend(first_diff(x, y, "%s[%d]" % (path, i)))
            if len(out) > 6:
                break
    elif a != b or type(a) is not type(b):
        out.append("%s: expected %r, observed %r" % (path, a, b))
    return out[:8]
