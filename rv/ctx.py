"""Per-shard recording context: counters, signatures, samples, violations."""
import hashlib
import json
import random
import time

SIG_CAP = 200000          # distinct signatures kept per shard (lower bound beyond that)
WITNESS_PER_KEY = 3       # witnesses kept per distinct (monitor, clause, key)
SAMPLE_CAP = 4


def jsonable(x, depth=0):
    """Project any value to JSON-serialisable plain data (for witnesses)."""
    if depth > 12:
        return repr(x)
    if x is None or isinstance(x, (bool, int, str)):
        return x
    if isinstance(x, float):
        if x != x or x in (float("inf"), float("-inf")):
            return repr(x)
        return x
    if isinstance(x, bytes):
        return {"__bytes__": x.decode("latin1")}
    if isinstance(x, (list, tuple)):
        return [jsonable(i, depth + 1) for i in x]
    if isinstance(x, (set, frozenset)):
        try:
            return {"__set__": sorted(jsonable(i, depth + 1) for i in x)}
        except TypeError:
            return {"__set__": sorted((jsonable(i, depth + 1) for i in x), key=repr)}
    if isinstance(x, dict):
        out = {}
        for k, v in x.items():
            out[k if isinstance(k, str) else repr(k)] = jsonable(v, depth + 1)
        return out
    return repr(x)


def sig_of(obj):
    data = json.dumps(jsonable(obj), sort_keys=True, ensure_ascii=True).encode()
    return int.from_bytes(hashlib.blake2b(data, digest_size=7).digest(), "big")


class Stall(Exception):
    """Raised inside the running case by the per-case CPU-time guard (ITIMER_VIRTUAL): the library did not
    come back from one operation within STALL_CPU_S seconds of CPU time (e.g. an endless loop)."""


STALL_CPU_S = 30.0


def _ascii_locale():
    import locale
    return locale.getpreferredencoding(False).lower().replace("-", "") in ("ascii", "ansi_x3.41968", "usascii", "646")


class Ctx(object):
    def __init__(self, prop, tier, seed, shard, nshards, repo, scratch, params=None, hashseed=None):
        self.prop = prop
        self.tier = tier
        self.seed = seed
        self.shard = shard
        self.nshards = nshards
        self.repo = repo
        self.scratch = scratch
        self.params = params or {}
        self.hashseed = hashseed
        self.evaluations = 0
        self.sigs = set()
        self.sig_overflow = 0
        self.trivial = 0
        self.distinct_by_construction = 0
        self.classes = {}
        self.monitors = {}
        self.violations = []
        self.violation_count = 0
        self._vkeys = {}
        self.samples = []
        self.notes = {}
        self.inconclusive = []
        self.t0 = time.time()
        self.budget_s = float(self.params.get("budget_s", 600))
        self.reach = None
        self.audit = None
        self.vtrace = None
        self.harvest = None
        self.stalled = 0
        self._stall_pending = False

    # ---- per-case stall guard ------------------------------------------------
    def arm_stall_guard(self):
        """(Re-)arms a CPU-time alarm; called at shard start and after every case.  CPU time, not wall time,
        so a loaded machine cannot trip it."""
        import signal
        if not self.params.get("stall_guard", True):
            return
        try:
            signal.signal(signal.SIGVTALRM, self._on_stall)
            limit = float(self.params.get("stall_cpu_s", STALL_CPU_S))
            if self.stalled:
                limit = 2.0      # after the first stall the workload is being wound down: fail fast
            signal.setitimer(signal.ITIMER_VIRTUAL, limit)
        except (ValueError, OSError, AttributeError):
            pass

    def _on_stall(self, sig, frm):
        self.stalled += 1
        self._stall_pending = True
        where = "%s:%d in %s" % (frm.f_code.co_filename, frm.f_lineno, frm.f_code.co_name) if frm is not None else "?"
        self.notes["stall_interrupted_at"] = where
        self.arm_stall_guard()
        raise Stall("operation interrupted after %.0f CPU seconds at %s" % (float(self.params.get("stall_cpu_s", STALL_CPU_S)), where))

    def _after_case(self, sig_obj):
        if self._stall_pending:
            self._stall_pending = False
            self.violation("stall-guard", "every operation of the workload returns (normally or by raising) within %.0f CPU seconds"
                           % float(self.params.get("stall_cpu_s", STALL_CPU_S)),
                           {"case_that_was_running": jsonable(sig_obj)}, observed="interrupted at %s" % self.notes.get("stall_interrupted_at"),
                           expected="the operation returns")
        self.arm_stall_guard()

    # ---- randomness -------------------------------------------------------
    def rng(self, index, stream=""):
        return random.Random("%s/%s/%s/%s/%s" % (self.seed, self.prop, self.shard, index, stream))

    # ---- time -------------------------------------------------------------
    def time_left(self):
        return self.budget_s - (time.time() - self.t0)

    def out_of_time(self):
        # a stalled operation was interrupted: wind the workload down (the witness is recorded)
        return self.stalled > 0 or self.time_left() <= 0

    # ---- counters ---------------------------------------------------------
    def count(self, cls, n=1):
        self.classes[cls] = self.classes.get(cls, 0) + n

    def monitor(self, name, fired=False, n=1):
        # the stall guard times ONE operation, not a whole loop: workloads that evaluate monitors in long loops without
        # closing a case (exhaustive enumerations) re-arm it here - every 16th evaluation keeps the syscall cost negligible
        self._mon_calls = getattr(self, "_mon_calls", 0) + 1
        if self._mon_calls & 15 == 0 and not self._stall_pending:
            self.arm_stall_guard()
        m = self.monitors.get(name)
        if m is None:
            m = self.monitors[name] = {"evals": 0, "fired": 0}
        m["evals"] += n
        if fired:
            m["fired"] += 1

    def case_done(self, sig_obj=None, nontrivial=True, sig=None):
        self._after_case(sig_obj)
        self.evaluations += 1
        if not nontrivial:
            self.trivial += 1
            return
        if sig is None:
            sig = sig_of(sig_obj)
        if len(self.sigs) < SIG_CAP:
            self.sigs.add(sig)
        elif sig not in self.sigs:
            self.sig_overflow += 1

    def enumerated(self, n, trivial=0):
        """n cases that are pairwise distinct by construction (enumeration index),
        counted without storing signatures."""
        self.evaluations += n
        self.trivial += trivial
        self.distinct_by_construction += n - trivial

    def sample(self, case, force=False):
        if len(self.samples) < SAMPLE_CAP or force:
            self.samples.append(jsonable(case))

    def note(self, key, value):
        self.notes[key] = jsonable(value)

    def note_add(self, key, n=1):
        self.notes[key] = self.notes.get(key, 0) + n

    def starved(self, reason):
        if reason not in self.inconclusive:
            self.inconclusive.append(reason)

    # ---- violations -------------------------------------------------------
    def violation(self, monitor, clause, case, observed=None, expected=None, key=None, detail=None):
        """Record a refutation witness.

        key: classifier key naming the *mechanism* (matched against
        known_findings.json by the runner) or None when no classifier explains
        the witness."""
        self.violation_count += 1
        self.monitors.setdefault(monitor, {"evals": 0, "fired": 0})
        k = (monitor, clause, key)
        n = self._vkeys.get(k, 0)
        self._vkeys[k] = n + 1
        if n < WITNESS_PER_KEY:
            self.violations.append({
                "property": self.prop,
                "monitor": monitor,
                "clause": clause,
                "key": key,
                "case": jsonable(case),
                "observed": jsonable(observed),
                "expected": jsonable(expected),
                "detail": detail,
                "seed": self.seed,
                "shard": self.shard,
                "hashseed": self.hashseed,
                "ascii_locale": _ascii_locale(),
            })

    # ---- result -----------------------------------------------------------
    def result(self):
        reach = {}
        lines = {}
        if self.reach is not None:
            reach = dict(self.reach.counts)
            lines = {}
            for rel, ln in self.reach.lines:
                lines.setdefault(rel, []).append(ln)
        vt = {}
        if self.vtrace is not None:
            vt = {"entered": dict(self.vtrace.entered), "raised": dict(self.vtrace.raised)}
        return {
            "shard": self.shard,
            "hashseed": self.hashseed,
            "evaluations": self.evaluations,
            "trivial": self.trivial,
            "distinct_by_construction": self.distinct_by_construction,
            "sigs": sorted(self.sigs),
            "sig_overflow": self.sig_overflow,
            "classes": self.classes,
            "monitors": self.monitors,
            "reach": reach,
            "lines": lines,
            "validators": vt,
            "violations": self.violations,
            "violation_count": self.violation_count,
            "violation_keys": [[list(k), n] for k, n in self._vkeys.items()],
            "samples": self.samples,
            "notes": self.notes,
            "inconclusive": self.inconclusive,
            "wall_s": time.time() - self.t0,
            "audit_events": self.audit.total if self.audit is not None else 0,
        }
