"""Instrumentation applied to productmd from the outside (DESIGN.md 3.2).

Nothing here edits the repository: everything is installed with setattr /
sys.monitoring / sys.addaudithook from the harness process, and only when
PRODUCTMD_VERIF=1 (set by bin/check).
"""
import os
import sys
import threading

GUARD = "PRODUCTMD_VERIF"


def enabled():
    return os.environ.get(GUARD) == "1"


# --------------------------------------------------------------------------
# Reach monitor: per-function entry counts of repository code (sys.monitoring)
# --------------------------------------------------------------------------

class ReachMonitor(object):
    """Counts PY_START events of code objects whose file lies under `root`.

    Counting stops per code object after `cap` entries (the callback returns
    DISABLE), so the overhead vanishes on hot paths; evidence then reports
    ">= cap".
    """

    def __init__(self, root, cap=200, want_lines=True):
        self.root = os.path.realpath(root) + os.sep
        self.cap = cap
        self.want_lines = want_lines
        self.counts = {}
        self.lines = set()
        self._names = {}
        self._files = {}
        self._tool = None

    def _name(self, code):
        key = code
        name = self._names.get(key)
        if name is None:
            fn = code.co_filename
            try:
                real = os.path.realpath(fn)
            except Exception:
                real = fn
            if real.startswith(self.root):
                mod = real[len(self.root):]
                if mod.endswith(".py"):
                    mod = mod[:-3]
                mod = mod.replace(os.sep, ".")
                if mod.startswith("productmd."):
                    mod = mod[len("productmd."):]
                name = "%s.%s" % (mod, code.co_qualname)
            else:
                name = ""
            self._names[key] = name
        return name

    def start(self):
        mon = sys.monitoring
        tool = None
        for cand in (mon.COVERAGE_ID, mon.PROFILER_ID, 3, 4):
            try:
                mon.use_tool_id(cand, "rv-reach")
                tool = cand
                break
            except ValueError:
                continue
        if tool is None:
            return False
        self._tool = tool
        counts = self.counts
        cap = self.cap
        DISABLE = mon.DISABLE

        def on_start(code, offset):
            name = self._name(code)
            if not name:
                return DISABLE
            n = counts.get(name, 0) + 1
            counts[name] = n
            if n >= cap:
                return DISABLE
            return None

        lines = self.lines
        files = self._files
        root = self.root

        def on_line(code, line):
            # every (code object, line) location fires once: the callback always returns DISABLE
            fn = code.co_filename
            rel = files.get(fn)
            if rel is None:
                try:
                    real = os.path.realpath(fn)
                except Exception:
                    real = fn
                rel = real[len(root):] if real.startswith(root) else ""
                files[fn] = rel
            if rel:
                lines.add((rel, line))
            return DISABLE

        mon.register_callback(tool, mon.events.PY_START, on_start)
        events = mon.events.PY_START
        if self.want_lines:
            mon.register_callback(tool, mon.events.LINE, on_line)
            events |= mon.events.LINE
        mon.set_events(tool, events)
        return True

    def stop(self):
        if self._tool is None:
            return
        mon = sys.monitoring
        mon.set_events(self._tool, 0)
        mon.register_callback(self._tool, mon.events.PY_START, None)
        if self.want_lines:
            mon.register_callback(self._tool, mon.events.LINE, None)
        mon.free_tool_id(self._tool)
        self._tool = None


# --------------------------------------------------------------------------
# Audit-hook log of file opens
# --------------------------------------------------------------------------

class AuditLog(object):
    """Records `open` audit events for paths under the active prefix.

    An audit hook cannot be removed, so one hook is installed per process and
    switched with `begin()` / `end()`.  Events carry a monotone sequence
    number; write-ness is decided from mode and flags.
    """

    _installed = None

    def __init__(self):
        self.active = False
        self.prefix = None
        self.events = []
        self.seq = 0
        self.total = 0
        self._lock = threading.Lock()

    @classmethod
    def install(cls):
        if cls._installed is None:
            log = cls()
            sys.addaudithook(log._hook)
            cls._installed = log
        return cls._installed

    def _hook(self, event, args):
        if not self.active or event != "open":
            return
        try:
            path, mode, flags = args[0], args[1], args[2]
            if isinstance(path, bytes):
                path = os.fsdecode(path)
            if not isinstance(path, str):
                return
            # however the caller spelled it (relative, '//', './', '..'): judged by the file it names
            path = os.path.normpath(os.path.abspath(path))
            if self.prefix is not None and not path.startswith(self.prefix):
                return
            writing = False
            if isinstance(mode, str):
                writing = any(c in mode for c in "wax+")
            if isinstance(flags, int):
                if flags & (os.O_WRONLY | os.O_RDWR | os.O_CREAT | os.O_TRUNC | os.O_APPEND):
                    writing = True
            with self._lock:
                self.seq += 1
                self.total += 1
                self.events.append((self.seq, path, mode if isinstance(mode, str) else None,
                                    flags if isinstance(flags, int) else None, writing))
        except Exception:
            pass

    def begin(self, prefix):
        self.prefix = os.path.normpath(os.path.abspath(prefix)) if prefix is not None else None
        self.events = []
        self.active = True

    def end(self):
        self.active = False
        ev = self.events
        self.events = []
        return ev


# --------------------------------------------------------------------------
# Validator trace / failpoints
# --------------------------------------------------------------------------

class Injected(ValueError):
    """Raised by a failpoint; subclass of ValueError like a real validator failure."""


def metadata_classes():
    """Every MetadataBase subclass defined in a productmd module (introspected)."""
    import importlib
    import pkgutil
    import productmd
    import productmd.common
    out = []
    seen = set()
    for info in pkgutil.iter_modules(productmd.__path__):
        try:
            mod = importlib.import_module("productmd." + info.name)
        except Exception:
            continue
        for name in dir(mod):
            obj = getattr(mod, name)
            if isinstance(obj, type) and issubclass(obj, productmd.common.MetadataBase):
                if obj.__module__ == mod.__name__ and obj not in seen:
                    seen.add(obj)
                    out.append(obj)
    return out


class ValidatorTrace(object):
    """Wraps every `_validate*` method defined on MetadataBase subclasses.

    mode 'off'    : pass-through
    mode 'trace'  : append (class, method) to `seq` on each activation
    mode 'inject' : raise Injected at activation number `target` (0-based)
    Per-validator entry and raise counters are kept in all modes.
    """

    def __init__(self):
        self.mode = "off"
        self.seq = []
        self.n = 0
        self.target = None
        self.fired = None
        self.entered = {}
        self.raised = {}
        self._orig = []

    def install(self):
        for cls in metadata_classes():
            for name, fn in list(vars(cls).items()):
                if name.startswith("_validate") and callable(fn) and not isinstance(fn, (staticmethod, classmethod)):
                    self._wrap(cls, name, fn)
        return self

    def _wrap(self, cls, name, fn):
        tr = self
        label = "%s.%s.%s" % (cls.__module__.replace("productmd.", ""), cls.__name__, name)
        tr.entered.setdefault(label, 0)
        tr.raised.setdefault(label, 0)

        def wrapper(self_, *a, **kw):
            tr.entered[label] += 1
            if tr.mode != "off":
                idx = tr.n
                tr.n += 1
                if tr.mode == "trace":
                    tr.seq.append(label)
                elif tr.mode == "inject" and idx == tr.target:
                    tr.fired = label
                    raise Injected("injected failure at %s #%d" % (label, idx))
            try:
                return fn(self_, *a, **kw)
            except (TypeError, ValueError):
                tr.raised[label] += 1
                raise
        wrapper.__name__ = name
        wrapper.__qualname__ = getattr(fn, "__qualname__", name)
        wrapper.__wrapped__ = fn
        setattr(cls, name, wrapper)
        self._orig.append((cls, name, fn))

    def uninstall(self):
        for cls, name, fn in self._orig:
            setattr(cls, name, fn)
        self._orig = []

    def begin(self, mode, target=None):
        self.mode = mode
        self.seq = []
        self.n = 0
        self.target = target
        self.fired = None

    def end(self):
        self.mode = "off"
        return self.seq


# --------------------------------------------------------------------------
# re harvest: every pattern handed to the re module by repository code
# --------------------------------------------------------------------------

class ReHarvest(object):
    """Wraps re._compile (the funnel of compile/match/search/...) and records
    (pattern, flags) for calls whose caller's file lies under `root`.
    Must be installed before productmd is imported to see module-level
    re.compile() calls."""

    def __init__(self, root):
        self.root = os.path.realpath(root) + os.sep
        self.patterns = {}
        self.events = 0
        self.window = None          # when a set: also collects the keys seen while it is open (per-call pattern sets)
        self._orig = None

    def install(self):
        import re
        orig = re._compile
        self._orig = orig
        hv = self

        def _compile(pattern, flags):
            try:
                f = sys._getframe(2)
                fn = f.f_code.co_filename
                if fn.startswith(hv.root) or os.path.realpath(fn).startswith(hv.root):
                    hv.events += 1
                    if isinstance(pattern, (str, bytes)):
                        key = (pattern if isinstance(pattern, str) else pattern.decode("latin1"), int(flags))
                        where = "%s:%d" % (os.path.basename(fn), f.f_lineno)
                        hv.patterns.setdefault(key, set()).add(where)
                        if hv.window is not None:
                            hv.window.add(key)
            except Exception:
                pass
            return orig(pattern, flags)
        re._compile = _compile
        return self

    def uninstall(self):
        if self._orig is not None:
            import re
            re._compile = self._orig
            self._orig = None

    def scan_compiled(self):
        """Also pick up compiled pattern objects held as module attributes
        (compiled before the hook could see the caller, e.g. on re-import)."""
        import re
        import productmd
        import pkgutil
        import importlib
        for info in pkgutil.iter_modules(productmd.__path__):
            try:
                mod = importlib.import_module("productmd." + info.name)
            except Exception:
                continue
            for name, obj in vars(mod).items():
                objs = obj if isinstance(obj, (list, tuple)) else [obj]
                for o in objs:
                    if isinstance(o, re.Pattern) and isinstance(o.pattern, str):
                        self.patterns.setdefault((o.pattern, int(o.flags & ~re.UNICODE)), set()).add(
                            "%s.%s" % (info.name, name))
