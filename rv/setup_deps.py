"""Install third-party pieces next to the harness, offline (bin/setup).

* icontract -> /verif/.deps (pip --no-index from the local wheelhouse)
* native/cgctl.c -> /verif/.build/cgctl.so (callgrind client requests, C19)

Safe to call concurrently: a lock file serialises the work.
"""
import fcntl
import os
import shutil
import subprocess
import sys

HERE = os.path.dirname(os.path.dirname(os.path.abspath(__file__)))
DEPS = os.path.join(HERE, ".deps")
BUILD = os.path.join(HERE, ".build")
WHEELS = "/opt/veriftools/wheels"


def have_icontract():
    return os.path.isdir(os.path.join(DEPS, "icontract"))


def have_cgctl():
    return os.path.isfile(os.path.join(BUILD, "cgctl.so"))


def ensure(verbose=False):
    if have_icontract() and have_cgctl():
        return True
    lock = open(os.path.join(HERE, ".setup.lock"), "w")
    fcntl.flock(lock, fcntl.LOCK_EX)
    try:
        ok = True
        if not have_icontract():
            os.makedirs(DEPS, exist_ok=True)
            cmd = [sys.executable, "-m", "pip", "install", "--quiet", "--no-index",
                   "--find-links", WHEELS, "--target", DEPS, "--no-compile", "icontract"]
            r = subprocess.run(cmd, stdout=subprocess.PIPE, stderr=subprocess.STDOUT, text=True)
            if r.returncode != 0 or not have_icontract():
                ok = False
                sys.stderr.write("setup: icontract install failed:\n%s\n" % r.stdout)
        if not have_cgctl():
            os.makedirs(BUILD, exist_ok=True)
            cc = shutil.which("clang") or shutil.which("gcc") or shutil.which("cc")
            if cc is None:
                sys.stderr.write("setup: no C compiler; C19 falls back to CPU time\n")
            else:
                tmp = os.path.join(BUILD, "cgctl.so.tmp%d" % os.getpid())
                r = subprocess.run([cc, "-O1", "-shared", "-fPIC", "-o", tmp,
                                    os.path.join(HERE, "native", "cgctl.c")],
                                   stdout=subprocess.PIPE, stderr=subprocess.STDOUT, text=True)
                if r.returncode == 0:
                    os.replace(tmp, os.path.join(BUILD, "cgctl.so"))
                else:
                    sys.stderr.write("setup: cgctl build failed (C19 falls back to CPU time):\n%s\n" % r.stdout)
        if verbose:
            print("setup: icontract=%s cgctl=%s" % (have_icontract(), have_cgctl()))
        return ok
    finally:
        fcntl.flock(lock, fcntl.LOCK_UN)
        lock.close()


if __name__ == "__main__":
    sys.exit(0 if ensure(verbose=True) else 1)
