"""bin/check entry point: shard pool, aggregation, verdict, evidence, findings.

    bin/check <ID> [--tier quick|thorough] [--seed N] [--replay FILE]
                   [--repo DIR] [--shards K] [--keep]

Exit 0: held on everything explored.  Exit 1 + "VIOLATION property=<id>
replay=<path>": refuted.  Exit 2 + "INCONCLUSIVE property=<id> reason=...":
the deciding monitors were starved (never folded into held or violated).
"""
import argparse
import importlib
import json
import os
import shutil
import subprocess
import sys
import tempfile
import time

HERE = os.path.dirname(os.path.dirname(os.path.abspath(__file__)))
HASHSEEDS = ["0", "1", "2", "7", "42", "1234", "99991", "4294967295",
             "3", "11", "314159", "271828", "65537", "123456789", "5", "13"]
MAX_REPLAYS = 8


def load_findings():
    path = os.path.join(HERE, "known_findings.json")
    try:
        with open(path) as f:
            data = json.load(f)
    except FileNotFoundError:
        return []
    return data.get("findings", [])


def open_keys(findings, prop):
    return dict((f["key"], f) for f in findings
                if f.get("property") == prop and f.get("status") == "open" and f.get("key"))


def spawn_shards(mod, prop, tier, seed, repo, plan, scratch_root, mode="run", replay_case=None):
    nshards = int(plan.get("shards", 1))
    params = dict(plan.get("params") or {})
    timeout = float(plan.get("timeout_s", 1800))
    maxpar = int(plan.get("parallel", 16))
    procs = []
    results = []
    pending = list(range(nshards))
    running = []
    t0 = time.time()
    env_base = dict(os.environ)
    env_base["PRODUCTMD_VERIF"] = "1"
    env_base["PYTHONDONTWRITEBYTECODE"] = "1"
    env_base["PYTHONPATH"] = HERE
    env_base.pop("PYTHONSTARTUP", None)
    watchdog_fired = False

    def start(i):
        sdir = os.path.join(scratch_root, "s%d" % i)
        os.makedirs(sdir, exist_ok=True)
        out = os.path.join(scratch_root, "result%d.json" % i)
        spec = {"prop": prop, "tier": tier, "seed": seed, "shard": i, "nshards": nshards,
                "repo": repo, "scratch": sdir, "out": out, "params": params, "mode": mode,
                "replay_case": replay_case}
        spath = os.path.join(scratch_root, "spec%d.json" % i)
        with open(spath, "w") as f:
            json.dump(spec, f)
        env = dict(env_base)
        hs = plan.get("hashseeds") or HASHSEEDS
        env["PYTHONHASHSEED"] = str(hs[(i + seed) % len(hs)])
        env["TMPDIR"] = sdir
        if i in (plan.get("ascii_locale_shards") or []):
            # a process whose preferred encoding is ASCII (what open(path, "w") uses): the C locale with Python's
            # UTF-8 coercion switched off
            env.update({"LC_ALL": "C", "LANG": "C", "PYTHONUTF8": "0", "PYTHONCOERCECLOCALE": "0", "PYTHONIOENCODING": "utf-8"})
        log = open(os.path.join(scratch_root, "log%d.txt" % i), "w")
        p = subprocess.Popen([sys.executable, "-m", "rv.shard", spath], env=env, cwd=HERE,
                             stdout=log, stderr=subprocess.STDOUT)
        return (i, p, out, log, env["PYTHONHASHSEED"])

    while pending or running:
        while pending and len(running) < maxpar:
            running.append(start(pending.pop(0)))
        still = []
        for item in running:
            i, p, out, log, hs = item
            rc = p.poll()
            if rc is None:
                if time.time() - t0 > timeout:
                    p.kill()
                    p.wait()
                    watchdog_fired = True
                    rc = -9
                else:
                    still.append(item)
                    continue
            log.close()
            res = None
            if os.path.exists(out):
                try:
                    with open(out) as f:
                        res = json.load(f)
                except Exception:
                    res = None
            logtxt = ""
            try:
                with open(os.path.join(scratch_root, "log%d.txt" % i)) as f:
                    logtxt = f.read()[-3000:]
            except Exception:
                pass
            results.append({"shard": i, "rc": rc, "res": res, "log": logtxt, "hashseed": hs})
        running = still
        if running:
            time.sleep(0.05)
    results.sort(key=lambda r: r["shard"])
    return results, watchdog_fired


def executable_lines(path):
    """Line numbers inside function bodies of `path` that carry code (from the compiled code objects)."""
    try:
        with open(path, "rb") as f:
            top = compile(f.read(), path, "exec", dont_inherit=True)
    except Exception:
        return set()
    out = set()
    todo = [top]
    while todo:
        co = todo.pop()
        # module and class bodies run at import, before the monitor is switched on: only function bodies are counted
        # (CO_OPTIMIZED marks them), without the line of the `def` itself
        if co.co_flags & 0x1:
            for _s, _e, ln in co.co_lines():
                if ln and ln != co.co_firstlineno:
                    out.add(ln)
        for c in co.co_consts:
            if hasattr(c, "co_lines"):
                todo.append(c)
    return out


def line_summary(repo, lines):
    """Per repository source file: lines of code the workload executed (LINE events of sys.monitoring) over lines that carry code.
    With VERIF_LINES_OUT=<file> the full set is written there as well (selftest/line_reach.py merges these)."""
    out = {}
    for rel in sorted(lines):
        if not rel.startswith("productmd" + os.sep):
            continue
        ex = executable_lines(os.path.join(repo, rel))
        hit = set(lines[rel]) & ex if ex else set(lines[rel])
        out[rel] = "%d/%d" % (len(hit), len(ex))
    dump = os.environ.get("VERIF_LINES_OUT")
    if dump:
        with open(dump, "w") as f:
            json.dump(dict((k, sorted(v)) for k, v in lines.items()), f)
    return out


def aggregate(results):
    agg = {"evaluations": 0, "trivial": 0, "distinct_by_construction": 0, "sigs": set(), "sig_overflow": 0, "classes": {}, "monitors": {},
           "reach": {}, "validators": {"entered": {}, "raised": {}}, "violations": [],
           "violation_count": 0, "violation_keys": {}, "samples": [], "notes": {}, "notes_by_shard": [],
           "inconclusive": [], "hashseeds": [], "audit_events": 0, "harvest": {}, "shard_wall": [],
           "broken": [], "reach_absent": set(), "lines": {}}
    for r in results:
        res = r["res"]
        if r["rc"] == 3:
            agg["broken"].append("shard %d: productmd not imported from the repository under test: %s"
                                 % (r["shard"], r["log"][-300:]))
        if res is None:
            agg["inconclusive"].append("shard %d produced no result (rc=%s): %s"
                                       % (r["shard"], r["rc"], r["log"][-600:].replace("\n", " | ")))
            continue
        agg["hashseeds"].append(r["hashseed"])
        agg["reach_absent"].update(res.get("reach_absent", []))
        agg["evaluations"] += res["evaluations"]
        agg["trivial"] += res.get("trivial", 0)
        agg["distinct_by_construction"] += res.get("distinct_by_construction", 0)
        agg["sigs"].update(res["sigs"])
        agg["sig_overflow"] += res.get("sig_overflow", 0)
        for k, v in res["classes"].items():
            agg["classes"][k] = agg["classes"].get(k, 0) + v
        for k, v in res["monitors"].items():
            m = agg["monitors"].setdefault(k, {"evals": 0, "fired": 0})
            m["evals"] += v["evals"]
            m["fired"] += v["fired"]
        for k, v in res["reach"].items():
            agg["reach"][k] = agg["reach"].get(k, 0) + v
        for k, v in (res.get("lines") or {}).items():
            agg["lines"].setdefault(k, set()).update(v)
        for part in ("entered", "raised"):
            for k, v in (res.get("validators") or {}).get(part, {}).items():
                agg["validators"][part][k] = agg["validators"][part].get(k, 0) + v
        agg["violations"].extend(res["violations"])
        agg["violation_count"] += res["violation_count"]
        for k, n in res.get("violation_keys", []):
            k = tuple(k)
            agg["violation_keys"][k] = agg["violation_keys"].get(k, 0) + n
        for s in res["samples"]:
            if len(agg["samples"]) < 6:
                agg["samples"].append(s)
        for k, v in res["notes"].items():
            if isinstance(v, (int, float)) and not isinstance(v, bool):
                agg["notes"][k] = agg["notes"].get(k, 0) + v
            elif isinstance(v, bool):
                agg["notes"][k] = agg["notes"].get(k, True) and v
            elif isinstance(v, list):
                agg["notes"].setdefault(k, [])
                for it in v:
                    if it not in agg["notes"][k] and len(agg["notes"][k]) < 400:
                        agg["notes"][k].append(it)
            elif isinstance(v, dict):
                d = agg["notes"].setdefault(k, {})
                for kk, vv in v.items():
                    if isinstance(vv, (int, float)) and not isinstance(vv, bool):
                        d[kk] = d.get(kk, 0) + vv
                    else:
                        d.setdefault(kk, vv)
            else:
                agg["notes"].setdefault(k, v)
        agg["notes_by_shard"].append(res["notes"])
        agg["inconclusive"].extend(res["inconclusive"])
        agg["audit_events"] += res.get("audit_events", 0)
        agg["shard_wall"].append(round(res.get("wall_s", 0), 2))
        hv = res.get("harvest")
        if hv:
            h = agg["harvest"]
            h["events"] = h.get("events", 0) + hv["events"]
            pats = h.setdefault("patterns", {})
            for p, fl, where in hv["patterns"]:
                pats.setdefault("%s\x00%d" % (p, fl), set()).update(where)
    return agg


def write_replay(prop, seed, n, v):
    rel = os.path.join("replay", "%s-%s-%d.json" % (prop, seed, n))
    with open(os.path.join(HERE, rel), "w") as f:
        json.dump(v, f, indent=1, sort_keys=True)
    return rel


def main(argv=None):
    ap = argparse.ArgumentParser(prog="bin/check")
    ap.add_argument("prop")
    ap.add_argument("--tier", choices=["quick", "thorough"], default=None)
    ap.add_argument("--seed", type=int, default=None)
    ap.add_argument("--replay", default=None)
    ap.add_argument("--repo", default="/repo")
    ap.add_argument("--shards", type=int, default=None)
    ap.add_argument("--no-evidence", action="store_true")
    ap.add_argument("--keep", action="store_true")
    args = ap.parse_args(argv)

    prop = args.prop.upper()
    tier = args.tier or os.environ.get("VERIF_TIER") or "quick"
    if tier not in ("quick", "thorough"):
        tier = "quick"
    seed = args.seed
    if seed is None:
        try:
            seed = int(os.environ.get("VERIF_SEED", "0"))
        except ValueError:
            seed = 0
    repo = os.path.realpath(args.repo)
    t0 = time.time()

    from rv import setup_deps
    setup_deps.ensure()

    sys.path.insert(0, repo)
    sys.path.append(os.path.join(HERE, ".deps"))
    try:
        mod = importlib.import_module("checks." + prop.lower())
    except ModuleNotFoundError as e:
        print("no such check: %s (%s)" % (prop, e))
        return 2

    scratch_root = tempfile.mkdtemp(prefix="pmdverif-%s-" % prop)
    try:
        if args.replay:
            return do_replay(mod, prop, tier, seed, repo, args.replay, scratch_root)
        plan = mod.plan(tier)
        if args.shards:
            plan["shards"] = args.shards
        results, watchdog = spawn_shards(mod, prop, tier, seed, repo, plan, scratch_root)
        agg = aggregate(results)
        if watchdog:
            agg["inconclusive"].append("wall-clock watchdog fired (%.0fs); inconclusive, not a violation"
                                       % plan.get("timeout_s", 1800))
        if hasattr(mod, "post"):
            mod.post(agg, tier, seed)
        return conclude(mod, prop, tier, seed, repo, plan, agg, t0, write_evidence=not args.no_evidence)
    finally:
        if not args.keep:
            shutil.rmtree(scratch_root, ignore_errors=True)
        else:
            print("scratch kept at", scratch_root)


def do_replay(mod, prop, tier, seed, repo, path, scratch_root):
    with open(path) as f:
        v = json.load(f)
    case = v.get("case", v)
    plan = {"shards": 1, "params": dict(mod.plan(tier).get("params") or {}), "timeout_s": 900}
    if v.get("ascii_locale"):
        plan["ascii_locale_shards"] = [0]
    if v.get("hashseed"):
        plan["hashseeds"] = [str(v["hashseed"])]
        seed_for = 0
    else:
        seed_for = seed
    plan["params"]["replay_monitor"] = v.get("monitor")
    results, watchdog = spawn_shards(mod, prop, tier, seed_for, repo, plan, scratch_root,
                                     mode="replay", replay_case=case)
    agg = aggregate(results)
    findings = load_findings()
    known = open_keys(findings, prop)
    if agg["broken"] or (agg["inconclusive"] and not agg["violation_count"]):
        print("INCONCLUSIVE property=%s reason=%s" % (prop, "; ".join(agg["broken"] + agg["inconclusive"])[:600]))
        return 2
    if agg["violation_count"]:
        unknown = [x for x in agg["violations"] if x.get("key") not in known]
        for x in agg["violations"]:
            print("replayed: monitor=%s clause=%s key=%s" % (x["monitor"], x["clause"], x["key"]))
            print("  observed=%s" % json.dumps(x["observed"])[:800])
            print("  expected=%s" % json.dumps(x["expected"])[:800])
            if x.get("detail"):
                print("  detail=%s" % str(x["detail"])[:800])
        if unknown:
            print("VIOLATION property=%s replay=%s" % (prop, path))
            return 1
        for k in sorted(set(x["key"] for x in agg["violations"])):
            print("KNOWN-FINDING: property=%s %s: %s" % (prop, k, known[k].get("what", "")))
        return 0
    print("replay: property %s held on the replayed case" % prop)
    return 0


def conclude(mod, prop, tier, seed, repo, plan, agg, t0, write_evidence=True):
    findings = load_findings()
    known = open_keys(findings, prop)

    # ---- starvation checks (inconclusive) --------------------------------
    inconclusive = list(agg["inconclusive"])
    floors = getattr(mod, "CLASS_FLOORS", {}) or {}
    if callable(floors):
        floors = floors(tier)
    for cls, floor in sorted(floors.items()):
        if agg["classes"].get(cls, 0) < floor:
            inconclusive.append("class floor not met: %s seen %d < %d" % (cls, agg["classes"].get(cls, 0), floor))
    required = getattr(mod, "REQUIRED_REACH", []) or []
    if agg["reach"]:
        for fn in required:
            alts = fn if isinstance(fn, (list, tuple)) else [fn]
            if all(a in agg["reach_absent"] for a in alts):
                continue          # the anchor no longer exists under that name (refactored); nothing to starve
            if not any(agg["reach"].get(a, 0) > 0 for a in alts):
                inconclusive.append("anchored function never entered: %s" % "|".join(alts))
    elif required:
        inconclusive.append("reach monitor produced no data")
    req_mon = getattr(mod, "REQUIRED_MONITORS", []) or []
    for m in req_mon:
        if agg["monitors"].get(m, {}).get("evals", 0) <= 0:
            inconclusive.append("monitor never evaluated: %s" % m)
    if agg["evaluations"] <= 0:
        inconclusive.append("no case was evaluated")

    distinct = len(agg["sigs"]) + agg["distinct_by_construction"]

    # ---- violations vs known findings ------------------------------------
    new = [v for v in agg["violations"] if v.get("key") not in known]
    known_seen = {}
    for (monitor, clause, key), n in agg["violation_keys"].items():
        if key in known:
            known_seen[key] = known_seen.get(key, 0) + n
    new_count = sum(n for (m, c, k), n in agg["violation_keys"].items() if k not in known)

    lines = []
    replay_paths = []
    seen_kinds = set()
    for v in new:
        kind = (v["monitor"], v["clause"], v.get("key"))
        if kind in seen_kinds or len(replay_paths) >= MAX_REPLAYS:
            continue
        seen_kinds.add(kind)
        rel = write_replay(prop, seed, len(replay_paths) + 1, v)
        replay_paths.append(rel)
        lines.append("VIOLATION property=%s replay=%s" % (prop, rel))
        lines.append("  monitor=%s clause=%s key=%s" % (v["monitor"], v["clause"], v.get("key")))
        lines.append("  observed=%s" % json.dumps(v["observed"])[:500])
        lines.append("  expected=%s" % json.dumps(v["expected"])[:500])
        if v.get("detail"):
            lines.append("  detail=%s" % str(v["detail"])[:500])
    for key in sorted(known_seen):
        lines.append("KNOWN-FINDING: property=%s %s: %s (observed %d times in this run)"
                     % (prop, key, known[key].get("what", ""), known_seen[key]))

    if agg["broken"]:
        verdict = "broken"
    elif new_count:
        verdict = "violated"
    elif inconclusive:
        verdict = "inconclusive"
    else:
        verdict = "held"

    wall = time.time() - t0
    print("property=%s tier=%s seed=%s repo=%s shards=%d hashseeds=%s" % (
        prop, tier, seed, repo, plan.get("shards", 1), ",".join(agg["hashseeds"])))
    print("evaluations=%d distinct_nontrivial=%d%s trivial=%d violations=%d (new=%d, known=%d) wall=%.1fs" % (
        agg["evaluations"], distinct, "+" if agg["sig_overflow"] else "", agg["trivial"], agg["violation_count"],
        new_count, agg["violation_count"] - new_count, wall))
    mons = ", ".join("%s:%d/%d" % (k, v["fired"], v["evals"]) for k, v in sorted(agg["monitors"].items()))
    print("monitors (fired/evaluated): %s" % mons)
    if agg["classes"]:
        cl = sorted(agg["classes"].items())
        print("classes: %s" % ", ".join("%s=%d" % kv for kv in cl[:60]) + (" ..." if len(cl) > 60 else ""))
    for l in lines:
        print(l)
    if verdict == "inconclusive":
        print("INCONCLUSIVE property=%s reason=%s" % (prop, "; ".join(inconclusive)[:1500]))
    elif inconclusive:
        print("note: starved monitors (would be inconclusive without the violations): %s" % "; ".join(inconclusive)[:1500])
    if verdict == "broken":
        print("BROKEN property=%s reason=%s" % (prop, "; ".join(agg["broken"])[:800]))
    print("RESULT property=%s verdict=%s" % (prop, verdict))

    if not write_evidence and os.environ.get("VERIF_LINES_OUT"):
        line_summary(repo, agg["lines"])
    if write_evidence:
        samples = agg["samples"] or [{"note": "no sample recorded"}]
        harvest = agg.get("harvest") or {}
        cov = {
            "evaluations": agg["evaluations"],
            "distinct_nontrivial": distinct,
            "rule": getattr(mod, "RULE", "") + (
                "  [distinct = union over shards of 56-bit structural signatures; capped at %d per shard, "
                "so a lower bound (%d further distinct signatures were not stored)]" % (200000, agg["sig_overflow"])
                if agg["sig_overflow"] else
                "  [distinct = union over shards of 56-bit structural signatures of non-trivial cases]"),
            "samples": samples,
            "exhaustive": bool(agg["notes"].get("exhaustive", False)) and verdict == "held",
            "trivial_cases": agg["trivial"],
            "verdict": verdict,
            "monitors": agg["monitors"],
            "classes": agg["classes"],
            "class_floors": floors,
            "reach_required": dict((("|".join(f) if isinstance(f, (list, tuple)) else f),
                                    max([agg["reach"].get(a, 0) for a in (f if isinstance(f, (list, tuple)) else [f])] or [0]))
                                   for f in required),
            "reach_functions_entered": len([k for k, v in agg["reach"].items() if v > 0]),
            "reach_lines": line_summary(repo, agg["lines"]),
            "reach_anchors_absent_in_this_tree": sorted(agg["reach_absent"]),
            "reach_note": "counts saturate at the per-shard cap (%s) times the number of shards" % (
                (plan.get("params") or {}).get("reach_cap", 200)),
            "validators_entered": len([k for k, v in agg["validators"]["entered"].items() if v > 0]),
            "validators_raised_on_invalid": dict((k, v) for k, v in sorted(agg["validators"]["raised"].items()) if v > 0),
            "audit_open_events": agg["audit_events"],
            "shards": plan.get("shards", 1),
            "hashseeds": agg["hashseeds"],
            "shard_wall_s": agg["shard_wall"],
            "known_findings_observed": known_seen,
            "new_violation_kinds": [list(k) for k in sorted(seen_kinds, key=repr)],
            "replays": replay_paths,
            "inconclusive_reasons": inconclusive,
            "notes": agg["notes"],
            "repo": repo,
        }
        if harvest:
            cov["re_harvest_events"] = harvest.get("events", 0)
            cov["re_patterns_harvested"] = len(harvest.get("patterns", {}))
        ev = {
            "property_id": prop,
            "tier": tier,
            "seed": seed,
            "level": getattr(mod, "LEVEL", "exploration"),
            "coverage": cov,
            "assumptions": getattr(mod, "ASSUMPTIONS", []),
            "wall_s": round(wall, 2),
            "violations": new_count,
        }
        os.makedirs(os.path.join(HERE, "evidence"), exist_ok=True)
        path = os.path.join(HERE, "evidence", "%s.json" % prop)
        tmp = path + ".tmp%d" % os.getpid()
        with open(tmp, "w") as f:
            json.dump(ev, f, indent=1, sort_keys=True, default=lambda o: sorted(o) if isinstance(o, (set, frozenset)) else repr(o))
        os.replace(tmp, path)

    if verdict == "held":
        return 0
    if verdict == "violated":
        return 1
    return 2


if __name__ == "__main__":
    sys.exit(main())
