"""images manifest: description generator, builder, reference model, observation.

  D = {"compose": {...}, "images": [{"attrs": {15 attributes}, "cells": [[variant, arch], ...]}, ...]}

The same image object may be filed in several cells.  The generator respects
the identity rule of the format (no two images equal on the seven identity
attributes with different checksums) using the model's own identity function,
so that every add is expected to succeed.
"""
from rv.gen import text
from rv.model import domains
from rv import fmt_composeinfo as FC

ATTRS = ["path", "mtime", "size", "volume_id", "type", "format", "arch", "disc_number", "disc_count", "checksums",
         "implant_md5", "bootable", "subvariant", "unified", "additional_variants"]
HEX = "0123456789abcdef"
CHECKSUM_TYPES = ["md5", "sha1", "sha256", "sha512"]
CHECKSUM_LEN = {"md5": 32, "sha1": 40, "sha256": 64, "sha512": 128}
VARIANT_POOL = ["Server", "Client", "Workstation", "Server-optional", "Cloud", "Everything", "Spins", "Labs"]
ARCH_POOL = ["x86_64", "i386", "aarch64", "ppc64le", "s390x", "armhfp"]


def model_identity(a):
    """Identity tuple per doc/images-1.1.rst + 1.2 (unified, additional_variants), with the documented defaults."""
    return (a["subvariant"], a["type"], a["format"], a["arch"], a["disc_number"],
            bool(a.get("unified") or False), tuple(a.get("additional_variants") or []))


def gen_checksums(rng, n=None):
    n = n or rng.choice([1, 1, 2, 3])
    out = {}
    style = rng.random()
    for t in rng.sample(CHECKSUM_TYPES, n):
        alphabet = HEX if style < 0.8 else "0123456789ABCDEF" if style < 0.9 else HEX + "ABCDEF"
        out[t] = text.chars(rng, alphabet, CHECKSUM_LEN[t], CHECKSUM_LEN[t])
    if style > 0.97:
        # a checksum VALUE is free text to the library: some tools write it OCI-style, prefixed with its own algorithm name
        for t in list(out):
            out[t] = rng.choice(["%s:%s" % (t, out[t]), "%s=%s" % (t.upper(), out[t]), " " + out[t], out[t] + "  -"])
    return out


def gen_image_attrs(rng, itype=None, iformat=None, force=None):
    itype = itype or rng.choice(domains.IMAGE_TYPES)
    iformat = iformat or rng.choice(domains.IMAGE_TYPE_FORMATS[itype] or domains.IMAGE_FORMATS)
    if rng.random() < 0.1:
        iformat = rng.choice(domains.IMAGE_FORMATS)        # type and format are validated independently
    unified = rng.random() < 0.2 or force == "unified"
    a = {
        "path": text.rel_path(rng) + "." + iformat,
        "mtime": rng.choice([0, 1, 1431345600, 2 ** 31 - 1, 2 ** 31, 2 ** 33, rng.randint(0, 2 ** 40), -1]),
        "size": rng.choice([1, 2, 2 ** 31 - 1, 2 ** 31, 2 ** 32, 2 ** 32 + 1, 2 ** 53, 2 ** 53 + 1, 2 ** 64, rng.randint(1, 2 ** 45)]),
        "volume_id": rng.choice([None, "Fedora-22-x86_64", text.pretty_name(rng), " ", "é日本"]),
        "type": itype,
        "format": iformat,
        "arch": rng.choice(ARCH_POOL + ["src", "noarch"]),
        "disc_number": rng.choice([1, 1, 2, 3, 0, 10]),
        "disc_count": rng.choice([1, 1, 2, 3, 0, 10]),
        "checksums": gen_checksums(rng),
        "implant_md5": rng.choice([None, text.chars(rng, HEX, 32, 32), text.chars(rng, text.LOWER + text.DIGITS, 32, 32)]),
        "bootable": rng.random() < 0.5,
        "subvariant": rng.choice(["", "Server", "KDE", "Workstation", text.word(rng), "Cloud Base"]),
        "unified": unified,
        "additional_variants": [],
    }
    if unified and rng.random() < 0.8:
        a["additional_variants"] = rng.sample(VARIANT_POOL, rng.randint(1, 3))
        if rng.random() < 0.25:
            a["additional_variants"] = a["additional_variants"] + [a["additional_variants"][0]] + rng.sample(VARIANT_POOL, 2)
    if force == "size-large":
        a["size"] = rng.choice([2 ** 32 + 1, 2 ** 40, 2 ** 53 + 1, 2 ** 63, 2 ** 64 + 5])
    if force == "volume-null":
        a["volume_id"] = None
    if force == "volume-set":
        a["volume_id"] = text.pretty_name(rng)
    if force == "implant-null":
        a["implant_md5"] = None
    if force == "implant-set":
        a["implant_md5"] = text.chars(rng, HEX, 32, 32)
    if force == "checksums-several":
        a["checksums"] = gen_checksums(rng, rng.choice([2, 3, 4]))
    if force == "mtime-zero":
        a["mtime"] = 0
    if force == "subvariant-empty":
        a["subvariant"] = ""
    return a


def gen_description(rng, force=None, max_images=None, type_cycle=None, hostile=True):
    comp = FC.gen_compose(rng, hostile=hostile)
    if comp["id"] == "<create>":
        comp["id"] = "Fedora-22-%s%s.%d" % (comp["date"], domains.COMPOSE_TYPE_SUFFIX[comp["type"]], comp["respin"] % 1000)
    variants = rng.sample(VARIANT_POOL, rng.randint(1, 4))
    arches = rng.sample(ARCH_POOL, rng.randint(1, 4))
    if force == "arches-whole-table":
        # every documented binary architecture is a legal cell key (also the rare ones: amd64, arm64, sparc64v, ...)
        variants = variants[:1]
        arches = list(domains.BINARY_ARCHES)
    elif rng.random() < 0.1:
        arches = rng.sample(domains.BINARY_ARCHES, rng.randint(2, 6))
    cells = [(v, a) for v in variants for a in arches]
    images = []
    ident = {}
    used_paths = {}
    n = rng.randint(1, max_images or 12)
    if force == "empty-manifest":
        n = 0
    if force == "many-per-cell":
        n = rng.randint(8, 16)
        cells = cells[:2]
    if force == "arches-whole-table":
        n = len(cells)
    near = []
    if force == "near-equal-paths" or rng.random() < 0.08:
        # paths of ONE cell that differ only in zero padding / case / a separator: every sort key that is coarser than the
        # path itself ties on them
        base = "%s/%s" % (rng.choice(["Server", "iso", "images"]), text.word(rng, 2, 6))
        k = rng.choice([1, 2, 7, 10])
        near = rng.sample(["%s-disc%d.iso" % (base, k), "%s-disc0%d.iso" % (base, k), "%s-disc00%d.iso" % (base, k),
                           "%s-Disc%d.iso" % (base, k), "%s-disc%d.ISO" % (base, k), "%s_disc%d.iso" % (base, k),
                           "%s-disc%d.iso " % (base, k), "%s-disc%d..iso" % (base, k),
                           # spellings a path normaliser maps to one location (they are distinct paths to the library)
                           "%s-disc%d.iso" % (base.replace("/", "//", 1), k), "%s-disc%d.iso" % (base.replace("/", "/./", 1), k),
                           "./%s-disc%d.iso" % (base, k), "%s/../%s-disc%d.iso" % (base.split("/")[0], base, k)], rng.randint(2, 6))
        n = max(n, len(near))
    near_cell = rng.choice(cells) if cells else None
    for i in range(n):
        itype = iformat = None
        if type_cycle is not None:
            itype = domains.IMAGE_TYPES[(type_cycle + i) % len(domains.IMAGE_TYPES)]
            fmts = domains.IMAGE_FORMATS
            iformat = fmts[(type_cycle + i) % len(fmts)]
        a = gen_image_attrs(rng, itype, iformat, force if i == 0 else None)
        if force == "identity-equal-same-checksums" and i == 1 and images:
            b = images[0]["attrs"]
            for k in domains.IDENTITY_ATTRS:
                a[k] = list(b[k]) if isinstance(b[k], list) else b[k]
            a["checksums"] = dict(b["checksums"])
        # identity rule
        for _ in range(20):
            key = model_identity(a)
            if key in ident and ident[key] != a["checksums"]:
                a["subvariant"] = a["subvariant"] + text.chars(rng, text.ALNUM, 1, 3)
            else:
                break
        ident[model_identity(a)] = dict(a["checksums"])
        if i < len(near):
            a["path"] = near[i]
        same_path_src = None
        if i >= len(near) and images and (rng.random() < 0.12 or (force == "same-path-other-cell" and i == 1)):
            # a DIFFERENT image object (other attributes) carrying the SAME path, filed in other cells -
            # what loading a unified ISO listed under several variants produces
            same_path_src = rng.choice(images)
            a["path"] = same_path_src["attrs"]["path"]
            if rng.random() < 0.5:
                a["unified"] = True
                a["additional_variants"] = rng.sample(VARIANT_POOL, rng.randint(1, 2))
                a["checksums"] = dict(same_path_src["attrs"]["checksums"])
            for _ in range(20):
                key = model_identity(a)
                if key in ident and ident[key] != a["checksums"]:
                    a["subvariant"] = a["subvariant"] + text.chars(rng, text.ALNUM, 1, 3)
                else:
                    break
            ident[model_identity(a)] = dict(a["checksums"])
        k = 1
        if force == "shared-object" and i == 0:
            k = min(len(cells), rng.randint(2, 4))
        elif rng.random() < 0.15:
            k = min(len(cells), rng.randint(2, 3))
        mycells = rng.sample(cells, k)
        if i < len(near):
            mycells = [near_cell]
        if same_path_src is not None:
            free = [c for c in cells if a["path"] not in used_paths.get(c, ())]
            if free:
                mycells = rng.sample(free, min(len(free), k))
        if force == "arches-whole-table":
            mycells = [cells[i]]
        if force == "identity-equal-same-checksums" and i == 1 and images:
            mycells = [tuple(images[0]["cells"][0])]      # ... in ONE cell (an ISO and its '-latest' alias)
        # distinct paths per cell
        for _ in range(20):
            if any(a["path"] in used_paths.get(c, ()) for c in mycells):
                a["path"] = text.word(rng, 1, 4) + "/" + a["path"]
            else:
                break
        for c in mycells:
            used_paths.setdefault(c, set()).add(a["path"])
        images.append({"attrs": a, "cells": [list(c) for c in mycells]})
    return {"compose": comp, "images": images}


def classes_of(D):
    out = set()
    cells = {}
    if len(set(c[1] for im in D["images"] for c in im["cells"])) >= len(domains.BINARY_ARCHES):
        out.add("arches-whole-table")
    for im in D["images"]:
        a = im["attrs"]
        out.add("type-" + a["type"])
        out.add("format-" + a["format"])
        if a["size"] > 2 ** 32:
            out.add("size-large")
        out.add("volume-null" if a["volume_id"] is None else "volume-set")
        out.add("implant-null" if a["implant_md5"] is None else "implant-set")
        if len(a["checksums"]) > 1:
            out.add("checksums-several")
        if a["unified"]:
            out.add("unified")
            if a["additional_variants"]:
                out.add("unified-additional-variants")
        if a["mtime"] == 0:
            out.add("mtime-zero")
        if a["subvariant"] == "":
            out.add("subvariant-empty")
        if len(im["cells"]) > 1:
            out.add("shared-object")
        for c in im["cells"]:
            cells[tuple(c)] = cells.get(tuple(c), 0) + 1
    if not D["images"]:
        out.add("empty-manifest")
    if cells and max(cells.values()) >= 4:
        out.add("many-per-cell")
    if len(set(c[0] for c in cells)) > 1:
        out.add("several-variants")
    if len(set(c[1] for c in cells)) > 1:
        out.add("several-arches")
    import re as _re
    norm = {}
    for im in D["images"]:
        for c in im["cells"]:
            norm.setdefault((tuple(c), _re.sub(r"0*(\d+)", r"\1", __import__("posixpath").normpath(im["attrs"]["path"])).lower().replace("_", "-").strip()), set()).add(im["attrs"]["path"])
    if any(len(v) > 1 for v in norm.values()):
        out.add("near-equal-paths")
    bypath = {}
    for im in D["images"]:
        bypath.setdefault(im["attrs"]["path"], []).append(im)
    if any(len(v) > 1 for v in bypath.values()):
        out.add("same-path-other-cell")
    ids = {}
    for im in D["images"]:
        k = model_identity(im["attrs"])
        if k in ids:
            out.add("identity-equal-same-checksums")
        ids[k] = 1
    return sorted(out)


# ---- builder ---------------------------------------------------------------

def fill_compose(compose, c):
    compose.id = c["id"]
    compose.type = c["type"]
    compose.date = c["date"]
    compose.respin = c["respin"]
    compose.label = c["label"]
    compose.final = c["final"]


def make_image(pm, parent, a):
    img = pm.Image(parent)
    for k in ATTRS:
        v = a[k]
        if isinstance(v, dict):
            v = dict(v)
        elif isinstance(v, list):
            v = list(v)
        setattr(img, k, v)
    return img


def build(pm, D, rng=None):
    """pm: productmd.images module."""
    im = pm.Images()
    fill_compose(im.compose, D["compose"])
    ops = []
    for i, spec in enumerate(D["images"]):
        obj = make_image(pm, im, spec["attrs"])
        for (v, a) in spec["cells"]:
            ops.append((v, a, obj))
    if rng is not None:
        rng.shuffle(ops)
    for v, a, obj in ops:
        im.add(v, a, obj)
    # an add the manifest refuses (same identity, other checksums; into a cell of its own) changes nothing - the caller
    # catches the error and carries on
    if D["images"] and D.get("refused_add", True):
        rival = dict(D["images"][0]["attrs"])
        rival["checksums"] = {"md5": "0" * 31 + "f"} if D["images"][0]["attrs"]["checksums"] != {"md5": "0" * 31 + "f"} else {"md5": "1" * 32}
        rival["path"] = "refused/" + rival["path"]
        try:
            im.add("RefusedVariant", "x86_64", make_image(pm, im, rival))
            raise AssertionError("a colliding add was accepted (C09's subject)")
        except ValueError:
            pass
    return im


# ---- model -----------------------------------------------------------------

def expected_cells(D):
    """(variant, arch) -> {path: 15-attribute dict}."""
    out = {}
    for spec in D["images"]:
        for (v, a) in spec["cells"]:
            out.setdefault((v, a), {})[spec["attrs"]["path"]] = norm_attrs(spec["attrs"])
    return out


def norm_attrs(a):
    d = dict((k, a[k]) for k in ATTRS)
    d["checksums"] = dict(a["checksums"])
    d["additional_variants"] = list(a["additional_variants"]) if a["unified"] else []
    return d


def expected_compose(c):
    return {"id": c["id"], "type": c["type"], "date": c["date"], "respin": c["respin"],
            "label": c["label"] or None, "final": bool(c["final"]) if c["label"] else False}


def doc_problems(D, parsed):
    """Independent reading of the written JSON against D."""
    probs = []
    try:
        hdr = parsed["header"]
        if hdr.get("type") != "productmd.images" or hdr.get("version") != domains.CURRENT_VERSION:
            probs.append("header is %r" % (hdr,))
        comp = parsed["payload"]["compose"]
        exp = expected_compose(D["compose"])
        for k in ("id", "type", "date", "respin"):
            if comp.get(k) != exp[k]:
                probs.append("compose.%s: expected %r, found %r" % (k, exp[k], comp.get(k)))
        if exp["label"] and (comp.get("label") != exp["label"] or comp.get("final") != exp["final"]):
            probs.append("compose label/final: %r/%r" % (comp.get("label"), comp.get("final")))
        payload = parsed["payload"]["images"]
    except Exception as e:
        return ["document shape: %s: %s" % (type(e).__name__, e)]
    exp = expected_cells(D)
    seen = set()
    for v, arches in payload.items():
        for a, lst in arches.items():
            cell = exp.get((v, a))
            if cell is None:
                if lst:
                    probs.append("cell %s/%s: %d images gained" % (v, a, len(lst)))
                continue
            seen.add((v, a))
            if len(lst) != len(cell):
                probs.append("cell %s/%s: %d images written, %d expected" % (v, a, len(lst), len(cell)))
            for d in lst:
                e = cell.get(d.get("path"))
                if e is None:
                    probs.append("cell %s/%s: unexpected image %r" % (v, a, d.get("path")))
                    continue
                for k in ATTRS:
                    if k in ("unified", "additional_variants"):
                        if e["unified"]:
                            if d.get(k) != e[k]:
                                probs.append("%s/%s/%s: %s expected %r, found %r" % (v, a, e["path"], k, e[k], d.get(k)))
                        continue
                    if k not in d:
                        probs.append("%s/%s/%s: %s missing" % (v, a, e["path"], k))
                    elif d[k] != e[k] or type(d[k]) is not type(e[k]):
                        probs.append("%s/%s/%s: %s expected %r, found %r" % (v, a, e["path"], k, e[k], d[k]))
    for c in exp:
        if c not in seen and exp[c]:
            probs.append("cell %s/%s: missing (%d images lost)" % (c[0], c[1], len(exp[c])))
    return probs[:12]


# ---- observation -----------------------------------------------------------

def observe_image(img):
    d = {}
    for k in ATTRS:
        v = getattr(img, k)
        if isinstance(v, dict):
            v = dict(v)
        elif isinstance(v, list):
            v = list(v)
        d[k] = v
    return d


def observe(im):
    """(cells, compose, problems): cells = (variant, arch) -> {path: attrs}."""
    cells = {}
    problems = []
    for v, arches in im.images.items():
        for a, objs in arches.items():
            cell = cells.setdefault((v, a), {})
            for o in objs:
                d = observe_image(o)
                if d["path"] in cell:
                    problems.append("cell %s/%s holds two images with path %r" % (v, a, d["path"]))
                cell[d["path"]] = d
    c = im.compose
    comp = {"id": c.id, "type": c.type, "date": c.date, "respin": c.respin, "label": c.label, "final": c.final}
    return cells, comp, problems


def diff_cells(exp, obs):
    out = []
    for c in sorted(set(exp) | set(obs)):
        e, o = exp.get(c, {}), obs.get(c, {})
        if not e and not o:
            continue
        for p in sorted(set(e) | set(o)):
            if p not in o:
                out.append("%s/%s: image %r lost" % (c[0], c[1], p))
            elif p not in e:
                out.append("%s/%s: image %r gained" % (c[0], c[1], p))
            else:
                for k in ATTRS:
                    if e[p][k] != o[p][k] or type(e[p][k]) is not type(o[p][k]):
                        out.append("%s/%s/%s: %s expected %r, observed %r" % (c[0], c[1], p, k, e[p][k], o[p][k]))
    return out[:12]
