"""Dispatcher over the seven metadata formats: generate a valid description,
build the library object from it (public API), create an empty object."""
import random

from rv import fmt_composeinfo as FC
from rv import fmt_images as FI
from rv import fmt_manifests as FM
from rv import fmt_treeinfo as FT
from rv.model import domains

FORMATS = ["composeinfo", "images", "rpms", "modules", "extra_files", "treeinfo", "discinfo"]
HEADER_TYPE = {"composeinfo": "productmd.composeinfo", "images": "productmd.images", "rpms": "productmd.rpms",
               "modules": "productmd.modules", "extra_files": "productmd.extra_files", "treeinfo": "productmd.treeinfo"}
MANIFEST_KIND = {"rpms": "rpms", "modules": "modules", "extra_files": "extra"}


def modules():
    import productmd.composeinfo
    import productmd.images
    import productmd.rpms
    import productmd.modules
    import productmd.extra_files
    import productmd.treeinfo
    import productmd.discinfo
    return {"composeinfo": productmd.composeinfo, "images": productmd.images, "rpms": productmd.rpms,
            "modules": productmd.modules, "extra_files": productmd.extra_files, "treeinfo": productmd.treeinfo,
            "discinfo": productmd.discinfo}


def new_object(pms, fmt):
    cls = {"composeinfo": "ComposeInfo", "images": "Images", "rpms": "Rpms", "modules": "Modules",
           "extra_files": "ExtraFiles", "treeinfo": "TreeInfo", "discinfo": "DiscInfo"}[fmt]
    return getattr(pms[fmt], cls)()


def gen_manifest(rng, kind, n=None, hostile=True):
    n = n or rng.choice([1, 2, 3, 5, 8, 13])
    ops = []
    pool = [FM.gen_source_package(rng, i) for i in range(rng.randint(1, 4))] if kind == "rpms" else None
    for i in range(n):
        if kind == "rpms":
            ops.append(FM.gen_rpms_op(rng, pool))
        elif kind == "modules":
            op = FM.gen_modules_op(rng)
            if ops and rng.random() < 0.4:
                prev = rng.choice(ops)
                for k in ("variant", "arch", "uid"):
                    op["args"][k] = prev["args"][k]
                op["meta"]["uid_parts"] = prev["meta"]["uid_parts"]
            ops.append(op)
        else:
            ops.append(FM.gen_extra_op(rng))
    comp = FC.gen_compose(rng, hostile=hostile)
    if comp["id"] == "<create>":
        comp["id"] = "X-1-%s%s.%d" % (comp["date"], domains.COMPOSE_TYPE_SUFFIX[comp["type"]], comp["respin"] % 100)
    return {"kind": kind, "ops": ops, "compose": comp}


def gen(fmt, rng, force=None, hostile=True):
    if fmt == "composeinfo":
        return FC.gen_description(rng, force, hostile=hostile)
    if fmt == "images":
        return FI.gen_description(rng, force, hostile=hostile)
    if fmt in MANIFEST_KIND:
        return gen_manifest(rng, MANIFEST_KIND[fmt], hostile=hostile)
    if fmt == "treeinfo":
        return FT.gen_description(rng, force, hostile=hostile)
    if fmt == "discinfo":
        return FT.gen_discinfo(rng, force)
    raise KeyError(fmt)


def build(pms, fmt, D, order_seed=None):
    rng = random.Random(order_seed) if order_seed is not None else None
    if fmt == "composeinfo":
        return FC.build(pms[fmt], D, rng)
    if fmt == "images":
        return FI.build(pms[fmt], D, rng)
    if fmt in MANIFEST_KIND:
        kind = MANIFEST_KIND[fmt]
        obj = new_object(pms, fmt)
        FM.fill_compose(obj.compose, c=D["compose"])
        ops = list(D["ops"])
        if rng is not None:
            ops = riffle(ops, kind, rng)
        for op in ops:
            FM.apply_real(obj, op)
        return obj
    if fmt == "treeinfo":
        return FT.build(pms[fmt], D, rng)
    if fmt == "discinfo":
        return FT.build_discinfo(pms[fmt], D)
    raise KeyError(fmt)


def op_key(kind, op):
    a = op["args"]
    if kind == "rpms":
        m = op["meta"]
        return (a["variant"], a["arch"], FM.canon(m["srpm_parts"] or m["nevra_parts"]), FM.canon(m["nevra_parts"]))
    if kind == "modules":
        return (a["variant"], a["arch"], a["uid"])
    return (a["variant"], a["arch"])


def riffle(ops, kind, rng):
    """Random interleaving that keeps the relative order of operations addressing the SAME key
    (there the last writer wins / lists are extended in call order: order is content)."""
    marks = [rng.random() for _ in ops]
    groups = {}
    for i, op in enumerate(ops):
        groups.setdefault(op_key(kind, op), []).append(i)
    for idxs in groups.values():
        vals = sorted(marks[i] for i in idxs)
        for i, v in zip(idxs, vals):
            marks[i] = v
    return [ops[i] for i in sorted(range(len(ops)), key=lambda i: marks[i])]


def shuffle_keys(obj, rng):
    """Same JSON value with a random key order in every object (key order in a file is arbitrary)."""
    if isinstance(obj, dict):
        items = list(obj.items())
        rng.shuffle(items)
        return dict((k, shuffle_keys(v, rng)) for k, v in items)
    if isinstance(obj, list):
        return [shuffle_keys(v, rng) for v in obj]
    return obj


def entry_point_problems(pms, fmt, obj, t1, tmpdir, main_variant=None):
    """dump(path) / dump(file object) / dumps() write the same bytes; load(path) / load(file object) / loads() read the
    same object (compared through their dumps()).  Returns a list of problems."""
    import os
    probs = []
    path = os.path.join(tmpdir, "entry-%s" % fmt)
    try:
        with open(path, "w") as f:
            obj.dump(f)
        with open(path) as f:
            via_fileobj = f.read()
        if via_fileobj != t1:
            probs.append("dump(file object) bytes differ from dumps()")
        # a destination that already exists and is LONGER than what is written now
        with open(path, "w") as f:
            f.write(t1 + "\n# stale tail of an earlier, longer file\n" * 3)
        if main_variant is not None:
            obj.dump(path, main_variant=main_variant)
        else:
            obj.dump(path)
        with open(path) as f:
            over = f.read()
        if over != t1:
            probs.append("dump(path) over an existing longer file leaves %d bytes instead of %d" % (len(over), len(t1)))
        a = new_object(pms, fmt)
        with open(path) as f:
            a.load(f)
        b = new_object(pms, fmt)
        b.load(path)
        c = new_object(pms, fmt)
        c.loads(t1)
        ta, tb, tc = a.dumps(), b.dumps(), c.dumps()
        if not (ta == tb == tc):
            probs.append("load(file object) / load(path) / loads() give different objects (their dumps differ)")
        # the same through paths spelled relative to the working directory, with './', '//' and '..'
        cwd = os.getcwd()
        os.chdir(tmpdir)
        try:
            os.makedirs("rel-sub", exist_ok=True)
            rel = "./rel-sub//entry-rel-%s" % fmt
            if main_variant is not None:
                obj.dump(rel, main_variant=main_variant)
            else:
                obj.dump(rel)
            with open(os.path.join(tmpdir, "rel-sub", "entry-rel-%s" % fmt)) as f:
                if f.read() != t1:
                    probs.append("dump(relative path) bytes differ from dumps()")
            d = new_object(pms, fmt)
            d.load("rel-sub/../rel-sub/entry-rel-%s" % fmt)
            if d.dumps() != tc:
                probs.append("load(relative path) gives a different object")
        finally:
            os.chdir(cwd)
            try:
                os.unlink(os.path.join(tmpdir, "rel-sub", "entry-rel-%s" % fmt))
            except OSError:
                pass
            try:
                os.rmdir(os.path.join(tmpdir, "rel-sub"))
            except OSError:
                pass
    except Exception as e:
        probs.append("entry points raised %s: %s" % (type(e).__name__, str(e)[:150]))
    finally:
        try:
            os.unlink(path)
        except OSError:
            pass
    return probs
