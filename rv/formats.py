"""Dispatcher over the seven metadata formats: generate a valid description,
build the library object from it (public API), create an empty object."""
import random

from rv import fmt_composeinfo as FC
from rv import fmt_images as FI
from rv import fmt_manifests as FM
from rv import fmt_treeinfo as FT
from rv.model import domains

FORMATS = ["composeinfo", "images", "rpms", "modules", "extra_files", "treeinfo", "discinfo"]
HEADER_TYPE = {"composeinfo": "productmd.composeinfo", "images": "productmd.images", "rpms": "productmd.rpms",
               "modules": "productmd.modules", "extra_files": "productmd.extra_files", "treeinfo": "productmd.treeinfo"}
MANIFEST_KIND = {"rpms": "rpms", "modules": "modules", "extra_files": "extra"}


def modules():
    import productmd.composeinfo
    import productmd.images
    import productmd.rpms
    import productmd.modules
    import productmd.extra_files
    import productmd.treeinfo
    import productmd.discinfo
    return {"composeinfo": productmd.composeinfo, "images": productmd.images, "rpms": productmd.rpms,
            "modules": productmd.modules, "extra_files": productmd.extra_files, "treeinfo": productmd.treeinfo,
            "discinfo": productmd.discinfo}


def new_object(pms, fmt):
    cls = {"composeinfo": "ComposeInfo", "images": "Images", "rpms": "Rpms", "modules": "Modules",
           "extra_files": "ExtraFiles", "treeinfo": "TreeInfo", "discinfo": "DiscInfo"}[fmt]
    return getattr(pms[fmt], cls)()


def gen_manifest(rng, kind, n=None, hostile=True):
    n = n or rng.choice([1, 2, 3, 5, 8, 13])
    ops = []
    pool = [FM.gen_source_package(rng, i) for i in range(rng.randint(1, 4))] if kind == "rpms" else None
    for i in range(n):
        if kind == "rpms":
            ops.append(FM.gen_rpms_op(rng, pool))
        elif kind == "modules":
            op = FM.gen_modules_op(rng)
            if ops and rng.random() < 0.4:
                prev = rng.choice(ops)
                for k in ("variant", "arch", "uid"):
                    op["args"][k] = prev["args"][k]
                op["meta"]["uid_parts"] = prev["meta"]["uid_parts"]
            ops.append(op)
        else:
            ops.append(FM.gen_extra_op(rng))
    comp = FC.gen_compose(rng, hostile=hostile)
    if comp["id"] == "<create>":
        comp["id"] = "X-1-%s%s.%d" % (comp["date"], domains.COMPOSE_TYPE_SUFFIX[comp["type"]], comp["respin"] % 100)
    return {"kind": kind, "ops": ops, "compose": comp}


def gen(fmt, rng, force=None, hostile=True):
    D = _gen(fmt, rng, force, hostile)
    if force is None and rng.random() < 0.08:
        equalise(fmt, D, rng)
    return D


def _gen(fmt, rng, force=None, hostile=True):
    if fmt == "composeinfo":
        return FC.gen_description(rng, force, hostile=hostile)
    if fmt == "images":
        return FI.gen_description(rng, force, hostile=hostile)
    if fmt in MANIFEST_KIND:
        return gen_manifest(rng, MANIFEST_KIND[fmt], hostile=hostile)
    if fmt == "treeinfo":
        return FT.gen_description(rng, force, hostile=hostile)
    if fmt == "discinfo":
        return FT.gen_discinfo(rng, force)
    raise KeyError(fmt)


def equalise(fmt, D, rng):
    """Makes two independent fields of a valid description carry EQUAL values (random data almost never does): code that
    special-cases 'same as the other one' - omits a value equal to a default or to a sibling, de-duplicates, keys a table by
    a value that need not be unique - only shows on such content.  Touches free-text fields only (no ids, no UIDs)."""
    if fmt == "composeinfo":
        nodes = list(FC.iter_nodes(D["variants"]))
        op = rng.choice(["bp-equals-release", "names-equal", "name-equals-id", "paths-equal", "name-equals-release-name"])
        if op == "bp-equals-release" and D["base_product"]:
            for k in ("name", "short", "version", "type"):
                D["base_product"][k] = D["release"][k]
        elif op == "names-equal" and len(nodes) > 1:
            for n in nodes:
                n["name"] = nodes[0]["name"]
        elif op == "name-equals-id":
            for n in nodes:
                n["name"] = n["id"]
        elif op == "paths-equal":
            for n in nodes:
                vals = [p for t in n["paths"].values() for p in t.values() if p]
                if vals:
                    for t in n["paths"].values():
                        for a in t:
                            if t[a]:
                                t[a] = vals[0]
        elif op == "name-equals-release-name" and D["release"]["name"]:
            for n in nodes:
                n["name"] = D["release"]["name"]
    elif fmt == "treeinfo":
        nodes = list(FT.iter_nodes(D["variants"]))
        op = rng.choice(["bp-equals-release", "names-equal", "paths-equal-in-variant", "paths-equal-across-variants", "image-tables-equal",
                         "checksums-equal", "stage2-equal"])
        if op == "bp-equals-release" and D["base_product"]:
            for k in ("name", "short", "version"):
                D["base_product"][k] = D["release"][k]
        elif op == "names-equal":
            for n in nodes:
                n["name"] = nodes[0]["name"]
        elif op == "paths-equal-in-variant":
            for n in nodes:
                vals = [p for p in n["paths"].values() if p]
                if vals:
                    for k in n["paths"]:
                        if n["paths"][k]:
                            n["paths"][k] = vals[0]
        elif op == "paths-equal-across-variants" and len(nodes) > 1:
            for n in nodes[1:]:
                n["paths"] = dict(nodes[0]["paths"])
        elif op == "image-tables-equal" and D["images"]:
            first = D["images"][sorted(D["images"])[0]]
            for p in D["images"]:
                D["images"][p] = dict(first)
        elif op == "checksums-equal" and D["checksums"]:
            first = D["checksums"][sorted(D["checksums"])[0]]
            for p in D["checksums"]:
                D["checksums"][p] = list(first)
        elif op == "stage2-equal" and D["stage2"]["mainimage"]:
            D["stage2"]["instimage"] = D["stage2"]["mainimage"]
    elif fmt == "images" and D["images"]:
        op = rng.choice(["numbers-equal", "subvariant-equals-variant", "volume-id-equals-path", "all-text-equal"])
        first = D["images"][0]["attrs"]
        for im in D["images"][1:] if op in ("numbers-equal", "all-text-equal") else []:
            a = im["attrs"]
            a["mtime"], a["size"] = first["mtime"], first["size"]
            if op == "all-text-equal":
                a["volume_id"], a["implant_md5"], a["bootable"] = first["volume_id"], first["implant_md5"], first["bootable"]
        if op == "subvariant-equals-variant":
            # (changes identity attributes consistently: keep the documented uniqueness by leaving rivals alone)
            pass
        elif op == "volume-id-equals-path":
            for im in D["images"]:
                im["attrs"]["volume_id"] = im["attrs"]["path"]
    elif fmt in MANIFEST_KIND and D["ops"]:
        kind = MANIFEST_KIND[fmt]
        first = D["ops"][0]["args"]
        for op_ in D["ops"][1:]:
            a = op_["args"]
            if kind == "rpms":
                a["path"], a["sigkey"] = first["path"], first["sigkey"]            # two packages recorded at one path
            elif kind == "modules":
                a["koji_tag"], a["modulemd_path"] = first["koji_tag"], first["modulemd_path"]
            else:
                a["size"], a["checksums"] = first["size"], dict(first["checksums"])
    elif fmt == "discinfo":
        D["description"] = D["arch"]


def build(pms, fmt, D, order_seed=None):
    rng = random.Random(order_seed) if order_seed is not None else None
    if fmt == "composeinfo":
        return FC.build(pms[fmt], D, rng)
    if fmt == "images":
        return FI.build(pms[fmt], D, rng)
    if fmt in MANIFEST_KIND:
        kind = MANIFEST_KIND[fmt]
        obj = new_object(pms, fmt)
        FM.fill_compose(obj.compose, c=D["compose"])
        ops = list(D["ops"])
        if rng is not None:
            ops = riffle(ops, kind, rng)
        for op in ops:
            FM.apply_real(obj, op)
        return obj
    if fmt == "treeinfo":
        return FT.build(pms[fmt], D, rng)
    if fmt == "discinfo":
        return FT.build_discinfo(pms[fmt], D)
    raise KeyError(fmt)


def op_key(kind, op):
    a = op["args"]
    if kind == "rpms":
        m = op["meta"]
        return (a["variant"], a["arch"], FM.canon(m["srpm_parts"] or m["nevra_parts"]), FM.canon(m["nevra_parts"]))
    if kind == "modules":
        return (a["variant"], a["arch"], a["uid"])
    return (a["variant"], a["arch"])


def riffle(ops, kind, rng):
    """Random interleaving that keeps the relative order of operations addressing the SAME key
    (there the last writer wins / lists are extended in call order: order is content)."""
    marks = [rng.random() for _ in ops]
    groups = {}
    for i, op in enumerate(ops):
        groups.setdefault(op_key(kind, op), []).append(i)
    for idxs in groups.values():
        vals = sorted(marks[i] for i in idxs)
        for i, v in zip(idxs, vals):
            marks[i] = v
    return [ops[i] for i in sorted(range(len(ops)), key=lambda i: marks[i])]


def shuffle_keys(obj, rng):
    """Same JSON value with a random key order in every object (key order in a file is arbitrary)."""
    if isinstance(obj, dict):
        items = list(obj.items())
        rng.shuffle(items)
        return dict((k, shuffle_keys(v, rng)) for k, v in items)
    if isinstance(obj, list):
        return [shuffle_keys(v, rng) for v in obj]
    return obj


def entry_point_problems(pms, fmt, obj, t1, tmpdir, main_variant=None):
    """dump(path) / dump(file object) / dumps() write the same bytes; load(path) / load(file object) / loads() read the
    same object (compared through their dumps()).  Returns a list of problems."""
    import os
    probs = []
    path = os.path.join(tmpdir, "entry-%s" % fmt)
    try:
        with open(path, "w") as f:
            obj.dump(f)
        with open(path) as f:
            via_fileobj = f.read()
        if via_fileobj != t1:
            probs.append("dump(file object) bytes differ from dumps()")
        # a destination that already exists and is LONGER than what is written now
        with open(path, "w") as f:
            f.write(t1 + "\n# stale tail of an earlier, longer file\n" * 3)
        if main_variant is not None:
            obj.dump(path, main_variant=main_variant)
        else:
            obj.dump(path)
        with open(path) as f:
            over = f.read()
        if over != t1:
            probs.append("dump(path) over an existing longer file leaves %d bytes instead of %d" % (len(over), len(t1)))
        a = new_object(pms, fmt)
        with open(path) as f:
            a.load(f)
        b = new_object(pms, fmt)
        b.load(path)
        c = new_object(pms, fmt)
        c.loads(t1)
        ta, tb, tc = a.dumps(), b.dumps(), c.dumps()
        if not (ta == tb == tc):
            probs.append("load(file object) / load(path) / loads() give different objects (their dumps differ)")
        # the same through paths spelled relative to the working directory, with './', '//' and '..'
        cwd = os.getcwd()
        os.chdir(tmpdir)
        try:
            os.makedirs("rel-sub", exist_ok=True)
            rel = "./rel-sub//entry-rel-%s" % fmt
            if main_variant is not None:
                obj.dump(rel, main_variant=main_variant)
            else:
                obj.dump(rel)
            with open(os.path.join(tmpdir, "rel-sub", "entry-rel-%s" % fmt)) as f:
                if f.read() != t1:
                    probs.append("dump(relative path) bytes differ from dumps()")
            d = new_object(pms, fmt)
            d.load("rel-sub/../rel-sub/entry-rel-%s" % fmt)
            if d.dumps() != tc:
                probs.append("load(relative path) gives a different object")
        finally:
            os.chdir(cwd)
            try:
                os.unlink(os.path.join(tmpdir, "rel-sub", "entry-rel-%s" % fmt))
            except OSError:
                pass
            try:
                os.rmdir(os.path.join(tmpdir, "rel-sub"))
            except OSError:
                pass
        probs.extend(_compose_entry_point(pms, fmt, t1, tc, tmpdir))
    except Exception as e:
        probs.append("entry points raised %s: %s" % (type(e).__name__, str(e)[:150]))
    finally:
        try:
            os.unlink(path)
        except OSError:
            pass
    return probs


_COMPOSE_ACCESSOR = {"composeinfo": ("info", "composeinfo.json"), "images": ("images", "images.json"), "rpms": ("rpms", "rpms.json"),
                     "modules": ("modules", "modules.json")}
_compose_calls = [0]


def _compose_entry_point(pms, fmt, t1, tc, tmpdir):
    """The fourth way to read a manifest: productmd.compose.Compose(<dir>).<accessor>.  The directory is the SAME for every
    case of a shard and the file is rewritten in place - every third call with a text of the same size whose modification
    time is set back to that of the text read just before (what `rsync -t` / `cp -p` leave behind)."""
    import os
    import re
    import shutil
    if fmt not in _COMPOSE_ACCESSOR:
        return []
    acc, fname = _COMPOSE_ACCESSOR[fmt]
    import productmd.compose
    root = os.path.join(tmpdir, "compose-entry-%s" % fmt)
    md = os.path.join(root, "compose", "metadata")
    os.makedirs(md, exist_ok=True)
    fpath = os.path.join(md, fname)
    out = []
    try:
        with open(fpath, "w") as f:
            f.write(t1)
        got = getattr(productmd.compose.Compose(root), acc).dumps()
        if got != tc:
            out.append("Compose(dir).%s gives a different object than loads()" % acc)
        _compose_calls[0] += 1
        m = re.search(r'"respin": \d*?(\d)\b', t1)
        if not out and m and _compose_calls[0] % 3 == 0:
            st = os.stat(fpath)
            twin = t1[:m.start(1)] + str((int(m.group(1)) + 1) % 10) + t1[m.end(1):]
            with open(fpath, "r+") as f:
                f.write(twin)
            os.utime(fpath, ns=(st.st_atime_ns, st.st_mtime_ns))
            want = new_object(pms, fmt)
            want.loads(twin)
            got = getattr(productmd.compose.Compose(root), acc).dumps()
            if got != want.dumps():
                out.append("Compose(dir).%s after the file was rewritten in place (same size, same mtime) does not give the file's content" % acc)
    finally:
        shutil.rmtree(root, ignore_errors=True)
    return out
