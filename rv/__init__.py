"""Runtime-verification harness for productmd (see /verif/DESIGN.md)."""
