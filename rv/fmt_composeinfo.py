"""composeinfo: description generator, builder (public API only), reference
model of the written document, normalisation and observation.

A description D is plain data:

  {"release": {name, short, version, type, is_layered, internal},
   "base_product": {name, short, version, type} | None,
   "compose": {id | "<create>", type, date, respin, label, final},
   "variants": [V, ...]}
  V = {id, uid, name, type, arches[list], paths{category:{arch:path}},
       release{...}|None, children[V...]}

Nothing in the model half (expected_doc / normalise) touches productmd.
"""
from rv.gen import text
from rv.model import domains

ARCH_POOL = ["x86_64", "i386", "aarch64", "ppc64le", "s390x", "armhfp", "ppc64", "ia64", "src", "noarch", "riscv64"]


# --------------------------------------------------------------------------
# generator
# --------------------------------------------------------------------------

def gen_release(rng, layered=None, hostile=True):
    vk = rng.random()
    if vk < 0.45:
        version = text.numeric_version(rng)
    elif vk < 0.7:
        version = str(rng.randint(0, 40))
    else:
        version = text.freeform_version(rng)
    name = text.pretty_name(rng, hostile=hostile)
    if hostile and rng.random() < 0.1:
        name = rng.choice(["", " lead", "trail ", "two\nlines", "tab\there", "\"quoted\"", "back\\slash", " sep", "nul\u0000x"])
    return {
        "name": name,
        "short": rng.choice(["F", "RHEL", "rhel", "Fedora", "MYPRODUCT", "my-prod", text.word(rng, 1, 6), ""]) if hostile
        else rng.choice(["F", "RHEL", "Fedora", text.word(rng, 1, 6)]),
        "version": version,
        "type": rng.choice(domains.RELEASE_TYPES),
        "is_layered": (rng.random() < 0.35) if layered is None else layered,
        "internal": rng.random() < 0.3,
    }


def gen_label(rng, name=None):
    name = name or rng.choice(domains.LABEL_NAMES)
    return "%s-%d.%d" % (name, rng.choice([0, 1, 2, 10, rng.randint(0, 999)]), rng.choice([0, 1, 9, 12, rng.randint(0, 999)]))


def gen_compose(rng, ctype=None, label="random", hostile=True):
    date = "%04d%02d%02d" % (rng.randint(1999, 2035), rng.randint(1, 12), rng.randint(1, 28))
    if rng.random() < 0.2:
        date = "%08d" % rng.randint(0, 99999999)
    ctype = ctype or rng.choice(domains.COMPOSE_TYPES)
    respin = rng.choice([0, 0, 1, 2, 9, 10, 123, 10 ** 6, 2 ** 31, 2 ** 63 + 1, rng.randint(0, 10 ** 5)])
    if label == "random":
        lab = gen_label(rng) if rng.random() < 0.5 else None
    elif label is None:
        lab = None
    else:
        lab = gen_label(rng, label)
    r = rng.random()
    if not hostile:
        r = r * 0.6 if rng.random() < 0.7 else 0.7
    if r < 0.6:
        cid = "<create>"
    elif not hostile:
        cid = "%s-%s-%s%s.%d" % (text.word(rng, 1, 5), rng.choice(["1", "7.2", "Rawhide"]), date,
                                 rng.choice(["", ".n", ".t", ".ci", ".d", ".nightly", ".test"]), rng.randint(0, 20))
    elif r < 0.8:
        cid = "%s-%s" % (text.word(rng, 1, 5), date) + rng.choice(["", ".n", ".t.1", ".0", ".d.2", " free text", "é"])
    else:
        cid = rng.choice(["x", "", "Fedora ", "id-"]) + "%08d" % rng.randint(0, 99999999) + rng.choice(["", ".", ".x.y", "\ttab", "\nline"])
    return {"id": cid, "type": ctype, "date": date, "respin": respin, "label": lab, "final": rng.random() < 0.5}


def gen_variant_id(rng, used):
    for _ in range(100):
        vid = rng.choice(["Server", "Client", "Workstation", "optional", "HighAvailability", "Tools", "A", "B", "C", "D",
                          "x1", "0", "9lives", text.chars(rng, text.ALNUM, 1, 6)])
        if vid not in used:
            used.add(vid)
            return vid
    raise RuntimeError("id pool exhausted")


def gen_paths(rng, arches, density=None, with_dropped=True):
    paths = {}
    density = rng.choice([0.0, 0.2, 0.5, 1.0]) if density is None else density
    for cat in domains.COMPOSE_PATH_CATEGORIES:
        if rng.random() >= density:
            continue
        table = {}
        for arch in arches:
            if rng.random() < 0.8:
                table[arch] = text.rel_path(rng)
            elif with_dropped and rng.random() < 0.5:
                table[arch] = ""          # documented normalisation: empty paths are not stored
        if with_dropped and rng.random() < 0.15:
            foreign = rng.choice([a for a in ARCH_POOL + ["src", "noarch"] if a not in arches])
            table[foreign] = text.rel_path(rng)   # documented normalisation: foreign-arch paths are not stored
        paths[cat] = table
    return paths


def gen_variant(rng, parent, used_ids, depth, budget, vtype=None, hostile=True):
    vid = gen_variant_id(rng, used_ids)
    if parent is None:
        arches = sorted(rng.sample(ARCH_POOL, rng.randint(1, 4)))
        uid = vid
    else:
        k = rng.randint(1, len(parent["arches"]))
        arches = sorted(rng.sample(parent["arches"], k))
        uid = "%s-%s" % (parent["uid"], vid)
    vtype = vtype or rng.choice(domains.VARIANT_TYPES)
    name = text.pretty_name(rng, hostile=hostile)
    v = {"id": vid, "uid": uid, "name": name, "type": vtype, "arches": arches,
         "paths": gen_paths(rng, arches), "release": None, "children": []}
    if vtype == "layered-product":
        v["release"] = gen_release(rng, layered=True)
        # a variant's release is always written as layered
    budget[0] -= 1
    if depth < 3:
        child_ids = set()
        while budget[0] > 0 and rng.random() < (0.55 if depth == 1 else 0.4):
            v["children"].append(gen_variant(rng, v, child_ids, depth + 1, budget, hostile=hostile))
    return v


def gen_description(rng, force=None, hostile=True):
    layered = None
    if force == "layered":
        layered = True
    elif force == "not-layered":
        layered = False
    rel = gen_release(rng, layered, hostile=hostile)
    if force and force.startswith("rtype-"):
        rel["type"] = force[6:]
    if force == "internal":
        rel["internal"] = True
    if force == "version-freeform":
        rel["version"] = text.freeform_version(rng)
    if force == "version-dotted":
        rel["version"] = text.numeric_version(rng, 3)
    bp = None
    if rel["is_layered"] or force == "bp-set-not-layered" or rng.random() < 0.05:
        bp = {"name": text.pretty_name(rng, hostile=hostile), "short": rng.choice(["RHEL", "F", text.word(rng, 1, 5)]),
              "version": rng.choice([text.numeric_version(rng), "7", text.freeform_version(rng)]),
              "type": rng.choice(domains.RELEASE_TYPES)}
        if force == "bp-set-not-layered":
            rel["is_layered"] = False
    label = "random"
    if force and force.startswith("label-"):
        label = force[6:]
        if label == "none":
            label = None
    ctype = force[6:] if force and force.startswith("ctype-") else None
    comp = gen_compose(rng, ctype, label, hostile=hostile)
    if force == "final-true":
        comp["final"] = True
        if comp["label"] is None:
            comp["label"] = gen_label(rng)
    if force == "final-without-label":
        comp["final"] = True
        comp["label"] = None
    if force == "id-created":
        comp["id"] = "<create>"
    # forest
    budget = [rng.randint(1, 8)]
    if force == "depth-3-narrowing":
        force = "depth-3"
    if force in ("depth-3", "all-variant-types"):
        budget = [rng.randint(5, 8)]
    if force == "no-variants":
        budget = [0]
    used = set()
    variants = []
    while budget[0] > 0:
        variants.append(gen_variant(rng, None, used, 1, budget, hostile=hostile))
    if force == "many-variants" or (force is None and rng.random() < 0.06):
        # ten and more siblings with numbered ids: 'V10' sorts before 'V9' as text, '10' before '9'
        stem = rng.choice(["V", "", "Layer", "v0"])
        ids = ["%s%d" % (stem, k) for k in range(1, rng.randint(10, 14))]
        rng.shuffle(ids)
        host = None
        if rng.random() < 0.5 and variants:
            host = variants[0]             # ... as children of one variant
        for vid in ids:
            if host is None and (vid in used or vid in [n["uid"] for n in iter_nodes(variants)]):
                continue
            if host is not None and (vid in [c["id"] for c in host["children"]] or
                                     "%s-%s" % (host["uid"], vid) in [n["uid"] for n in iter_nodes(variants)]):
                continue
            arches = sorted(rng.sample(host["arches"], rng.randint(1, len(host["arches"])))) if host else \
                sorted(rng.sample(ARCH_POOL, rng.randint(1, 3)))
            node = {"id": vid, "uid": vid if host is None else "%s-%s" % (host["uid"], vid), "name": text.pretty_name(rng, hostile=hostile),
                    "type": "variant" if host is None else rng.choice(["addon", "optional"]), "arches": arches,
                    "paths": gen_paths(rng, arches), "release": None, "children": []}
            if host is None:
                used.add(vid)
                variants.append(node)
            else:
                host["children"].append(node)
    if force == "depth-3":
        # make sure a chain of depth 3 exists
        top = variants[0]
        if not top["children"]:
            top["children"].append(gen_variant(rng, top, set(), 2, [1], hostile=hostile))
        mid = top["children"][0]
        if not mid["children"]:
            mid["children"].append(gen_variant(rng, mid, set(c["id"] for c in mid["children"]), 3, [1], hostile=hostile))
    if force == "all-variant-types":
        nodes = list(iter_nodes(variants))
        for i, t in enumerate(domains.VARIANT_TYPES):
            if i < len(nodes):
                set_type(rng, nodes[i], t)
    if force == "layered-product-variant" and variants:
        set_type(rng, rng.choice(list(iter_nodes(variants))), "layered-product")
    if force == "dashed-top-uid" or (variants and rng.random() < 0.15):
        # documented case: uid "Server-Tools", id "ServerTools", on a childless top-level variant
        cands = [v for v in variants if not v["children"]]
        if force == "dashed-top-uid" and not cands:
            extra = gen_variant(rng, None, used, 3, [1], hostile=hostile)
            variants.append(extra)
            cands = [extra]
        if cands:
            v = rng.choice(cands)
            a, b = text.word(rng, 1, 5), text.word(rng, 1, 5)
            a = "".join(ch for ch in a if ch.isalnum()) or "A"
            b = "".join(ch for ch in b if ch.isalnum()) or "B"
            if (a + b) not in used:
                used.discard(v["id"])
                v["id"], v["uid"] = a + b, a + "-" + b
                used.add(v["id"])
    if force == "dashed-top-with-children" or (force is None and variants and rng.random() < 0.06):
        # the same, on a top-level variant that HAS children: every descendant UID carries the dashed prefix
        cands = [v for v in variants if v["children"] and "-" not in v["uid"]]
        if not cands and force == "dashed-top-with-children":
            top = gen_variant(rng, None, used, 3, [1], hostile=hostile)
            top["children"].append(gen_variant(rng, top, set(), 3, [1], hostile=hostile))
            variants.append(top)
            cands = [top]
        if cands:
            v = rng.choice(cands)
            a, b = rng.choice(["Server", "Work", "Q", "Layer1"]), rng.choice(["Tools", "Extras", "Z", "9"])
            all_uids = set(n["uid"] for n in iter_nodes(variants))
            if (a + b) not in used and (a + "-" + b) not in all_uids and a not in all_uids and \
                    not any(u.startswith(a + "-" + b + "-") for u in all_uids):
                used.discard(v["id"])
                old = v["uid"]
                v["id"], v["uid"] = a + b, a + "-" + b
                used.add(v["id"])
                for n in iter_nodes(v["children"]):
                    n["uid"] = v["uid"] + n["uid"][len(old):]
    if force == "dashed-top-prefix-of-sibling" or (variants and rng.random() < 0.08):
        # an INDEPENDENT top-level variant whose UID is <another top-level UID>-<something> (id without the dash), e.g.
        # 'Foo' next to 'Foo-Bar' (id 'FooBar'): only the explicit child lists tell it apart from a child of 'Foo'
        sibs = [v for v in variants if "-" not in v["uid"]]
        if sibs:
            sib = rng.choice(sibs)
            tail = rng.choice(["Bar", "Tools", "X", "9"])
            vid, uid = sib["id"] + tail, sib["uid"] + "-" + tail
            all_uids = set(n["uid"] for n in iter_nodes(variants))
            if vid not in used and uid not in all_uids and tail not in [c["id"] for c in sib["children"]]:
                arches = sorted(rng.sample(ARCH_POOL, rng.randint(1, 3)))
                variants.append({"id": vid, "uid": uid, "name": text.pretty_name(rng, hostile=hostile), "type": rng.choice(["variant", "optional", "addon"]),
                                 "arches": arches, "paths": gen_paths(rng, arches), "release": None, "children": []})
                used.add(vid)
    if force == "paths-full" and variants:
        v = rng.choice(list(iter_nodes(variants)))
        v["paths"] = gen_paths(rng, v["arches"], density=1.0, with_dropped=False)
    if force == "paths-dropped" and variants:
        v = rng.choice(list(iter_nodes(variants)))
        v["paths"] = gen_paths(rng, v["arches"], density=1.0, with_dropped=True)
        cat = rng.choice(domains.COMPOSE_PATH_CATEGORIES)
        v["paths"].setdefault(cat, {})[v["arches"][0]] = ""
        v["paths"].setdefault(rng.choice(domains.COMPOSE_PATH_CATEGORIES), {})["sparc"] = "foreign/arch/path"
    return {"release": rel, "base_product": bp, "compose": comp, "variants": variants}


def set_type(rng, v, t):
    v["type"] = t
    v["release"] = gen_release(rng, layered=True) if t == "layered-product" else None


def iter_nodes(variants):
    for v in variants:
        yield v
        for x in iter_nodes(v["children"]):
            yield x


def depth_of(variants):
    return 0 if not variants else 1 + max(depth_of(v["children"]) for v in variants)


def classes_of(D):
    out = []
    rel, comp = D["release"], D["compose"]
    out.append("rtype-" + rel["type"])
    out.append("layered" if rel["is_layered"] else "not-layered")
    if rel["internal"]:
        out.append("internal")
    if D["base_product"] and not rel["is_layered"]:
        out.append("bp-set-not-layered")
    out.append("version-freeform" if not rel["version"][:1].isdigit() else
               "version-dotted" if "." in rel["version"] else "version-plain")
    out.append("ctype-" + comp["type"])
    out.append("label-" + (comp["label"].split("-")[0] if comp["label"] else "none"))
    if comp["final"] and comp["label"]:
        out.append("final-true")
    if comp["final"] and not comp["label"]:
        out.append("final-without-label")
    if comp["id"] == "<create>":
        out.append("id-created")
    if any("-" in v["uid"] and v["children"] for v in D["variants"]):
        out.append("dashed-top-with-children")
    nodes = list(iter_nodes(D["variants"]))
    if len(D["variants"]) >= 10 or any(len(n["children"]) >= 10 for n in nodes):
        out.append("many-variants")
    if not nodes:
        out.append("no-variants")
    d = depth_of(D["variants"])
    if d >= 3:
        out.append("depth-3")
    elif d == 2:
        out.append("depth-2")
    types = set(v["type"] for v in nodes)
    if len(types) == 4:
        out.append("all-variant-types")
    for t in types:
        out.append("vtype-" + t)
    if "layered-product" in types:
        out.append("layered-product-variant")
    if any("-" in v["uid"] and v["uid"].replace("-", "") == v["id"] for v in D["variants"]):
        out.append("dashed-top-uid")
    tops = set(v["uid"] for v in D["variants"])
    if any("-" in v["uid"] and v["uid"].rsplit("-", 1)[0] in tops for v in D["variants"]):
        out.append("dashed-top-prefix-of-sibling")
    ncat = 0
    dropped = False
    for v in nodes:
        for cat, table in v["paths"].items():
            ncat += 1
            for arch, p in table.items():
                if not p or arch not in v["arches"]:
                    dropped = True
        if len(v["paths"]) == 14:
            out.append("paths-full")
        if any(len(set(c["arches"])) < len(set(v["arches"])) for c in v["children"]):
            out.append("child-arch-strict-subset")
    if dropped:
        out.append("paths-dropped")
    if ncat == 0:
        out.append("no-paths")
    return sorted(set(out))


# --------------------------------------------------------------------------
# builder: description -> productmd objects, public API only
# --------------------------------------------------------------------------

def build(pm, D, rng=None):
    """pm: productmd.composeinfo module.  rng shuffles the construction order."""
    ci = pm.ComposeInfo()
    steps = []

    def set_release():
        fill_release(ci.release, D["release"])

    def set_bp():
        bp = D["base_product"]
        if bp is not None:
            ci.base_product.name = bp["name"]
            ci.base_product.short = bp["short"]
            ci.base_product.version = bp["version"]
            ci.base_product.type = bp["type"]

    def set_compose():
        c = D["compose"]
        ci.compose.type = c["type"]
        ci.compose.date = c["date"]
        ci.compose.respin = c["respin"]
        ci.compose.label = c["label"]
        ci.compose.final = c["final"]

    def set_variants():
        order = list(D["variants"])
        if rng is not None:
            rng.shuffle(order)
        for v in order:
            build_variant(pm, ci, ci.variants, None, v, rng)

    steps = [set_release, set_bp, set_compose, set_variants]
    if rng is not None:
        rng.shuffle(steps)
    for s in steps:
        s()
    if D["compose"]["id"] == "<create>":
        ci.compose.id = ci.create_compose_id()
    else:
        ci.compose.id = D["compose"]["id"]
    return ci


def fill_release(rel, d):
    rel.name = d["name"]
    rel.short = d["short"]
    rel.version = d["version"]
    rel.type = d["type"]
    rel.is_layered = d["is_layered"]
    rel.internal = d["internal"]


def build_variant(pm, ci, container, parent_obj, v, rng):
    var = pm.Variant(ci)
    var.id = v["id"]
    var.uid = v["uid"]
    var.name = v["name"]
    var.type = v["type"]
    arches = list(v["arches"])
    if rng is not None:
        rng.shuffle(arches)
    var.arches = set(arches)

    def fill_paths():
        cats = list(v["paths"].items())
        if rng is not None:
            rng.shuffle(cats)
        for cat, table in cats:
            items = list(table.items())
            if rng is not None:
                rng.shuffle(items)
            for arch, p in items:
                getattr(var.paths, cat)[arch] = p

    def fill_rel():
        if v["release"] is not None:
            fill_release(var.release, v["release"])

    def add_children():
        kids = list(v["children"])
        if rng is not None:
            rng.shuffle(kids)
        for c in kids:
            build_variant(pm, ci, var, var, c, rng)

    def attach():
        container.add(var)

    children_first = rng is not None and rng.random() < 0.5
    if children_first:
        # children validate their UID against parent.uid, which is already set
        steps = [fill_paths, fill_rel, add_children]
        rng.shuffle(steps)
        steps.append(attach)
    else:
        steps = [fill_paths, fill_rel, attach]
        if rng is not None:
            rng.shuffle(steps)
        steps.append(add_children)
    for s in steps:
        s()
    return var


# --------------------------------------------------------------------------
# reference model: normalisation, expected document, expected observation
# --------------------------------------------------------------------------

def model_compose_id(D):
    """The id the documented scheme yields (used only to resolve "<create>" for
    the expected observation; C15 checks the scheme itself)."""
    return None


def norm_paths(v):
    out = {}
    for cat, table in v["paths"].items():
        kept = dict((a, p) for a, p in table.items() if p and a in v["arches"])
        if kept:
            out[cat] = kept
    return out


def norm_release(r, variant=False):
    d = {"name": r["name"], "short": r["short"], "version": r["version"], "type": r["type"],
         "is_layered": True if variant else bool(r["is_layered"]), "internal": bool(r["internal"])}
    return d


def expected_obs(D, compose_id):
    """What a reader of the written file must see (documented normalisations applied)."""
    rel = norm_release(D["release"])
    if rel["is_layered"] and D["base_product"]:
        bp = dict(D["base_product"])
    else:
        bp = {"name": None, "short": None, "version": None, "type": None}
    c = D["compose"]
    comp = {"id": compose_id, "type": c["type"], "date": c["date"], "respin": c["respin"],
            "label": c["label"] or None, "final": bool(c["final"]) if c["label"] else False}

    def node(v, parent_uid):
        return {"id": v["id"], "uid": v["uid"], "name": v["name"], "type": v["type"], "arches": sorted(v["arches"]),
                "paths": norm_paths(v), "parent": parent_uid,
                "release": norm_release(v["release"], variant=True) if v["type"] == "layered-product" else None,
                "children": sorted((node(ch, v["uid"]) for ch in v["children"]), key=lambda n: n["id"])}
    return {"release": rel, "base_product": bp, "compose": comp,
            "variants": sorted((node(v, None) for v in D["variants"]), key=lambda n: n["id"])}


def expected_doc(D, compose_id):
    """Documented file content (doc/composeinfo-1.1.rst + 1.2 additions): every
    key/value listed here must be present at that place in the written JSON."""
    E = expected_obs(D, compose_id)
    payload = {}
    comp = dict((k, E["compose"][k]) for k in ("id", "type", "date", "respin"))
    if E["compose"]["label"]:
        comp["label"] = E["compose"]["label"]
        comp["final"] = E["compose"]["final"]
    payload["compose"] = comp
    rel = dict((k, E["release"][k]) for k in ("name", "short", "version", "type", "internal"))
    if E["release"]["is_layered"]:
        rel["is_layered"] = True
        payload["base_product"] = dict(E["base_product"])
    payload["release"] = rel
    variants = {}

    def emit(n):
        d = {"id": n["id"], "uid": n["uid"], "name": n["name"], "type": n["type"], "arches": n["arches"],
             "paths": n["paths"]}
        if n["release"] is not None:
            r = dict((k, n["release"][k]) for k in ("name", "short", "version", "type", "internal"))
            r["is_layered"] = True
            d["release"] = r
        if n["children"]:
            d["variants"] = sorted(ch["id"] for ch in n["children"])
        variants[n["uid"]] = d
        for ch in n["children"]:
            emit(ch)
    for n in E["variants"]:
        emit(n)
    payload["variants"] = variants
    return {"header": {"type": "productmd.composeinfo", "version": domains.CURRENT_VERSION}, "payload": payload}


ABSENT_WHEN = "absences judged: compose.label/final without a label; base_product when not layered"


def doc_contains(expected, actual, path=""):
    """Every key/value of `expected` is present in `actual` (extra keys are
    tolerated except inside the variants table, the paths tables and lists).
    Returns a list of difference strings."""
    diffs = []
    if isinstance(expected, dict):
        if not isinstance(actual, dict):
            return ["%s: expected object, found %r" % (path, actual)]
        exact = path.endswith("/variants") and path.count("/variants") == 1 or "/paths" in path
        for k, v in expected.items():
            if k not in actual:
                diffs.append("%s/%s: missing" % (path, k))
            else:
                diffs.extend(doc_contains(v, actual[k], "%s/%s" % (path, k)))
        if exact:
            for k in actual:
                if k not in expected:
                    diffs.append("%s/%s: unexpected entry" % (path, k))
        return diffs
    if expected != actual or type(expected) is not type(actual):
        diffs.append("%s: expected %r, found %r" % (path, expected, actual))
    return diffs


# --------------------------------------------------------------------------
# observation of a live object through its public attributes
# --------------------------------------------------------------------------

def observe(ci):
    def rel(r):
        return {"name": r.name, "short": r.short, "version": r.version, "type": r.type,
                "is_layered": r.is_layered, "internal": r.internal}

    def node(v, container_parent):
        paths = {}
        for cat in domains.COMPOSE_PATH_CATEGORIES:
            table = getattr(v.paths, cat)
            if table:
                paths[cat] = dict(table)
        par = v.parent
        return {"id": v.id, "uid": v.uid, "name": v.name, "type": v.type, "arches": sorted(v.arches),
                "paths": paths, "parent": None if par is None else par.uid,
                "release": rel(v.release) if v.type == "layered-product" else None,
                "children": sorted((node(ch, v) for ch in v.variants.values()), key=lambda n: n["id"]),
                "_parent_is_container": (par is container_parent),
                "_key_matches": None}

    bp = ci.base_product
    c = ci.compose
    out = {"release": rel(ci.release),
           "base_product": {"name": bp.name, "short": bp.short, "version": bp.version, "type": bp.type},
           "compose": {"id": c.id, "type": c.type, "date": c.date, "respin": c.respin, "label": c.label, "final": c.final},
           "variants": sorted((node(v, None) for v in ci.variants.variants.values()), key=lambda n: n["id"])}
    structural = []

    def strip(n, key_ok=True):
        if not n.pop("_parent_is_container"):
            structural.append("variant %s: .parent is not the container that holds it" % n["uid"])
        n.pop("_key_matches")
        for ch in n["children"]:
            strip(ch)
    for n in out["variants"]:
        strip(n)
    # container keys
    def keys(container, top):
        for k, v in container.variants.items():
            if k != v.id and not (top and k == v.uid):
                structural.append("container key %r does not match variant id %r" % (k, v.id))
            keys(v, False)
    keys(ci.variants, True)
    return out, structural


def diff(a, b, path=""):
    """Readable differences between two observations."""
    out = []
    if isinstance(a, dict) and isinstance(b, dict):
        for k in sorted(set(a) | set(b), key=str):
            if k not in a:
                out.append("%s/%s: only in observed" % (path, k))
            elif k not in b:
                out.append("%s/%s: missing in observed" % (path, k))
            else:
                out.extend(diff(a[k], b[k], "%s/%s" % (path, k)))
    elif isinstance(a, list) and isinstance(b, list):
        if len(a) != len(b):
            out.append("%s: length %d expected, %d observed" % (path, len(a), len(b)))
        for i, (x, y) in enumerate(zip(a, b)):
            out.extend(diff(x, y, "%s[%d]" % (path, i)))
    else:
        if a != b or type(a) is not type(b):
            out.append("%s: expected %r, observed %r" % (path, a, b))
    return out[:12]
