"""Documented enumerations and value domains, kept as the harness's own copy.

Sources: doc/*.rst, the attribute docstrings, and the enumerations quoted in
/verif/properties.jsonl.  The library's tables are *compared against* these
(C06 converse), never used to build expectations.
"""

# productmd/common.py header comment: synced from dnf's _BASEARCH_MAP plus
# arm64, src, nosrc for backwards compatibility.
RPM_ARCHES = [
    "aarch64", "alpha", "alphaev4", "alphaev45", "alphaev5", "alphaev56", "alphaev6", "alphaev67", "alphaev68",
    "alphaev7", "alphapca56", "amd64", "arm64", "armhfp", "armv5tejl", "armv5tel", "armv5tl", "armv6hl",
    "armv6l", "armv7hl", "armv7hnl", "armv7l", "armv8hl", "armv8l", "athlon", "geode", "i386", "i486", "i586",
    "i686", "ia32e", "ia64", "loongarch64", "mips", "mips64", "mips64el", "mipsel", "ppc", "ppc64",
    "ppc64iseries", "ppc64le", "ppc64p7", "ppc64pseries", "riscv128", "riscv32", "riscv64", "s390", "s390x",
    "sh3", "sh4", "sh4a", "sparc", "sparc64", "sparc64v", "sparcv8", "sparcv9", "sparcv9v", "x86_64",
    "src", "nosrc", "noarch",
]
SOURCE_ARCHES = ["src", "nosrc"]
BINARY_ARCHES = [a for a in RPM_ARCHES if a not in SOURCE_ARCHES]

RELEASE_TYPES = ["fast", "ga", "updates", "updates-testing", "eus", "aus", "els", "tus", "e4s"]
COMPOSE_TYPES = ["test", "ci", "nightly", "production", "development"]
COMPOSE_TYPE_SUFFIX = {"production": "", "nightly": ".n", "test": ".t", "ci": ".ci", "development": ".d"}
# decoder spellings documented in C15's statement
COMPOSE_SUFFIX_DECODE = {"": "production", ".n": "nightly", ".nightly": "nightly", ".t": "test",
                         ".test": "test", ".ci": "ci", ".d": "development"}
LABEL_NAMES = ["EA", "DevelPhaseExit", "InternalAlpha", "Alpha", "InternalSnapshot", "Beta", "Snapshot",
               "RC", "Update", "SecurityFix"]
VARIANT_TYPES = ["variant", "optional", "addon", "layered-product"]
TREE_VARIANT_TYPES = ["variant", "optional", "addon"]

COMPOSE_PATH_CATEGORIES = [
    "os_tree", "packages", "repository", "isos", "images", "jigdos",
    "source_tree", "source_packages", "source_repository", "source_isos", "source_jigdos",
    "debug_tree", "debug_packages", "debug_repository",
]
TREE_PATH_KINDS = ["packages", "repository", "source_packages", "source_repository",
                   "debug_packages", "debug_repository", "identity"]

# doc/images-1.1.rst + productmd.images docstrings (type -> formats)
IMAGE_TYPE_FORMATS = {
    'appx': ['appx'], 'boot': ['iso'], 'cd': ['iso'], 'docker': ['tar.gz', 'tar.xz'], 'dvd': ['iso'],
    'dvd-debuginfo': ['iso'], 'dvd-ostree': ['iso'], 'dvd-ostree-osbuild': ['iso'], 'ec2': [], 'kvm': [],
    'live': [], 'live-osbuild': ['iso'], 'liveimg-squashfs': ['liveimg.squashfs'], 'netinst': ['iso'],
    'ociarchive': ['ociarchive'], 'p2v': [], 'qcow': ['qcow'], 'qcow2': ['qcow2'], 'raw': ['raw'],
    'raw-xz': ['raw.xz'], 'rescue': [], 'rhevm-ova': ['rhevm.ova'], 'tar-gz': ['tar.gz'],
    'vagrant-hyperv': ['vagrant-hyperv.box'], 'vagrant-libvirt': ['vagrant-libvirt.box'],
    'vagrant-virtualbox': ['vagrant-virtualbox.box'], 'vagrant-vmware-fusion': ['vagrant-vmware-fusion.box'],
    'vdi': ['vdi'], 'vmdk': ['vmdk'], 'vpc': ['vhd'], 'vhd-compressed': ['vhd.gz', 'vhd.xz'],
    'vsphere-ova': ['vsphere.ova'],
    'fex': ['erofs.xz', 'erofs.gz', 'erofs', 'squashfs.xz', 'squashfs.gz', 'squashfs'],
}
IMAGE_TYPES = sorted(IMAGE_TYPE_FORMATS)
IMAGE_FORMATS = sorted(set(f for fs in IMAGE_TYPE_FORMATS.values() for f in fs))
RPM_CATEGORIES = ["binary", "debug", "source"]
IDENTITY_ATTRS = ["subvariant", "type", "format", "arch", "disc_number", "unified", "additional_variants"]
CURRENT_VERSION = "1.2"
