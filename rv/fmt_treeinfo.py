"""treeinfo / discinfo: description generator, builder, independent INI line
reader, reference model and observation.

  D = {"release": {name, short, version, is_layered}, "base_product": {...}|None,
       "tree": {arch, build_timestamp, platforms[list]},
       "variants": [V...],  V = {id, uid, name, type, paths{kind: str}, children[V...]},
       "images": {platform: {name: path}}, "stage2": {mainimage, instimage},
       "media": {discnum, totaldiscs}|None, "checksums": {path: [type, value]}}
"""
import posixpath

from rv.gen import text
from rv.model import domains

PLATFORMS = ["x86_64", "xen", "i386", "ppc64le", "aarch64", "s390x", "ppc", "ia64", "uboot", "efi_64"]
TREE_ARCHES = ["x86_64", "i386", "aarch64", "ppc64le", "s390x", "ppc", "armhfp"]
HEX = "0123456789abcdef"
HOSTILE_MID = ["%", "%%", "%(x)s", "%(name)s", "=", ":", "#", ";", "[", "]", "\t", " = ", ": ", "$", "${x}", "\"", "'",
               "é", "日本", "100%", "a;b", "a #b", "\\"]


# --------------------------------------------------------------------------
# independent INI line reader (deliberately not configparser)
# --------------------------------------------------------------------------

def read_ini(textin):
    """Returns (sections, order): sections = {name: {key: value}}, order = [(section, [keys in file order])].
    [section] headers; 'key = value' split at the first '=' or ':'; lines starting with blank
    continue the previous value; '#' / ';' lines are comments."""
    sections = {}
    order = []
    cur = None
    last = None
    for raw in textin.split("\n"):
        line = raw.rstrip("\r")
        if not line.strip():
            last = None
            continue
        if line[0] in " \t" and cur is not None and last is not None:
            sections[cur][last] += "\n" + line.strip()
            continue
        s = line.strip()
        if s[0] in "#;":
            continue
        if s[0] == "[" and s[-1] == "]":
            cur = s[1:-1]
            sections.setdefault(cur, {})
            order.append((cur, []))
            last = None
            continue
        idx = min([i for i in (s.find("="), s.find(":")) if i >= 0] or [-1])
        if idx < 0 or cur is None:
            raise ValueError("unparsable line: %r" % line)
        key, val = s[:idx].strip(), s[idx + 1:].strip()
        sections[cur][key] = val
        order[-1][1].append(key)
        last = key
    return sections, order


# --------------------------------------------------------------------------
# generator
# --------------------------------------------------------------------------

def representable_value(s):
    return isinstance(s, str) and "\n" not in s and "\r" not in s and s == s.strip() and \
        all(ch not in s for ch in "\x0b\x0c\x1c\x1d\x1e\x85  ")


def representable_option(s):
    return (representable_value(s) and s != "" and "=" not in s and ":" not in s and s[0] not in "#;[" and
            not s.lower().startswith("rem "))


def tvalue(rng, hostile=True):
    r = rng.random()
    if r < 0.5 or not hostile:
        s = text.pretty_name(rng)
    elif r < 0.85:
        s = text.word(rng, 1, 4) + rng.choice(HOSTILE_MID) + text.word(rng, 1, 4)
    else:
        s = rng.choice(HOSTILE_MID).strip() + text.word(rng, 0, 3) + rng.choice(HOSTILE_MID).strip()
    s = s.strip()
    if not representable_value(s):
        s = text.word(rng)
    return s


def tversion(rng, hostile=True):
    r = rng.random()
    if r < 0.6:
        return text.numeric_version(rng)
    if r < 0.8 or not hostile:
        return rng.choice(["Rawhide", "rawhide", "development", "x"])
    return rng.choice(["Rawhide", "beta"]) + rng.choice(["%", " 1", ".2", "=3", ":4", "%(short)s"])


def tpath(rng, hostile=True):
    p = text.rel_path(rng)
    if hostile and rng.random() < 0.25:
        p = p + rng.choice(["%", "%20x", " (1)", "=x", ":y", "#z", ";w", "é"])
    if rng.random() < 0.05:
        p = "."
    elif rng.random() < 0.1:
        # spellings a path normaliser would rewrite: the library records paths verbatim
        p = rng.choice([p + "/", "./" + p, p.replace("/", "//", 1) if "/" in p else p + "//", p + "/../" + p, p + "/."])
    return p


def option_name(rng, kind):
    if kind == "image":
        s = rng.choice(["boot.iso", "kernel", "initrd", "upgrade", "efiboot.img", "Kernel", "BOOT.ISO", "initrd.IMG",
                        "macboot.img", "product.img", "x y", "a%b", "ramdisk", "zimage", text.word(rng)])
    else:
        s = rng.choice(["images/boot.iso", "images/pxeboot/vmlinuz", "repodata/repomd.xml", "LiveOS/squashfs.img",
                        "Images/Boot.ISO", "images/efiboot.img", "a b/c", "x%y/z", text.rel_path(rng)])
    return s


def gen_variant(rng, parent, used, depth, budget, top_types=("variant", "variant", "optional"), hostile=True):
    for _ in range(50):
        vid = rng.choice(["Server", "Client", "Workstation", "optional", "HighAvailability", "ResilientStorage", "Tools",
                          "AppStream", "BaseOS", "A", "B", text.chars(rng, text.ALNUM, 1, 6)])
        if vid not in used:
            break
    used.add(vid)
    if parent is None:
        vtype = rng.choice(top_types)
        uid = vid
    else:
        vtype = rng.choice(domains.TREE_VARIANT_TYPES)
        uid = "%s-%s" % (parent["uid"], vid)
    paths = {}
    dens = rng.choice([0.0, 0.3, 0.6, 1.0])
    for k in domains.TREE_PATH_KINDS:
        if rng.random() < dens:
            paths[k] = tpath(rng, hostile)
    v = {"id": vid, "uid": uid, "name": tvalue(rng, hostile), "type": vtype, "paths": paths, "children": []}
    budget[0] -= 1
    if depth < 3:
        kids = set()
        while budget[0] > 0 and rng.random() < (0.5 if depth == 1 else 0.4):
            v["children"].append(gen_variant(rng, v, kids, depth + 1, budget, hostile=hostile))
    return v


def gen_description(rng, force=None, hostile=True, child_types=None):
    arch = rng.choice(TREE_ARCHES)
    if force == "src-tree":
        arch = "src"
    elif rng.random() < 0.12:
        arch = "src"
    layered = rng.random() < 0.3 or force == "layered"
    rel = {"name": tvalue(rng, hostile), "short": rng.choice(["F", "RHEL", "Fedora", text.word(rng, 1, 5), tvalue(rng, hostile)]),
           "version": tversion(rng, hostile), "is_layered": layered}
    if force == "name-carries-version" or rng.random() < 0.06:
        # 'CentOS Stream 9' / '9', 'openSUSE Leap 15.1' / '15.1': the release name already ends with the version
        rel["name"] = rng.choice(["CentOS Stream", "openSUSE Leap", "X", rel["name"]]) + " " + rel["version"]
    bp = None
    if layered:
        bp = {"name": tvalue(rng, hostile), "short": rng.choice(["RHEL", "F", text.word(rng, 1, 5)]), "version": tversion(rng, hostile)}
    ts = rng.choice([1, 123456, 1386857206, 1417653911, 2 ** 31 - 1, 2 ** 31, 2 ** 32 + 5, 2 ** 53 - 1, -1, -1386857206,
                     rng.randint(1, 2 ** 40), 2 ** 53 + 1, 1758880000123456789, 2 ** 63 + 12345, -(2 ** 53 + 1)])
    nplat = rng.choice([0, 0, 1, 2, 3])
    if force == "several-platforms":
        nplat = rng.choice([2, 3, 4])
    platforms = rng.sample(PLATFORMS, nplat)
    if rng.random() < 0.5 and arch not in platforms and arch in PLATFORMS:
        platforms.append(arch)
    legacy_like = None
    if force == "platform-named-like-legacy-section" or (force is None and rng.random() < 0.05):
        # platforms are free-form names: 'xen-<tree arch>' next to 'xen' (pre-productmd files spelled the SECTION of platform
        # 'xen' as [images-xen-<arch>]; in a current file it is a platform of its own)
        base = rng.choice(["xen", "uboot", "kvm"])
        legacy_like = "%s-%s" % (base, arch)
        for pl in (legacy_like, base) if rng.random() < 0.7 else (legacy_like,):
            if pl not in platforms:
                platforms.append(pl)
    # variants
    budget = [rng.randint(1, 6)]
    if force in ("depth-3", "child-every-type"):
        budget = [rng.randint(4, 7)]
    if force == "single-variant":
        budget = [1]
    used = set()
    variants = []
    ntop = 0
    while budget[0] > 0 and ntop < 3:
        variants.append(gen_variant(rng, None, used, 1, budget, hostile=hostile))
        ntop += 1
    if force == "many-variants" or (force is None and rng.random() < 0.06):
        stem = rng.choice(["V", "", "Layer", "v0"])
        ids = ["%s%d" % (stem, k) for k in range(1, rng.randint(10, 14))]
        rng.shuffle(ids)
        host = variants[0] if rng.random() < 0.5 else None
        taken = set(x["uid"] for x in iter_nodes(variants))
        for vid in ids:
            uid = vid if host is None else "%s-%s" % (host["uid"], vid)
            if uid in taken or (host is None and vid in used) or (host is not None and vid in [c["id"] for c in host["children"]]):
                continue
            taken.add(uid)
            paths = dict((k, tpath(rng, hostile)) for k in domains.TREE_PATH_KINDS if rng.random() < 0.4)
            node = {"id": vid, "uid": uid, "name": tvalue(rng, hostile), "type": "variant" if host is None else rng.choice(domains.TREE_VARIANT_TYPES),
                    "paths": paths, "children": []}
            if host is None:
                used.add(vid)
                variants.append(node)
            else:
                host["children"].append(node)
    if force == "depth-3":
        top = variants[0]
        if not top["children"]:
            top["children"].append(gen_variant(rng, top, set(), 2, [1], hostile=hostile))
        mid = top["children"][0]
        if not mid["children"]:
            mid["children"].append(gen_variant(rng, mid, set(), 3, [1], hostile=hostile))
    if force == "child-every-type":
        top = variants[0]
        ids = set(c["id"] for c in top["children"])
        while len(top["children"]) < 3:
            top["children"].append(gen_variant(rng, top, ids, 3, [1], hostile=hostile))
        for c, t in zip(top["children"], domains.TREE_VARIANT_TYPES):
            c["type"] = t
    if child_types is not None:
        for v in iter_nodes(variants):
            for c in v["children"]:
                c["type"] = rng.choice(child_types)
    if force == "dashed-top-optional" or rng.random() < 0.12:
        cands = [v for v in variants if not v["children"]]
        if not cands and force == "dashed-top-optional":
            cands = [gen_variant(rng, None, used, 3, [1], hostile=hostile)]
            variants.append(cands[0])
        if cands:
            v = rng.choice(cands)
            base = rng.choice(["Server", "Client", "Workstation", "X"])
            if base + "-optional" not in [x["uid"] for x in iter_nodes(variants)]:
                v["id"], v["uid"], v["type"] = "optional", base + "-optional", "optional"
    if force == "two-dashed-top-optionals" or (force is None and rng.random() < 0.05):
        # several '$variant-optional' trees merged: top-level variants that SHARE the id 'optional' and differ in UID
        for base in rng.sample(["Server", "Client", "Workstation", "X"], 2):
            uid = base + "-optional"
            if uid in [x["uid"] for x in iter_nodes(variants)]:
                continue
            paths = dict((k, tpath(rng, hostile)) for k in domains.TREE_PATH_KINDS if rng.random() < 0.4)
            variants.append({"id": "optional", "uid": uid, "name": tvalue(rng, hostile), "type": "optional", "paths": paths, "children": []})
    if force == "dashed-top-variant":
        cands = [v for v in variants if not v["children"] and "-" not in v["uid"]]
        if not cands:
            cands = [gen_variant(rng, None, used, 3, [1], hostile=hostile)]
            variants.append(cands[0])
        v = cands[0]
        a = rng.choice(["Server", "Workstation", "Q"])
        b = rng.choice(["Tools", "Extras", "Z"])
        if a + "-" + b not in [x["uid"] for x in iter_nodes(variants)] and a + b not in [x["uid"] for x in variants]:
            v["id"], v["uid"], v["type"] = a + b, a + "-" + b, "variant"
    if force == "dashed-top-with-children" or (force is None and rng.random() < 0.06):
        cands = [v for v in variants if v["children"] and "-" not in v["uid"]]
        if not cands and force == "dashed-top-with-children":
            top = gen_variant(rng, None, used, 3, [1], hostile=hostile)
            top["children"].append(gen_variant(rng, top, set(), 3, [1], hostile=hostile))
            variants.append(top)
            cands = [top]
        if cands:
            v = rng.choice(cands)
            a, b = rng.choice(["Server", "Work", "Q"]), rng.choice(["optional", "Tools", "Z"])
            all_uids = set(x["uid"] for x in iter_nodes(variants))
            if a + "-" + b not in all_uids and a not in all_uids and not any(u.startswith(a + "-" + b + "-") for u in all_uids) \
                    and (b if b == "optional" else a + b) not in [x["id"] for x in variants]:
                old = v["uid"]
                v["uid"] = a + "-" + b
                v["id"], v["type"] = ("optional", "optional") if b == "optional" else (a + b, "variant")
                for n in iter_nodes(v["children"]):
                    n["uid"] = v["uid"] + n["uid"][len(old):]
    if force == "paths-all":
        v = rng.choice(list(iter_nodes(variants)))
        v["paths"] = dict((k, tpath(rng, hostile)) for k in domains.TREE_PATH_KINDS)
    if force == "paths-none":
        for v in iter_nodes(variants):
            v["paths"] = {}
    if force == "path-empty-string":
        v = rng.choice(list(iter_nodes(variants)))
        v["paths"][rng.choice(domains.TREE_PATH_KINDS)] = ""
    # images
    images = {}
    if platforms and (rng.random() < 0.6 or force in ("images", "mixed-case-options")):
        for p in rng.sample(platforms, rng.randint(1, len(platforms))):
            table = {}
            for _ in range(rng.randint(1, 4)):
                name = option_name(rng, "image")
                if representable_option(name):
                    table[name] = tpath(rng, hostile)
            if force == "mixed-case-options":
                table["kernel"] = "images/pxeboot/vmlinuz"
                table["Kernel"] = "images/pxeboot/VMLINUZ"
                table["KERNEL"] = "images/other"
            if table:
                images[p] = table
    if legacy_like is not None:
        for pl in platforms:
            if pl == legacy_like or legacy_like.startswith(pl + "-"):
                images[pl] = {"kernel": "images/%s/vmlinuz" % pl, "initrd": "images/%s/initrd.img" % pl}
    stage2 = {"mainimage": None, "instimage": None}
    if rng.random() < 0.4 or force == "stage2":
        stage2["mainimage"] = rng.choice(["LiveOS/squashfs.img", "images/install.img", tpath(rng, hostile)])
        if rng.random() < 0.4:
            stage2["instimage"] = rng.choice(["images/inst.img", tpath(rng, hostile)])
        if force == "stage2" and rng.random() < 0.3:
            stage2 = {"mainimage": None, "instimage": "images/only-inst.img"}
        elif rng.random() < 0.25:
            stage2["instimage"] = stage2["mainimage"]        # the obsolete key spelled out with the same image
    media = None
    if rng.random() < 0.3 or force == "media":
        total = rng.choice([1, 2, 3, 7, 10, 12, 100, 2 ** 31])
        media = {"discnum": rng.choice([1, total, rng.randint(1, total)]), "totaldiscs": total}
    checksums = {}
    if rng.random() < 0.5 or force in ("checksums", "mixed-case-options"):
        for _ in range(rng.choice([1, 2, 3, 5, 12, 20])):
            p = option_name(rng, "checksum")
            if representable_option(p) and posixpath.normpath(p) == p:
                t = rng.choice(["sha256", "md5", "sha1", "sha512", "sha384"])
                checksums[p] = [t, text.chars(rng, rng.choice([HEX, HEX, "0123456789ABCDEF", HEX + "ABCDEF"]), 32, 64)]
        if force == "mixed-case-options":
            checksums["images/boot.iso"] = ["sha256", "a" * 64]
            checksums["Images/Boot.iso"] = ["sha256", "b" * 64]
    checksums_direct = False
    if checksums and (force == "checksum-keys-as-spelled" or rng.random() < 0.2):
        # the table filled directly (not through add(), which normalises): two spellings of one file are two entries
        checksums_direct = True
        for p in list(checksums)[:2]:
            alt = rng.choice(["./" + p, p.replace("/", "//", 1) if "/" in p else "./" + p, "x/../" + p, p + "/"])
            if representable_option(alt):
                checksums[alt] = ["sha256", text.chars(rng, HEX, 64, 64)]
    return {"release": rel, "base_product": bp, "tree": {"arch": arch, "build_timestamp": ts, "platforms": platforms},
            "variants": variants, "images": images, "stage2": stage2, "media": media, "checksums": checksums,
            "checksums_direct": checksums_direct}


def iter_nodes(variants):
    for v in variants:
        yield v
        for x in iter_nodes(v["children"]):
            yield x


def depth_of(variants):
    return 0 if not variants else 1 + max(depth_of(v["children"]) for v in variants)


def classes_of(D):
    out = set()
    out.add("src-tree" if D["tree"]["arch"] == "src" else "binary-tree")
    out.add("layered" if D["release"]["is_layered"] else "not-layered")
    nodes = list(iter_nodes(D["variants"]))
    if len(D["variants"]) >= 10 or any(len(n["children"]) >= 10 for n in nodes):
        out.add("many-variants")
    if D["release"]["name"].endswith(" " + D["release"]["version"]):
        out.add("name-carries-version")
    if any("-" in v["uid"] and v["children"] for v in D["variants"]):
        out.add("dashed-top-with-children")
    if len([v for v in D["variants"] if v["id"] == "optional" and v["uid"] != "optional"]) >= 2:
        out.add("two-dashed-top-optionals")
    if D.get("media") and D["media"]["totaldiscs"] >= 10:
        out.add("media-ten-or-more")
    if len(D.get("checksums") or {}) >= 10:
        out.add("checksums-ten-or-more")
    if D.get("checksums_direct"):
        out.add("checksum-keys-as-spelled")
    if any(("-" in pl and pl.endswith("-" + D["tree"]["arch"])) for pl in D["images"]):
        out.add("platform-named-like-legacy-section")
    if len(D["variants"]) > 1:
        out.add("several-top-variants")
    else:
        out.add("single-top-variant")
    d = depth_of(D["variants"])
    if d >= 3:
        out.add("depth-3")
    if d >= 2:
        out.add("depth-2")
    for v in nodes:
        for c in v["children"]:
            out.add("child-type-" + c["type"])
        if len(v["paths"]) == 7:
            out.add("paths-all")
        if any(p == "" for p in v["paths"].values()):
            out.add("path-empty-string")
    if all(not v["paths"] for v in nodes):
        out.add("paths-none")
    for v in D["variants"]:
        if "-" in v["uid"]:
            out.add("dashed-top-optional" if v["type"] == "optional" else "dashed-top-variant")
    if len(set(D["tree"]["platforms"]) | set([D["tree"]["arch"]])) >= 3:
        out.add("several-platforms")
    if D["images"]:
        out.add("images")
        if len(D["images"]) > 1:
            out.add("images-several-platforms")
    names = [n for t in D["images"].values() for n in t] + list(D["checksums"])
    if len(set(n.lower() for n in names)) < len(set(names)):
        out.add("mixed-case-options")
    if D["stage2"]["mainimage"] or D["stage2"]["instimage"]:
        out.add("stage2")
    if D["media"]:
        out.add("media")
    if D["checksums"]:
        out.add("checksums")
    texts = [D["release"]["name"], D["release"]["short"], D["release"]["version"]] + [v["name"] for v in nodes] + \
        [p for v in nodes for p in v["paths"].values()] + [p for t in D["images"].values() for p in t.values()]
    if any("%" in t for t in texts):
        out.add("text-percent")
    if any(any(ch in t for ch in "=:#;[]") for t in texts):
        out.add("text-ini-punctuation")
    if any(any(ord(ch) > 127 for ch in t) for t in texts):
        out.add("text-non-ascii")
    if D["tree"]["build_timestamp"] < 0:
        out.add("timestamp-negative")
    if D["tree"]["build_timestamp"] >= 2 ** 31:
        out.add("timestamp-large")
    return sorted(out)


# --------------------------------------------------------------------------
# builder
# --------------------------------------------------------------------------

def build(pm, D, rng=None, use_checksums_add=False):
    """pm: productmd.treeinfo module."""
    ti = pm.TreeInfo()
    maker = ti
    if D.get("variants_made_for_another_tree"):
        # Variant(<tree>) only names the tree the object is made for; a tool that assembles a tree from the variants of
        # another one (a src tree from the binary tree's variants, or the other way round) adds them as they are
        maker = pm.TreeInfo()
        maker.tree.arch = "x86_64" if D["tree"]["arch"] == "src" else "src"

    def s_release():
        ti.release.name = D["release"]["name"]
        ti.release.short = D["release"]["short"]
        ti.release.version = D["release"]["version"]
        ti.release.is_layered = D["release"]["is_layered"]
        if D["base_product"]:
            ti.base_product.name = D["base_product"]["name"]
            ti.base_product.short = D["base_product"]["short"]
            ti.base_product.version = D["base_product"]["version"]

    def s_tree():
        ti.tree.arch = D["tree"]["arch"]
        ti.tree.build_timestamp = D["tree"]["build_timestamp"]
        pl = list(D["tree"]["platforms"])
        if rng is not None:
            rng.shuffle(pl)
        for p in pl:
            ti.tree.platforms.add(p)

    def s_variants():
        order = list(D["variants"])
        if rng is not None:
            rng.shuffle(order)
        for v in order:
            build_variant(pm, ti, None, v, rng, maker=maker)

    def s_images():
        items = list(D["images"].items())
        if rng is not None:
            rng.shuffle(items)
        for plat, table in items:
            t = list(table.items())
            if rng is not None:
                rng.shuffle(t)
            ti.images.images[plat] = {}
            for name, path in t:
                ti.images.images[plat][name] = path

    def s_stage2():
        ti.stage2.mainimage = D["stage2"]["mainimage"]
        ti.stage2.instimage = D["stage2"]["instimage"]

    def s_media():
        if D["media"]:
            ti.media.discnum = D["media"]["discnum"]
            ti.media.totaldiscs = D["media"]["totaldiscs"]

    def s_checksums():
        items = list(D["checksums"].items())
        if rng is not None:
            rng.shuffle(items)
        for path, (t, val) in items:
            if D.get("checksums_direct"):
                ti.checksums.checksums[path] = [t, val]        # the public table filled directly: keys are kept as spelled
            else:
                ti.checksums.add(path, t, val)

    steps = [s_release, s_tree, s_variants, s_images, s_stage2, s_media, s_checksums]
    if rng is not None:
        rng.shuffle(steps)
    for s in steps:
        s()
    return ti


def build_variant(pm, ti, parent_obj, v, rng, maker=None):
    var = pm.Variant(ti if maker is None else maker)
    var.id = v["id"]
    var.uid = v["uid"]
    var.name = v["name"]
    var.type = v["type"]
    items = list(v["paths"].items())
    if rng is not None:
        rng.shuffle(items)
    for k, p in items:
        setattr(var.paths, k, p)

    def attach():
        if parent_obj is None:
            if v["uid"] != v["id"]:
                ti.variants.add(var, variant_id=var.uid)   # as the loader does for $variant-optional
            else:
                ti.variants.add(var)
        else:
            parent_obj.add(var)

    def kids():
        order = list(v["children"])
        if rng is not None:
            rng.shuffle(order)
        for c in order:
            build_variant(pm, ti, var, c, rng, maker=maker)
    if rng is not None and rng.random() < 0.5:
        kids()
        attach()
    else:
        attach()
        kids()
    return var


# --------------------------------------------------------------------------
# model
# --------------------------------------------------------------------------

def expected_obs(D):
    rel = dict(D["release"])
    bp = dict(D["base_product"]) if (D["release"]["is_layered"] and D["base_product"]) else \
        {"name": None, "short": None, "version": None}
    tree = {"arch": D["tree"]["arch"], "build_timestamp": int(D["tree"]["build_timestamp"]),
            "platforms": sorted(set(D["tree"]["platforms"]) | set([D["tree"]["arch"]]))}

    def node(v, parent):
        paths = dict((k, v["paths"].get(k)) for k in domains.TREE_PATH_KINDS)
        return {"id": v["id"], "uid": v["uid"], "name": v["name"], "type": v["type"], "parent": parent, "paths": paths,
                "children": sorted((node(c, v["uid"]) for c in v["children"]), key=lambda n: n["uid"])}
    media = dict(D["media"]) if D["media"] else {"discnum": None, "totaldiscs": None}
    return {"release": rel, "base_product": bp, "tree": tree,
            "variants": sorted((node(v, None) for v in D["variants"]), key=lambda n: n["uid"]),
            "images": dict((p, dict(t)) for p, t in D["images"].items()),
            "stage2": {"mainimage": D["stage2"]["mainimage"] or None, "instimage": D["stage2"]["instimage"] or None},
            "media": media,
            "checksums": dict((p, [tv[0], tv[1]]) for p, tv in D["checksums"].items())}


def expected_sections(D):
    """Documented sections (doc/treeinfo-1.1.rst) as {section: {key: value}}; [general] is C17's."""
    E = expected_obs(D)
    S = {"header": {"type": "productmd.treeinfo", "version": domains.CURRENT_VERSION}}
    S["release"] = {"name": E["release"]["name"], "short": E["release"]["short"], "version": E["release"]["version"]}
    if E["release"]["is_layered"]:
        S["release"]["is_layered"] = "true"
        S["base_product"] = dict(E["base_product"])
    S["tree"] = {"arch": E["tree"]["arch"], "build_timestamp": str(E["tree"]["build_timestamp"]),
                 "platforms": ",".join(E["tree"]["platforms"]),
                 "variants": ",".join(sorted(v["uid"] for v in E["variants"]))}

    def emit(n):
        sec = ("addon-" if n["type"] == "addon" else "variant-") + n["uid"]
        d = {"id": n["id"], "uid": n["uid"], "name": n["name"], "type": n["type"]}
        for k, p in n["paths"].items():
            if p is not None:
                d[k] = p
        S[sec] = d
        for c in n["children"]:
            emit(c)
    for n in E["variants"]:
        emit(n)
    for plat, table in E["images"].items():
        S["images-" + plat] = dict(table)
    st = dict((k, v) for k, v in E["stage2"].items() if v)
    if st:
        S["stage2"] = st
    if D["media"]:
        S["media"] = {"discnum": str(D["media"]["discnum"]), "totaldiscs": str(D["media"]["totaldiscs"])}
    if E["checksums"]:
        S["checksums"] = dict((p, "%s:%s" % (t, v)) for p, (t, v) in E["checksums"].items())
    return S


def sections_problems(D, sections):
    """Independent reading of the written INI against the expected sections."""
    S = expected_sections(D)
    probs = []
    for sec, kv in S.items():
        if sec not in sections:
            probs.append("section [%s] missing" % sec)
            continue
        got = sections[sec]
        exact = sec.startswith("images-") or sec == "checksums"
        for k, v in kv.items():
            if k not in got:
                probs.append("[%s] %s: missing" % (sec, k))
            elif got[k] != v:
                probs.append("[%s] %s: expected %r, found %r" % (sec, k, v, got[k]))
        if exact:
            for k in got:
                if k not in kv:
                    probs.append("[%s] %s: unexpected entry" % (sec, k))
    for sec in sections:
        if (sec.startswith("images-") or sec.startswith("variant-") or sec.startswith("addon-") or
                sec in ("checksums", "stage2", "media", "base_product")) and sec not in S:
            probs.append("section [%s] unexpected" % sec)
    # child lists: every child UID is announced by its parent (under 'addons' or 'variants')
    for v in iter_nodes(D["variants"]):
        if v["children"]:
            sec = ("addon-" if v["type"] == "addon" else "variant-") + v["uid"]
            got = sections.get(sec, {})
            listed = set((got.get("addons", "") + "," + got.get("variants", "")).split(","))
            for c in v["children"]:
                if c["uid"] not in listed:
                    probs.append("[%s]: child %s not listed under addons/variants" % (sec, c["uid"]))
    return probs[:12]


# --------------------------------------------------------------------------
# observation
# --------------------------------------------------------------------------

def observe(ti):
    r = ti.release
    b = ti.base_product
    structural = []

    def node(v, container_parent):
        par = v.parent
        if par is not container_parent:
            structural.append("variant %s: .parent is not the variant that holds it" % v.uid)
        return {"id": v.id, "uid": v.uid, "name": v.name, "type": v.type, "parent": None if par is None else par.uid,
                "paths": dict((k, getattr(v.paths, k)) for k in domains.TREE_PATH_KINDS),
                "children": sorted((node(c, v) for c in v.variants.values()), key=lambda n: n["uid"])}
    cks = {}
    for p, tv in ti.checksums.checksums.items():
        cks[p] = [tv[0], tv[1]]
    return {"release": {"name": r.name, "short": r.short, "version": r.version, "is_layered": r.is_layered},
            "base_product": {"name": b.name, "short": b.short, "version": b.version},
            "tree": {"arch": ti.tree.arch, "build_timestamp": ti.tree.build_timestamp, "platforms": sorted(ti.tree.platforms)},
            "variants": sorted((node(v, None) for v in ti.variants.variants.values()), key=lambda n: n["uid"]),
            "images": dict((p, dict(t)) for p, t in ti.images.images.items()),
            "stage2": {"mainimage": ti.stage2.mainimage, "instimage": ti.stage2.instimage},
            "media": {"discnum": ti.media.discnum, "totaldiscs": ti.media.totaldiscs},
            "checksums": cks}, structural


# --------------------------------------------------------------------------
# discinfo
# --------------------------------------------------------------------------

def gen_discinfo(rng, force=None):
    ts = rng.choice([1386857206.87, 1417653911.68, 1.0, -1.0, 1e300, 1e-300, -2.5e-7, 0.1, 123456789.12345678,
                     float(rng.randint(1, 2 ** 40)), rng.random() * 10 ** rng.randint(-5, 12), 5e-324, 1.7976931348623157e308])
    if force == "timestamp-17-digits":
        ts = rng.random() * 1e9 + rng.random()
    if force == "timestamp-negative":
        ts = -abs(ts)
    desc = rng.choice(["Fedora 20", "Fedora-Server 21", "Red Hat Enterprise Linux 7.0", "Yarrow", tvalue(rng)])
    if force == "description-interior-quotes":
        desc = rng.choice(['Fedora "20" final', "it's", 'a"b', "x ' y"])
    if force == "description-quote-at-one-end":
        desc = rng.choice(['Fedora "20"', '"Fedora" 20', "Fedora's", "'tis Fedora", 'x"', "'x"])
    if force == "description-hostile":
        desc = rng.choice(["a,b", "1,2,3", "ALL", "x\ty", "é日本", "100%", "[x]", "#x", "a = b"])
    # the quantifier excludes descriptions WRAPPED in quotes (a pair of the same quote character around the whole text)
    while len(desc) >= 2 and desc[0] == desc[-1] and desc[0] in "\"'":
        desc = desc[1:] + "x"
    if desc in ("\"", "'"):
        desc = "q" + desc
    arch = rng.choice(TREE_ARCHES + ["src", "ppc64", "noarch", "arm arch"])
    if rng.random() < 0.4 or force == "disc-all":
        discs = ["ALL"]
    else:
        discs = [rng.choice([rng.randint(1, 9), rng.randint(10, 130), 2 ** 31]) for _ in range(rng.choice([1, 2, 4, 6, 12]))]
    if force == "disc-list":
        discs = sorted(rng.sample(range(1, 120), rng.choice([1, 3, 6, 11, 15])))
    if force == "disc-single":
        discs = [rng.randint(1, 3)]
    return {"timestamp": ts, "description": desc, "arch": arch, "disc_numbers": discs}


def discinfo_classes(d):
    out = []
    out.append("disc-all" if d["disc_numbers"] == ["ALL"] else "disc-single" if len(d["disc_numbers"]) == 1 else "disc-list")
    q = d["description"]
    if q[:1] in "\"'" or q[-1:] in "\"'":
        out.append("description-quote-at-one-end")
    elif '"' in q or "'" in q:
        out.append("description-interior-quotes")
    if d["timestamp"] < 0:
        out.append("timestamp-negative")
    if len(repr(d["timestamp"]).replace(".", "").replace("-", "").lstrip("0")) >= 16:
        out.append("timestamp-17-digits")
    if abs(d["timestamp"]) >= 1e16 or abs(d["timestamp"]) < 1e-4:
        out.append("timestamp-exponent-form")
    return out


def build_discinfo(pm, d):
    di = pm.DiscInfo()
    di.timestamp = d["timestamp"]
    di.description = d["description"]
    di.arch = d["arch"]
    di.disc_numbers = list(d["disc_numbers"])
    return di


def observe_discinfo(di):
    return {"timestamp": di.timestamp, "description": di.description, "arch": di.arch, "disc_numbers": list(di.disc_numbers)}
