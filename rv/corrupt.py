"""Object corruptors: the I-table of C06/C18 (values OUTSIDE each field's
documented domain) applied to a live, valid object at any position.

A slot names one documented constraint.  `targets(obj)` lists every position
in the structure where it applies (any variant of the forest, any image of any
cell, ...); `values` are the invalid values (grey values - those the documents
do not settle, e.g. size 0, bool for int fields, disc number "1" - are not in
the table); `apply(target, value)` performs the single-field corruption.
Sources: doc/*.rst, attribute docstrings, the enumeration in the C06 statement.
"""
from rv.model import domains


class Slot(object):
    def __init__(self, fmt, name, targets, values, apply=None, attr=None, needs=None, backs=()):
        self.fmt = fmt
        self.name = name
        self.targets = targets
        self.values = values
        self.attr = attr
        self._apply = apply
        self.needs = needs
        self.backs = backs      # validators expected to raise for this slot (kill evidence)

    def apply(self, target, value):
        if self._apply is not None:
            return self._apply(target, value)
        setattr(target, self.attr, value)


def attr_slot(fmt, name, targets, attr, values, backs=()):
    return Slot(fmt, name, targets, values, attr=attr, backs=backs)


BAD_DATES = ["2015052\u00b2", "\u2460\u2461\u2462\u2463\u2464\u2465\u2466\u2467", "2015052", "201505222", "2015-05-2", "abcdefgh", 20150522, None, "20150522\n", "", " 20150522", "2015052x"]
BAD_COMPOSE_TYPES = ["prod", "Production", "", None, 5, "nightly ", "nightly\n", "release"]
BAD_IDS = ["no-digits-here", "", None, 12345678, "1234567", "x-2015052.n.0"]
BAD_LABELS = ["RC-1.\u00b2", "Beta-\u2460.0", "Update-1\u2075.3", "GA", "Beta", "Beta-1", "Beta-1.", "beta-1.0", "Beta-1.0.0", "RC-1.0\n", "Foo-1.0", 5, "Beta 1.0", "Beta-a.b", " RC-1.0", "RC-1.0 "]
BAD_RESPINS = ["0", 1.0, None, "x", [0]]
BAD_FINAL = ["yes", 1, None, 0]
BAD_RELEASE_VERSIONS = ["1.\u00b2", "7.\u0663", "1.", "1..2", "", "1a", "1-2", None, 5, "1\n", "1.2.", "1 ", "1.x"]
BAD_RELEASE_TYPES = ["GA", "unknown", "", None, "updates_testing", "ga ", 5, "ga\n"]
# b"..." : wrong type AND not encodable as JSON - an unvalidated copy would only fail inside the encoder, after the open
BAD_TEXT = [None, 5, ["x"], b"bytes"]
BAD_BOOL = ["yes", 1, None, 0, "False"]
BAD_VARIANT_TYPES = ["Variant", "addons", "", None, "layered", "variant "]
BAD_NAMES = ["", None, 5, b"bytes"]
BAD_VARIANT_IDS = ["a-b", "", "a b", None, 5, "a\n", "a.b", "é"]
BAD_INTS = ["1", 1.5, None, [1], b"1"]
BAD_IMAGE_TYPES = ["DVD", "unknown", None, "", "dvd ", 5, b"dvd"]
BAD_IMAGE_FORMATS = ["ISO", "zip", None, "", "iso ", 5]
BAD_CHECKSUMS = [{}, None, [], "sha256:abc", 5]
BAD_IMPLANT = ["abc", "A" * 32, "!" * 32, "a" * 31, "a" * 33, "a" * 32 + "\n", 5, "", "0123456789abcdef0123456789abcdeF", " " + "a" * 31]
BAD_VOLUME_IDS = ["", 5, ["x"], b"Fedora-22"]
BAD_TREE_VERSIONS = ["1.", "1..2", "1a", None, 5, "1-2", "1.2."]


def _ci_variants(ci):
    out = []

    def walk(c):
        for v in c.variants.values():
            out.append(v)
            walk(v)
    walk(ci.variants)
    return out


def _ci_children(ci):
    return [v for v in _ci_variants(ci) if v.parent is not None]


def _ci_deep_with_narrower_parent(ci):
    """Variants at depth >= 3 whose parent has strictly fewer architectures than the top-level ancestor."""
    out = []
    for v in _ci_variants(ci):
        if v.parent is None or v.parent.parent is None:
            continue
        top = v
        while top.parent is not None:
            top = top.parent
        if set(top.arches) - set(v.parent.arches):
            out.append(v)
    return out


def _arch_of_top_not_parent(v, value):
    top = v
    while top.parent is not None:
        top = top.parent
    extra = sorted(set(top.arches) - set(v.parent.arches))
    v.arches = set(v.arches) | set([extra[0]])


def _ci_lp_variants(ci):
    return [v for v in _ci_variants(ci) if v.type == "layered-product"]


def _images(im):
    out = []
    seen = set()
    for v in sorted(im.images):
        for a in sorted(im.images[v]):
            for o in sorted(im.images[v][a], key=lambda x: x.path):
                if id(o) not in seen:
                    seen.add(id(o))
                    out.append(o)
    return out


def _ti_variants(ti):
    return _ci_variants(ti)


def _ti_children(ti):
    return [v for v in _ci_variants(ti) if v.parent is not None]


def _foreign_arch(v, value):
    v.arches = set(v.arches) | set([value])


def _misalign_uid(v, value):
    v.uid = value % {"uid": v.uid, "id": v.id}


def _respell_dashes(v, value):
    """A child's UID that differs from <parent UID>-<id> ONLY in its dashes."""
    want = "%s-%s" % (v.parent.uid, v.id)
    new = {"none": want.replace("-", ""), "doubled": want.replace("-", "--"), "leading": "-" + want, "trailing": want + "-",
           "moved": want.replace("-", "", 1)[:-1] + "-" + want[-1:]}[value]
    v.uid = new if new != want else want.replace("-", "--")


def _checksums_emptied_in_place(img, value):
    # the container the object holds is edited IN PLACE: no attribute of the image is assigned
    if value == "clear":
        img.checksums.clear()
    else:
        for k in list(img.checksums):
            del img.checksums[k]


def _extra_variants_appended_in_place(img, value):
    img.additional_variants.extend(value)


def _foreign_arch_in_place(v, value):
    v.arches.add(value)


def _unified_extra(img, value):
    img.unified = False
    img.additional_variants = value


def _ti_image_abs(ti, value):
    plat = sorted(ti.images.images)[0]
    name = sorted(ti.images.images[plat])[0]
    ti.images.images[plat][name] = value


def _ti_image_platform(ti, value):
    ti.images.images[value] = {"kernel": "images/vmlinuz"}


def _ti_image_platform_legacy_spelling(ti, value):
    # an unlisted platform whose NAME looks like the legacy section spelling '<listed platform>-<tree arch>'
    arch = ti.tree.arch
    listed = sorted(ti.tree.platforms) or [arch]
    key = "%s-%s" % (listed[-1] if value == "last" else listed[0], arch)
    while key in ti.tree.platforms:
        key += "-" + arch
    ti.images.images[key] = {"kernel": "images/vmlinuz"}


def _ti_lone_media_number(ti, value):
    field, v = value
    ti.media.discnum = ti.media.totaldiscs = None
    setattr(ti.media, field, v)


def _ti_image_arch_platform(ti, value):
    ti.tree.platforms.discard(ti.tree.arch)
    ti.images.images[ti.tree.arch] = {"kernel": "images/vmlinuz"}


def _ti_checksum_abs(ti, value):
    ti.checksums.checksums[value] = ("sha256", "a" * 64)


def compose_slots(fmt, getter):
    """Slots of the compose section shared by composeinfo and the four JSON manifests."""
    g = lambda o: [getter(o)]
    labelled = lambda o: [getter(o)] if getter(o).label else []
    return [
        attr_slot(fmt, "compose.type", g, "type", BAD_COMPOSE_TYPES, backs=["composeinfo.Compose._validate_type"]),
        attr_slot(fmt, "compose.date", g, "date", BAD_DATES, backs=["composeinfo.Compose._validate_date"]),
        attr_slot(fmt, "compose.id", g, "id", BAD_IDS, backs=["composeinfo.Compose._validate_id"]),
        attr_slot(fmt, "compose.label", g, "label", BAD_LABELS, backs=["composeinfo.Compose._validate_label"]),
        attr_slot(fmt, "compose.respin", g, "respin", BAD_RESPINS, backs=["composeinfo.Compose._validate_respin"]),
        attr_slot(fmt, "compose.final", labelled, "final", BAD_FINAL, backs=["composeinfo.Compose._validate_final"]),
    ]


def release_slots(fmt, prefix, getter, cond=None, types=True, tree=False):
    g = (lambda o: [getter(o)]) if cond is None else (lambda o: [getter(o)] if cond(o) else [])
    mod = "treeinfo" if tree else "composeinfo"
    cls = "BaseProduct" if prefix == "base_product" else "Release"
    vcls = "BaseProduct" if tree else cls      # treeinfo.Release inherits the version validator
    out = [
        attr_slot(fmt, prefix + ".version", g, "version", BAD_TREE_VERSIONS if tree else BAD_RELEASE_VERSIONS,
                  backs=["%s.%s._validate_version" % (mod, "BaseProduct")]),
        attr_slot(fmt, prefix + ".name", g, "name", BAD_TEXT, backs=["%s.BaseProduct._validate_name" % mod]),
        attr_slot(fmt, prefix + ".short", g, "short", BAD_TEXT, backs=["%s.BaseProduct._validate_short" % mod]),
    ]
    if types:
        out.append(attr_slot(fmt, prefix + ".type", g, "type", BAD_RELEASE_TYPES,
                             backs=["composeinfo.%s._validate_type" % cls]))
    return out


SLOTS = []

# ---- composeinfo -------------------------------------------------------------
SLOTS += compose_slots("composeinfo", lambda ci: ci.compose)
SLOTS += release_slots("composeinfo", "release", lambda ci: ci.release)
SLOTS += release_slots("composeinfo", "base_product", lambda ci: ci.base_product, cond=lambda ci: ci.release.is_layered)
SLOTS += [
    attr_slot("composeinfo", "release.is_layered", lambda ci: [ci.release], "is_layered", ["yes", 1, None, "False"],
              backs=["composeinfo.Release._validate_is_layered"]),
    attr_slot("composeinfo", "release.internal", lambda ci: [ci.release], "internal", BAD_BOOL,
              backs=["composeinfo.Release._validate_internal"]),
    attr_slot("composeinfo", "variant.type", _ci_variants, "type", BAD_VARIANT_TYPES, backs=["composeinfo.Variant._validate_type"]),
    attr_slot("composeinfo", "variant.name", _ci_variants, "name", BAD_NAMES, backs=["composeinfo.Variant._validate_name"]),
    attr_slot("composeinfo", "variant.id", _ci_variants, "id", BAD_VARIANT_IDS, backs=["composeinfo.Variant._validate_id"]),
    attr_slot("composeinfo", "variant.arches-empty", _ci_variants, "arches", [set()], backs=["composeinfo.Variant._validate_arches"]),
    Slot("composeinfo", "variant.deep-child-arch-of-top-not-parent", _ci_deep_with_narrower_parent, ["(an arch the top-level has, the parent lacks)"],
         apply=_arch_of_top_not_parent, backs=["composeinfo.Variant._validate_parent_arch"]),
    Slot("composeinfo", "variant.child-arch-added-in-place-outside-parent", _ci_children, ["sparc", "mips", "sparc64v"], apply=_foreign_arch_in_place,
         backs=["composeinfo.Variant._validate_parent_arch"]),
    Slot("composeinfo", "variant.child-arch-outside-parent", _ci_children, ["sparc", "mips", "sparc64v"], apply=_foreign_arch,
         backs=["composeinfo.Variant._validate_parent_arch"]),
    Slot("composeinfo", "variant.child-uid-differs-in-dashes-only", _ci_children, ["none", "doubled", "leading", "trailing", "moved"],
         apply=_respell_dashes, backs=["composeinfo.Variant._validate_uid"]),
    Slot("treeinfo", "variant.child-uid-differs-in-dashes-only", _ti_children, ["none", "doubled", "leading", "trailing", "moved"],
         apply=_respell_dashes, backs=["treeinfo.Variant._validate_uid"]),
    Slot("composeinfo", "variant.uid-misaligned", _ci_variants, ["%(uid)sX", "Z-%(id)s", "X%(uid)s"], apply=_misalign_uid,
         backs=["composeinfo.Variant._validate_uid"]),
    attr_slot("composeinfo", "variant.release.version", lambda ci: [v.release for v in _ci_lp_variants(ci)], "version",
              BAD_RELEASE_VERSIONS),
    attr_slot("composeinfo", "variant.release.type", lambda ci: [v.release for v in _ci_lp_variants(ci)], "type", BAD_RELEASE_TYPES),
]

# ---- images --------------------------------------------------------------------
SLOTS += compose_slots("images", lambda im: im.compose)
SLOTS += [
    attr_slot("images", "image.path", _images, "path", ["", None, 5, b"a/b.iso"], backs=["images.Image._validate_path"]),
    attr_slot("images", "image.mtime", _images, "mtime", BAD_INTS, backs=["images.Image._validate_mtime"]),
    attr_slot("images", "image.size", _images, "size", BAD_INTS, backs=["images.Image._validate_size"]),
    attr_slot("images", "image.volume_id", _images, "volume_id", BAD_VOLUME_IDS, backs=["images.Image._validate_volume_id"]),
    attr_slot("images", "image.type", _images, "type", BAD_IMAGE_TYPES, backs=["images.Image._validate_type"]),
    attr_slot("images", "image.format", _images, "format", BAD_IMAGE_FORMATS, backs=["images.Image._validate_format"]),
    attr_slot("images", "image.arch", _images, "arch", ["", None, 5], backs=["images.Image._validate_arch"]),
    attr_slot("images", "image.disc_number", _images, "disc_number", BAD_INTS, backs=["images.Image._validate_disc_number"]),
    attr_slot("images", "image.disc_count", _images, "disc_count", BAD_INTS, backs=["images.Image._validate_disc_count"]),
    attr_slot("images", "image.checksums", _images, "checksums", BAD_CHECKSUMS, backs=["images.Image._validate_checksums"]),
    attr_slot("images", "image.implant_md5", _images, "implant_md5", BAD_IMPLANT, backs=["images.Image._validate_implant_md5"]),
    attr_slot("images", "image.bootable", _images, "bootable", BAD_BOOL, backs=["images.Image._validate_bootable"]),
    attr_slot("images", "image.subvariant", _images, "subvariant", [None, 5], backs=["images.Image._validate_subvariant"]),
    attr_slot("images", "image.unified", _images, "unified", BAD_BOOL, backs=["images.Image._validate_unified"]),
    Slot("images", "image.additional-variants-on-non-unified", _images, [["Server"], ["A", "B"]], apply=_unified_extra,
         backs=["images.Image._validate_merges_variants"]),
    Slot("images", "image.checksums-emptied-in-place", _images, ["clear", "del"], apply=_checksums_emptied_in_place,
         backs=["images.Image._validate_checksums"]),
    Slot("images", "image.additional-variants-appended-in-place-on-non-unified", lambda im: [i for i in _images(im) if not i.unified],
         [["Server"], ["A", "B"]], apply=_extra_variants_appended_in_place, backs=["images.Image._validate_merges_variants"]),
    attr_slot("images", "image.additional_variants-not-a-list", _images, "additional_variants", ["Server", None, 5]),
]

# ---- rpms / modules / extra files: header and compose section only -----------------
for _fmt in ("rpms", "modules", "extra_files"):
    SLOTS += compose_slots(_fmt, lambda o: o.compose)

# ---- treeinfo ----------------------------------------------------------------------
SLOTS += release_slots("treeinfo", "release", lambda ti: ti.release, types=False, tree=True)
SLOTS += release_slots("treeinfo", "base_product", lambda ti: ti.base_product, cond=lambda ti: ti.release.is_layered,
                       types=False, tree=True)
SLOTS += [
    attr_slot("treeinfo", "release.is_layered", lambda ti: [ti.release], "is_layered", ["yes", 1, None],
              backs=["treeinfo.Release._validate_is_layered"]),
    attr_slot("treeinfo", "tree.arch", lambda ti: [ti.tree], "arch", ["", None, 5], backs=["treeinfo.Tree._validate_arch"]),
    attr_slot("treeinfo", "tree.build_timestamp", lambda ti: [ti.tree], "build_timestamp", ["123", None, "now", [1]],
              backs=["treeinfo.Tree._validate_build_timestamp"]),
    attr_slot("treeinfo", "variant.type", _ti_variants, "type", BAD_VARIANT_TYPES + ["layered-product"],
              backs=["treeinfo.Variant._validate_type"]),
    attr_slot("treeinfo", "variant.id-dashed", _ti_variants, "id", ["a-b", "Server-optional", None, 5],
              backs=["treeinfo.Variant._validate_id"]),
    Slot("treeinfo", "variant.uid-misaligned", _ti_children, ["%(uid)sX", "Z-%(id)s", "%(id)s"], apply=_misalign_uid,
         backs=["treeinfo.Variant._validate_uid"]),
    Slot("treeinfo", "images.absolute-path", lambda ti: [ti] if ti.images.images else [], ["/abs/vmlinuz", "/", "//x"],
         apply=_ti_image_abs, backs=["treeinfo.Images._validate_image_paths"]),
    Slot("treeinfo", "images.platform-not-listed", lambda ti: [ti], ["sparc64x", "nowhere"], apply=_ti_image_platform,
         backs=["treeinfo.Images._validate_platforms"]),
    Slot("treeinfo", "images.platform-not-listed-named-like-a-legacy-section", lambda ti: [ti], ["first", "last"],
         apply=_ti_image_platform_legacy_spelling, backs=["treeinfo.Images._validate_platforms"]),
    Slot("treeinfo", "media.lone-number-not-an-integer", lambda ti: [ti],
         [("discnum", "1"), ("totaldiscs", "2"), ("discnum", 1.5), ("totaldiscs", [1]), ("discnum", (1,)), ("totaldiscs", b"1")],
         apply=_ti_lone_media_number, backs=["treeinfo.Media._validate_discnum", "treeinfo.Media._validate_totaldiscs"]),
    Slot("treeinfo", "images.tree-arch-platform-not-listed", lambda ti: [ti], ["(tree arch)"], apply=_ti_image_arch_platform,
         backs=["treeinfo.Images._validate_platforms"]),
    attr_slot("treeinfo", "stage2.mainimage-absolute", lambda ti: [ti.stage2], "mainimage", ["/abs/squashfs.img", "/"],
              backs=["treeinfo.Stage2._validate_mainimage"]),
    attr_slot("treeinfo", "stage2.instimage-absolute", lambda ti: [ti.stage2], "instimage", ["/abs/inst.img", "/"]),
    Slot("treeinfo", "checksums.absolute-path", lambda ti: [ti], ["/abs/boot.iso", "/x"], apply=_ti_checksum_abs),
    attr_slot("treeinfo", "media.discnum", lambda ti: [ti.media] if ti.media.totaldiscs else [], "discnum", ["1", 1.5, [1]],
              backs=["treeinfo.Media._validate_discnum"]),
    attr_slot("treeinfo", "media.totaldiscs", lambda ti: [ti.media] if ti.media.discnum else [], "totaldiscs", ["2", 2.5, [2]],
              backs=["treeinfo.Media._validate_totaldiscs"]),
]

# ---- discinfo ------------------------------------------------------------------------
SLOTS += [
    attr_slot("discinfo", "timestamp", lambda di: [di], "timestamp", [123, "1.0", None, "now"],
              backs=["discinfo.DiscInfo._validate_timestamp"]),
    attr_slot("discinfo", "description", lambda di: [di], "description", ["", None, 5], backs=["discinfo.DiscInfo._validate_description"]),
    attr_slot("discinfo", "arch", lambda di: [di], "arch", ["", None, 5], backs=["discinfo.DiscInfo._validate_arch"]),
    attr_slot("discinfo", "disc_numbers-empty-or-not-a-list", lambda di: [di], "disc_numbers", [[], None, "ALL", 5],
              backs=["discinfo.DiscInfo._validate_disc_numbers"]),
    attr_slot("discinfo", "disc_numbers-non-integer", lambda di: [di], "disc_numbers", [["x"], [1.5], [None], [1, "ALL"], ["ALL", 1]]),
]

BY_FMT = {}
for _s in SLOTS:
    BY_FMT.setdefault(_s.fmt, []).append(_s)


def slot(fmt, name):
    for s in BY_FMT[fmt]:
        if s.name == name:
            return s
    raise KeyError((fmt, name))


def json_value(v):
    if isinstance(v, (set, frozenset)):
        return {"__set__": sorted(v)}
    if isinstance(v, bytes):
        return {"__bytes__": v.decode("latin1")}
    return v
