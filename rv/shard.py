"""Child-process entry of one workload shard.

    python -m rv.shard <spec.json>

spec: {prop, tier, seed, shard, nshards, repo, scratch, out, params, mode,
       replay_case}
Imports productmd from `repo` (asserted), installs instrumentation, runs the
check module's run_shard(ctx) or replay(ctx, case) and writes the result JSON.
"""
import faulthandler
import importlib
import json
import os
import resource
import sys
import traceback


def main(argv):
    with open(argv[1]) as f:
        spec = json.load(f)
    faulthandler.enable()
    params = spec.get("params") or {}
    cpu = int(params.get("rlimit_cpu", 0))
    if cpu:
        resource.setrlimit(resource.RLIMIT_CPU, (cpu, cpu + 5))
    mem = int(params.get("rlimit_as_mb", 6144))
    if mem:
        try:
            resource.setrlimit(resource.RLIMIT_AS, (mem << 20, mem << 20))
        except (ValueError, OSError):
            pass

    repo = os.path.realpath(spec["repo"])
    here = os.path.dirname(os.path.dirname(os.path.abspath(__file__)))
    deps = os.path.join(here, ".deps")
    # repository first, harness second, third-party deps last
    sys.path[:] = [repo, here] + [p for p in sys.path if p not in (repo, here, deps, "")] + [deps]

    from rv import instr
    from rv.ctx import Ctx

    harvest = None
    if params.get("harvest"):
        harvest = instr.ReHarvest(repo).install()

    import productmd
    pm_file = os.path.realpath(productmd.__file__)
    if not pm_file.startswith(repo + os.sep):
        sys.stderr.write("BROKEN: productmd imported from %s, not from %s\n" % (pm_file, repo))
        return 3

    ctx = Ctx(spec["prop"], spec["tier"], spec["seed"], spec["shard"], spec["nshards"],
              repo, spec["scratch"], params=params, hashseed=os.environ.get("PYTHONHASHSEED"))
    ctx.harvest = harvest
    import locale
    ctx.count("process-encoding-" + locale.getpreferredencoding(False).lower())

    mod = importlib.import_module("checks." + spec["prop"].lower())

    if instr.enabled():
        if params.get("reach", True):
            rm = instr.ReachMonitor(repo, cap=int(params.get("reach_cap", 200)))
            if rm.start():
                ctx.reach = rm
        if params.get("audit"):
            ctx.audit = instr.AuditLog.install()
        if params.get("vtrace"):
            ctx.vtrace = instr.ValidatorTrace().install()

    rc = 0
    ctx.arm_stall_guard()
    try:
        if spec.get("mode") == "replay":
            mod.replay(ctx, spec["replay_case"])
        else:
            mod.run_shard(ctx)
    except BaseException:
        ctx.starved("shard %s crashed: %s" % (spec["shard"], traceback.format_exc()[-1500:]))
        rc = 4
    finally:
        if ctx.reach is not None:
            ctx.reach.stop()
    res = ctx.result()
    # anchors that do not exist in this tree (renamed / inlined by a refactoring) are not a starvation signal
    absent = []
    for fn in getattr(mod, "REQUIRED_REACH", []) or []:
        for name in (fn if isinstance(fn, (list, tuple)) else [fn]):
            parts = name.split(".")
            try:
                obj = importlib.import_module("productmd." + parts[0])
                for part in parts[1:]:
                    obj = getattr(obj, part)
            except Exception:
                absent.append(name)
    res["reach_absent"] = absent
    if harvest is not None:
        harvest.scan_compiled()
        res["harvest"] = {"events": harvest.events,
                          "patterns": [[p, fl, sorted(w)] for (p, fl), w in sorted(harvest.patterns.items())]}
    tmp = spec["out"] + ".tmp"
    with open(tmp, "w") as f:
        json.dump(res, f)
    os.replace(tmp, spec["out"])
    return rc


if __name__ == "__main__":
    sys.exit(main(sys.argv))
