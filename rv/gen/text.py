"""Small text generators shared by the description generators."""

LOWER = "abcdefghijklmnopqrstuvwxyz"
UPPER = "ABCDEFGHIJKLMNOPQRSTUVWXYZ"
DIGITS = "0123456789"
ALNUM = LOWER + UPPER + DIGITS
UNICODE_BITS = ["é", "ü", "ß", "Ω", "ж", "日本", "✓", "ñ",
                # not in composed normal form (NFC would change them); look-alike digits; astral plane
                "e\u0301", "A\u030a", "\u2126", "\u212b", "\ufb01", "\u0663", "\uff17", "\u00b2", "\U0001f600"]
WORDS = ["Fedora", "Red Hat Enterprise Linux", "Server", "Client", "Workstation", "Cloud", "Spacewalk",
         "Atomic Host", "CoreOS", "Satellite", "Storage", "Tools", "Everything", "Supplementary"]


def chars(rng, alphabet, lo, hi):
    return "".join(rng.choice(alphabet) for _ in range(rng.randint(lo, hi)))


def word(rng, lo=1, hi=8):
    return rng.choice(UPPER + LOWER) + chars(rng, ALNUM, lo - 1, hi - 1)


def pretty_name(rng, hostile=False):
    """A human-readable single-line name without leading/trailing blanks."""
    r = rng.random()
    if r < 0.4:
        s = rng.choice(WORDS)
    elif r < 0.7:
        s = " ".join(word(rng) for _ in range(rng.randint(1, 3)))
    elif r < 0.85:
        s = word(rng) + rng.choice(UNICODE_BITS) + chars(rng, ALNUM, 0, 4)
    else:
        s = word(rng) + rng.choice([" - ", ".", "_", "+", "/", " & ", "'", "(", ")"]) + word(rng)
    if hostile and rng.random() < 0.5:
        mid = rng.choice(["%", "%%", "%(x)s", "=", ":", "#", ";", "[", "]", "\t", "=", " = ", ": ", "$", "${x}", "\"", "'"])
        s = word(rng, 1, 3) + mid + word(rng, 1, 3)
    return s


def short_name(rng, dashed=False):
    """Release short name in the documented shape (lowercase or mixed for composeinfo)."""
    s = rng.choice(LOWER) + chars(rng, LOWER + DIGITS, 0, 5)
    if dashed:
        s += "-" + chars(rng, LOWER + DIGITS, 1, 4)
    return s


def numeric_version(rng, parts=None):
    n = parts or rng.randint(1, 3)
    return ".".join(str(rng.choice([0, 1, 2, 7, 10, 22, 2024, rng.randint(0, 99)])) for _ in range(n))


def freeform_version(rng):
    s = rng.choice(["Rawhide", "rawhide", "Bikeshed", "beta", "el", "x"]) + rng.choice(["", "", "1", ".2", "_3", " 4", "é"])
    r = rng.random()
    if r < 0.06:
        s = s + rng.choice([" ", "\t", "\u00a0", "\u3000", "  "])       # blanks are legal in a free-form version, also at its end
    elif r < 0.1:
        s = rng.choice([" ", "\u00a0", "\u0663", "\uff17", "\u00b2"]) + s  # ... and at its start; a non-ASCII digit is not a digit here
    elif r < 0.12:
        s = rng.choice([" ", "\u3000", "\u0663x", "\uff17.1"])
    return s


def rel_path(rng, depth=None, hostile=False):
    n = depth or rng.randint(1, 4)
    segs = []
    for _ in range(n):
        s = word(rng, 1, 8)
        if rng.random() < 0.3:
            s += rng.choice([".iso", ".img", "-1.0", "_x", ".x86_64", " y"])
        segs.append(s)
    p = "/".join(segs)
    if hostile and rng.random() < 0.3:
        p = "./" + p
    elif rng.random() < 0.06:
        # spellings a path normaliser would rewrite; the library records relative paths verbatim
        p = rng.choice(["./" + p, p.replace("/", "//", 1) if "/" in p else p + "//x", p + "/", segs[0] + "/../" + p, p.replace("/", "/./", 1) if "/" in p else "./" + p + "/."])
    return p
