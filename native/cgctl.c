/* callgrind client-request shim, loaded with ctypes (C19).
 * Outside valgrind all requests are no-ops. */
#include <valgrind/callgrind.h>
#include <valgrind/valgrind.h>
int cg_running(void) { return RUNNING_ON_VALGRIND; }
void cg_zero(void) { CALLGRIND_ZERO_STATS; }
void cg_toggle(void) { CALLGRIND_TOGGLE_COLLECT; }
void cg_dump(const char *label) { CALLGRIND_DUMP_STATS_AT(label); }
