"""C06  Only objects meeting every documented field constraint can be written.

Monitors
  invalid-refused : take a valid object of one of the seven formats (the
        generators of C01-C04, so the corruption lands at ANY position: any
        variant of the forest, any image of any cell, any section), set exactly
        one field to a value from that field's invalid set (rv/corrupt.py),
        call dumps(): the only acceptable outcome is TypeError or ValueError
        and no text.  'WRITTEN' and 'raised other' are violations.  A sample
        goes through dump(file object) and dump(path) too.
  valid-written   : the converse - every uncorrupted generated object, and a
        systematic sweep over every documented enumeration value (compose,
        release, variant, image types, image formats, label names,
        architectures), is written without error.
Validator-level kill evidence: every _validate* method found by introspection
must have been entered, and the validators backing a row of the invalid table
must each have raised on an invalid value at least once (wrapped from outside,
rv/instr.ValidatorTrace).
"""
import io
import os

from rv import corrupt, formats
from rv import fmt_composeinfo as FC
from rv import fmt_images as FI
from rv import fmt_treeinfo as FT
from rv.ctx import jsonable
from rv.model import domains

PROPERTY = "C06"
LEVEL = "exploration"
RULE = ("cases = (format, valid object description, slot, position, invalid value) with every (format, slot, value) "
        "visited round-robin at varying positions, plus valid objects and the enumeration sweep for the converse; distinct "
        "by (format, slot, value, position signature, description); non-trivial: every corruption case (each carries exactly "
        "one invalid field); converse cases are non-trivial when they use a non-default enumeration value")
ASSUMPTIONS = ["rv/corrupt.py holds the invalid sets taken from doc/*.rst, attribute docstrings and the property statement; "
               "values the documents do not settle (size 0, bool for int fields, disc number '1', header version) are not in it",
               "validators are observed through wrappers installed from the harness (no source edit)"]
REQUIRED_REACH = ["common.MetadataBase.validate", "common.MetadataBase.dump", "composeinfo.Compose.serialize",
                  "composeinfo.Variants.serialize", "composeinfo.VariantPaths.serialize", "images.Image.serialize",
                  "treeinfo.Tree.serialize", "treeinfo.Variant.serialize", "treeinfo.Media.serialize", "treeinfo.Stage2.serialize",
                  "treeinfo.Checksums.serialize", "treeinfo.Images.serialize", "discinfo.DiscInfo.serialize"]
REQUIRED_MONITORS = ["invalid-refused", "valid-written", "enumeration-sweep"]
CLASS_FLOORS = {}
for _s in corrupt.SLOTS:
    CLASS_FLOORS["slot:%s:%s" % (_s.fmt, _s.name)] = 3
CLASS_FLOORS.update({"position-nested-variant": 5, "position-second-image": 5, "via-dump-path": 5, "via-dump-fileobj": 5})


def plan(tier):
    if tier == "thorough":
        return {"shards": 16, "params": {"cases": 25000, "valid": 4000, "budget_s": 1500, "vtrace": True}, "timeout_s": 3000}
    return {"shards": 4, "params": {"cases": 1600, "valid": 300, "budget_s": 300, "vtrace": True}, "timeout_s": 900}


def classify(fmt, slot, value, outcome):
    """Mechanism classifiers (known_findings.json keys)."""
    if outcome == "WRITTEN" and isinstance(value, str) and value.endswith("\n") and "\n" not in value[:-1]:
        return "trailing-line-break-accepted"
    if outcome == "WRITTEN" and fmt == "treeinfo" and slot == "checksums.absolute-path":
        return "treeinfo-checksum-path-validator-never-runs"
    if outcome == "WRITTEN" and fmt == "treeinfo" and slot == "stage2.instimage-absolute":
        return "stage2-instimage-not-validated"
    if outcome == "WRITTEN" and fmt == "discinfo" and slot == "disc_numbers-non-integer":
        return "discinfo-disc-numbers-not-checked"
    return None


def suitable_description(fmt, slot, rng):
    """A valid description in which the slot has at least one position."""
    force = None
    if fmt == "composeinfo":
        if slot.name.startswith("base_product"):
            force = "layered"
        elif slot.name.startswith("variant.release"):
            force = "layered-product-variant"
        elif slot.name in ("variant.child-arch-outside-parent", "variant.child-uid-differs-in-dashes-only"):
            force = "depth-3"
        elif slot.name == "variant.deep-child-arch-of-top-not-parent":
            force = "depth-3-narrowing"
        elif slot.name == "compose.final":
            force = "final-true"
    if fmt == "treeinfo":
        if slot.name.startswith("base_product"):
            force = "layered"
        elif slot.name in ("variant.uid-misaligned", "variant.child-uid-differs-in-dashes-only"):
            force = "depth-3"
        elif slot.name == "images.absolute-path":
            force = "images"
        elif slot.name.startswith("media"):
            force = "media"
    for _ in range(20):
        D = formats.gen(fmt, rng, force)
        if fmt in ("images",) and slot.name.startswith("image") and not D["images"]:
            continue
        if fmt in formats.MANIFEST_KIND and slot.name == "compose.final" and not D["compose"]["label"]:
            D["compose"]["label"] = "RC-1.0"
        if fmt == "images" and slot.name == "compose.final" and not D["compose"]["label"]:
            D["compose"]["label"] = "Beta-1.2"
        if fmt == "treeinfo" and slot.name == "images.absolute-path" and not D["images"]:
            continue
        if force == "depth-3-narrowing":
            # top-level with three arches, its child with one of them, a grandchild below
            top = D["variants"][0]
            top["arches"] = ["ppc64le", "s390x", "x86_64"]
            mid = top["children"][0]
            for n in FC.iter_nodes([top]):
                if n is not top:
                    n["arches"] = ["x86_64"]
                for cat in list(n["paths"]):
                    n["paths"][cat] = dict((a, p) for a, p in n["paths"][cat].items() if a in n["arches"])
        return D
    return None


def try_write(obj, how, tmpdir):
    """Returns (outcome, text): outcome = 'WRITTEN' | 'TypeError' | 'ValueError' | 'other:<Type>'."""
    try:
        if how == "dumps":
            t = obj.dumps()
        elif how == "fileobj":
            f = io.StringIO()
            obj.dump(f)
            t = f.getvalue()
        else:
            path = os.path.join(tmpdir, "out")
            try:
                obj.dump(path)
                with open(path) as f:
                    t = f.read()
            finally:
                if os.path.exists(path):
                    os.unlink(path)
        return "WRITTEN", t
    except TypeError as e:
        return "TypeError", str(e)
    except ValueError as e:
        return "ValueError", str(e)
    except Exception as e:
        return "other:%s" % type(e).__name__, str(e)


def check_corruption(ctx, pms, case, tmpdir):
    fmt, D = case["fmt"], case["D"]
    slot = corrupt.slot(fmt, case["slot"])
    try:
        obj = formats.build(pms, fmt, D, case["order_seed"])
        valid_text = obj.dumps()
    except Exception as e:
        ctx.note_add("base_object_not_writable")
        return None
    targets = slot.targets(obj)
    if not targets:
        ctx.note_add("slot_without_position")
        return None
    pos = case["position"] % len(targets)
    value = slot.values[case["value_index"] % len(slot.values)]
    target = targets[pos]
    # did the 'invalid' value change the field at all?  (judged on the FIELD, not on what is written: an invalid object
    # whose output happens to equal the valid one is exactly what this property is about)
    probe = slot.attr or ("uid" if "uid" in slot.name else None)
    before = (repr(getattr(target, probe, None)), type(getattr(target, probe, None))) if probe else None
    slot.apply(target, value)
    if probe and (repr(getattr(target, probe, None)), type(getattr(target, probe, None))) == before:
        ctx.note_add("corruption_was_a_no_op")
        return None
    how = case.get("how", "dumps")
    outcome, info = try_write(obj, how, tmpdir)
    ctx.count("slot:%s:%s" % (fmt, slot.name))
    if how == "path":
        ctx.count("via-dump-path")
    elif how == "fileobj":
        ctx.count("via-dump-fileobj")
    if fmt in ("composeinfo", "treeinfo") and slot.name.startswith("variant") and getattr(target, "parent", None) is not None:
        ctx.count("position-nested-variant")
    if fmt == "images" and slot.name.startswith("image") and pos > 0:
        ctx.count("position-second-image")
    ok = outcome in ("TypeError", "ValueError")
    ctx.monitor("invalid-refused", fired=not ok)
    if not ok:
        ctx.violation("invalid-refused", "an object with one field outside its documented domain is refused with TypeError or ValueError",
                      dict(case, value=jsonable(corrupt.json_value(value)), position_of=len(targets)),
                      observed=outcome if outcome != "WRITTEN" else "WRITTEN (%d characters returned)" % len(info),
                      expected="TypeError or ValueError", key=classify(fmt, slot.name, value, outcome), detail=info[:200] if outcome != "WRITTEN" else None)
    return outcome


def check_valid(ctx, pms, fmt, D, order_seed, tmpdir):
    case = {"fmt": fmt, "D": D, "order_seed": order_seed, "valid": True}
    try:
        obj = formats.build(pms, fmt, D, order_seed)
    except Exception as e:
        ctx.monitor("valid-written", fired=True)
        ctx.violation("valid-written", "every object whose fields all satisfy their documented rules is written without error",
                      case, observed="construction raised %s: %s" % (type(e).__name__, e), expected="written")
        return
    outcome, info = try_write(obj, "dumps", tmpdir)
    ctx.monitor("valid-written", fired=outcome != "WRITTEN")
    if outcome != "WRITTEN":
        ctx.violation("valid-written", "every object whose fields all satisfy their documented rules is written without error",
                      case, observed="%s: %s" % (outcome, info[:200]), expected="written")


def enumeration_sweep(ctx, pms, tmpdir):
    """Every documented enumeration value, one at a time, in a minimal valid object."""
    import random
    rng = random.Random(7)
    n = 0

    def expect_written(make, what):
        try:
            obj = make() if callable(make) else make
        except Exception as e:
            ctx.monitor("enumeration-sweep", fired=True)
            ctx.violation("enumeration-sweep", "every documented enumeration value can be written", {"enumeration": what},
                          observed="construction refused: %s: %s" % (type(e).__name__, str(e)[:200]), expected="written")
            return
        outcome, info = try_write(obj, "dumps", tmpdir)
        ctx.monitor("enumeration-sweep", fired=outcome != "WRITTEN")
        if outcome != "WRITTEN":
            ctx.violation("enumeration-sweep", "every documented enumeration value can be written", {"enumeration": what},
                          observed="%s: %s" % (outcome, info[:200]), expected="written")
    base = FC.gen_description(rng, "no-variants", hostile=False)
    base["compose"]["id"] = "X-1-20200101.0"
    for t in domains.COMPOSE_TYPES:
        D = dict(base, compose=dict(base["compose"], type=t))
        expect_written(lambda D=D: formats.build(pms, "composeinfo", D), "compose type %s" % t)
        n += 1
    for t in domains.RELEASE_TYPES:
        D = dict(base, release=dict(base["release"], type=t, is_layered=True),
                 base_product={"name": "B", "short": "B", "version": "1", "type": t})
        expect_written(lambda D=D: formats.build(pms, "composeinfo", D), "release/base product type %s" % t)
        n += 1
    for name in domains.LABEL_NAMES:
        for ver in ("1.0", "0.1", "10.12"):
            D = dict(base, compose=dict(base["compose"], label="%s-%s" % (name, ver), final=True))
            expect_written(lambda D=D: formats.build(pms, "composeinfo", D), "label %s-%s" % (name, ver))
            n += 1
    for t in domains.VARIANT_TYPES:
        v = {"id": "V", "uid": "V", "name": "V", "type": t, "arches": ["x86_64"], "paths": {}, "children": [],
             "release": FC.gen_release(rng, layered=True, hostile=False) if t == "layered-product" else None}
        child = {"id": "C", "uid": "V-C", "name": "C", "type": t, "arches": ["x86_64"], "paths": {}, "children": [],
                 "release": FC.gen_release(rng, layered=True, hostile=False) if t == "layered-product" else None}
        v["children"] = [child]
        expect_written(lambda v=v: formats.build(pms, "composeinfo", dict(base, variants=[v])), "variant type %s" % t)
        n += 1
    for arch in domains.BINARY_ARCHES:
        v = {"id": "V", "uid": "V", "name": "V", "type": "variant", "arches": [arch], "paths": {"os_tree": {arch: "V/%s/os" % arch}},
             "children": [], "release": None}
        expect_written(lambda v=v: formats.build(pms, "composeinfo", dict(base, variants=[v])), "variant arch %s" % arch)
        n += 1
    comp = {"id": "X-1-20200101.0", "type": "production", "date": "20200101", "respin": 0, "label": None, "final": False}
    for i, t in enumerate(domains.IMAGE_TYPES):
        a = FI.gen_image_attrs(rng, t, (domains.IMAGE_TYPE_FORMATS[t] or ["iso"])[0])
        expect_written(lambda a=a: formats.build(pms, "images", {"compose": comp, "images": [{"attrs": a, "cells": [["Server", "x86_64"]]}]}),
                       "image type %s" % t)
        n += 1
    for t, fmts in sorted(domains.IMAGE_TYPE_FORMATS.items()):
        for f in fmts:
            a = FI.gen_image_attrs(rng, t, f)
            expect_written(lambda a=a: formats.build(pms, "images", {"compose": comp, "images": [{"attrs": a, "cells": [["Server", "x86_64"]]}]}),
                           "image type/format %s/%s" % (t, f))
            n += 1
    for arch in domains.BINARY_ARCHES:
        a = FI.gen_image_attrs(rng)
        a["arch"] = arch
        expect_written(lambda a=a, arch=arch: formats.build(pms, "images", {"compose": comp, "images": [{"attrs": a, "cells": [["Server", arch]]}]}),
                       "image under arch %s" % arch)
        n += 1
    for t in domains.TREE_VARIANT_TYPES:
        D = FT.gen_description(rng, "single-variant", hostile=False)
        D["variants"][0]["children"] = [{"id": "C", "uid": D["variants"][0]["uid"] + "-C", "name": "C", "type": t, "paths": {}, "children": []}]
        expect_written(lambda D=D: formats.build(pms, "treeinfo", D), "treeinfo child variant type %s" % t)
        n += 1
    return n


def run_shard(ctx):
    pms = formats.modules()
    tmpdir = os.path.join(ctx.scratch, "c06")
    os.makedirs(tmpdir, exist_ok=True)
    rng = ctx.rng(0)
    n = int(ctx.params.get("cases", 500))
    # every (slot, value) pair round-robin, strided over shards, positions varying
    pairs = [(s, vi) for s in corrupt.SLOTS for vi in range(len(s.values))]
    k = ctx.shard
    for i in range(n):
        if i % 64 == 0 and ctx.out_of_time():
            ctx.note("stopped_early_at", i)
            break
        slot, vi = pairs[k % len(pairs)]
        k += ctx.nshards
        D = suitable_description(slot.fmt, slot, rng)
        if D is None:
            continue
        case = {"fmt": slot.fmt, "D": D, "order_seed": rng.randrange(1 << 30), "slot": slot.name,
                "position": rng.randrange(1000), "value_index": vi, "how": ["dumps", "dumps", "dumps", "fileobj", "path"][i % 5]}
        outcome = check_corruption(ctx, pms, case, tmpdir)
        ctx.case_done({"f": slot.fmt, "s": slot.name, "v": vi, "p": case["position"], "D": D}, nontrivial=outcome is not None)
        if i < 2:
            ctx.sample({"fmt": slot.fmt, "slot": slot.name, "invalid_value": jsonable(corrupt.json_value(slot.values[vi])),
                        "outcome": outcome})
    ctx.note("slot_value_pairs", len(pairs))
    # converse
    m = int(ctx.params.get("valid", 100))
    rng = ctx.rng(1)
    for i in range(m):
        if i % 64 == 0 and ctx.out_of_time():
            break
        fmt = formats.FORMATS[i % len(formats.FORMATS)]
        # converse: realistic documented-valid values only (printable single-line text); exotic-but-untyped values
        # (empty short names, control characters) are exercised by C01-C04, where a refusal is counted, not judged
        D = formats.gen(fmt, rng, hostile=False)
        check_valid(ctx, pms, fmt, D, rng.randrange(1 << 30), tmpdir)
        ctx.case_done({"valid": fmt, "D": D}, nontrivial=True)
    if ctx.shard == 0:
        cnt = enumeration_sweep(ctx, pms, tmpdir)
        ctx.enumerated(cnt)
        ctx.note("enumeration_values_swept", cnt)


def post(agg, tier, seed):
    """Validator-level kill evidence (DESIGN C06 R)."""
    entered = agg["validators"]["entered"]
    raised = agg["validators"]["raised"]
    if not entered:
        agg["inconclusive"].append("validator trace produced no data")
        return
    never = sorted(k for k, v in entered.items() if v == 0)
    # reported, not a starvation verdict: the slot floors already guarantee that every row of the invalid table ran
    agg["notes"]["validators_never_entered"] = never
    need = sorted(set(b for s in corrupt.SLOTS for b in s.backs))
    silent = [b for b in need if b in raised and raised[b] == 0]
    missing = [b for b in need if b not in raised]
    agg["notes"]["validators_found_by_introspection"] = len(entered)
    agg["notes"]["backing_validators_required_to_raise"] = len(need)
    agg["notes"]["backing_validators_never_raised"] = silent
    agg["notes"]["backing_validators_not_found"] = missing


def replay(ctx, case):
    pms = formats.modules()
    tmpdir = os.path.join(ctx.scratch, "c06")
    os.makedirs(tmpdir, exist_ok=True)
    if "enumeration" in case:
        enumeration_sweep(ctx, pms, tmpdir)
    elif case.get("valid"):
        check_valid(ctx, pms, case["fmt"], case["D"], case["order_seed"], tmpdir)
    else:
        check_corruption(ctx, pms, case, tmpdir)
    ctx.case_done(case)
