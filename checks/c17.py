"""C17  The legacy [general] section mirrors the authoritative sections.

Oracle: relations inside one written text, read by the independent INI line
reader (rv/fmt_treeinfo.read_ini), and against the description D the tree was
built from.  Workload: C04's tree generator with every choice of main variant
(each top-level UID, a nested UID, none), binary and src trees, variants with
any subset of packages / repository / source_packages / source_repository,
integer and float timestamps, extra platforms; written with
dump(f, main_variant=...).  Secondary monitor on a restricted domain: the text
stripped to [general] + images/stage2/checksums is loaded as a header-less
(pre-productmd) file and must show the same arch, family, version, timestamp
and variant.
"""
import io
import random

from rv import formats
from rv import fmt_treeinfo as F

PROPERTY = "C17"
LEVEL = "exploration"
RULE = ("cases = (tree description, requested main variant) pairs from C04's generator; distinct by the pair; "
        "non-trivial when the tree has >= 2 top-level variants, an explicit main variant, a src arch, a float timestamp "
        "or extra platforms")
ASSUMPTIONS = ["the INI line reader in rv/fmt_treeinfo.py is the trusted independent reader",
               "'alphabetically first' is judged only when code-point order and case-insensitive order agree on the first UID",
               "float timestamps are non-negative (int() truncation vs floor is not judged)",
               "the secondary monitor uses the library's own header-less reader as the stand-in for a pre-productmd reader"]
REQUIRED_REACH = ["treeinfo.General.serialize", "treeinfo.TreeInfo.dump", "treeinfo.TreeInfo.serialize", "treeinfo.Tree.serialize"]
REQUIRED_MONITORS = ["general-mirrors-release-tree", "general-variant-choice", "general-packagedir-repository", "legacy-reader-sees-same-tree"]
CLASS_FLOORS = {"variants-made-for-another-tree": 20, "object-read-from-a-file-written-with-another-main-variant": 20, "main-none": 10, "main-top": 10, "main-nested": 5, "main-not-first": 5, "src-tree": 10, "binary-tree": 10,
                "ts-float": 10, "ts-int": 10, "several-top": 10, "extra-platforms": 10, "main-has-packages": 5,
                "main-has-repository": 5, "main-has-neither": 5, "src-fallback-packages": 5, "src-fallback-repository": 5,
                "src-both-binary-and-source-paths": 3, "binary-tree-only-source-paths": 3, "dump-to-path": 5}


def plan(tier):
    if tier == "thorough":
        return {"shards": 16, "params": {"cases": 20000, "budget_s": 1500}, "timeout_s": 3000}
    return {"shards": 4, "params": {"cases": 1000, "budget_s": 300}, "timeout_s": 900}


def _pm():
    import productmd.treeinfo as t
    return t


def gen_case(rng, i):
    force = ["src-tree", "several-platforms", None, "paths-all", "paths-none", "dashed-top-optional", None, "depth-3", "many-variants", "name-carries-version", "two-dashed-top-optionals"][i % 11]
    D = F.gen_description(rng, force, hostile=(i % 3 == 0))
    if force is None and rng.random() < 0.3:
        formats.equalise("treeinfo", D, rng)
    # make path subsets of packages/repository/source_* diverse
    for v in F.iter_nodes(D["variants"]):
        r = rng.random()
        if r < 0.5:
            for k in ("packages", "repository", "source_packages", "source_repository"):
                if rng.random() < 0.5:
                    v["paths"][k] = F.tpath(rng, hostile=False)
                else:
                    v["paths"].pop(k, None)
    if rng.random() < 0.4:
        D["tree"]["build_timestamp"] = rng.choice([1386857206.87, 1417653911.68, 1.5, 1.999, 123456.0, 2.0 ** 40 + 0.5,
                                                   1.0 + rng.random() * 2e9])
    tops = sorted(v["uid"] for v in D["variants"])
    nested = [v["uid"] for v in F.iter_nodes(D["variants"]) if v["uid"] not in tops]
    r = i % 5
    if r in (0, 1):
        main = None
    elif r == 2 and nested:
        main = rng.choice(nested)
    elif r == 3:
        main = tops[-1]
    else:
        main = rng.choice(tops)
    case = {"D": D, "main_variant": main, "order_seed": rng.randrange(1 << 30), "to_path": i % 7 == 0}
    if i % 4 == 1:
        # the object that is written was READ from a file - one written with another main variant than the one asked for now
        others = [u for u in tops if u != main] + ([None] if main is not None else [])
        case["via_reload_of_a_file_written_with_main"] = rng.choice(others) if others and rng.random() < 0.8 else main
        case["via_reload"] = True
    if i % 6 == 3:
        D["variants_made_for_another_tree"] = True
    return case


def find_variant(D, uid):
    for v in F.iter_nodes(D["variants"]):
        if v["uid"] == uid:
            return v
    return None


def check_case(ctx, pm, case, tmpdir):
    D, main = case["D"], case["main_variant"]
    rng = random.Random(case["order_seed"])
    try:
        ti = F.build(pm, D, rng)
        if D.get("variants_made_for_another_tree"):
            ctx.count("variants-made-for-another-tree")
        if case.get("via_reload"):
            first = io.StringIO()
            ti.dump(first, main_variant=case["via_reload_of_a_file_written_with_main"])
            ti = pm.TreeInfo()
            ti.loads(first.getvalue())
            ctx.count("object-read-from-a-file" + ("-written-with-another-main-variant" if case["via_reload_of_a_file_written_with_main"] != main else ""))
        if case.get("to_path"):
            import os
            path = os.path.join(tmpdir, "treeinfo")
            ti.dump(path, main_variant=main)
            with open(path) as f:
                textout = f.read()
            os.unlink(path)
            ctx.count("dump-to-path")
        else:
            out = io.StringIO()
            ti.dump(out, main_variant=main)
            textout = out.getvalue()
    except Exception as e:   # refused to write (any exception): outside this property, judged by C06
        ctx.note_add("write_refused")
        ctx.note("write_refused_example", "%s: %s" % (type(e).__name__, e))
        return False
    # the same object written again with ANOTHER main variant and then again as requested: the last text must equal the
    # first (what is written depends on the object and the requested main variant only, not on earlier writes)
    others = [u for u in sorted(v["uid"] for v in D["variants"]) if u != main] + ([None] if main is not None else [])
    if others:
        try:
            o2 = io.StringIO()
            ti.dump(o2, main_variant=others[case["order_seed"] % len(others)])
            o3 = io.StringIO()
            ti.dump(o3, main_variant=main)
            again = o3.getvalue()
        except Exception as e:
            again = "raised %s: %s" % (type(e).__name__, e)
        bad = again != textout
        ctx.monitor("write-independent-of-earlier-writes", fired=bad)
        if bad:
            g1 = F.read_ini(textout)[0].get("general", {}) if isinstance(again, str) else {}
            try:
                g2 = F.read_ini(again)[0].get("general", {})
            except Exception:
                g2 = again[:200]
            ctx.violation("write-independent-of-earlier-writes", "the [general] section depends on the tree and the requested main variant only, "
                          "not on what was requested in an earlier write of the same object", case,
                          observed={"after another write": g2}, expected={"first write": g1})
    sections, _ = F.read_ini(textout)
    g = sections.get("general")
    arch = D["tree"]["arch"]
    ts = D["tree"]["build_timestamp"]
    tops = sorted(v["uid"] for v in D["variants"])
    # classes
    ctx.count("src-tree" if arch == "src" else "binary-tree")
    ctx.count("ts-float" if isinstance(ts, float) else "ts-int")
    if len(tops) > 1:
        ctx.count("several-top")
    if set(D["tree"]["platforms"]) - set([arch]):
        ctx.count("extra-platforms")
    ctx.count("main-none" if main is None else "main-top" if main in tops else "main-nested")
    if main is not None and main != tops[0]:
        ctx.count("main-not-first")
    if g is None:
        ctx.monitor("general-mirrors-release-tree", fired=True)
        ctx.violation("general-mirrors-release-tree", "every written .treeinfo contains a [general] section", case,
                      observed=sorted(sections), expected="[general]")
        return True
    # --- (1) mirrors of [release] / [tree], inside the text and against D
    rel, tree = sections.get("release", {}), sections.get("tree", {})
    want = {"family": D["release"]["name"], "version": D["release"]["version"],
            "name": "%s %s" % (D["release"]["name"], D["release"]["version"]), "arch": arch,
            "platforms": ",".join(sorted(set(D["tree"]["platforms"]) | set([arch]))), "timestamp": str(int(ts))}
    probs = []
    for k, v in want.items():
        if g.get(k) != v:
            probs.append("[general] %s: expected %r, found %r" % (k, v, g.get(k)))
    if g.get("family") != rel.get("name"):
        probs.append("[general] family %r != [release] name %r" % (g.get("family"), rel.get("name")))
    if g.get("version") != rel.get("version"):
        probs.append("[general] version %r != [release] version %r" % (g.get("version"), rel.get("version")))
    if g.get("arch") != tree.get("arch"):
        probs.append("[general] arch %r != [tree] arch %r" % (g.get("arch"), tree.get("arch")))
    if g.get("platforms") != tree.get("platforms"):
        probs.append("[general] platforms %r != [tree] platforms %r" % (g.get("platforms"), tree.get("platforms")))
    try:
        from rv.downconvert import exact_int
        if exact_int(tree.get("build_timestamp")) != int(g.get("timestamp")):
            probs.append("[general] timestamp %r is not the integer part of [tree] build_timestamp %r" % (g.get("timestamp"), tree.get("build_timestamp")))
    except (TypeError, ValueError):
        probs.append("timestamps unreadable: %r / %r" % (g.get("timestamp"), tree.get("build_timestamp")))
    ctx.monitor("general-mirrors-release-tree", fired=bool(probs))
    if probs:
        ctx.violation("general-mirrors-release-tree", "[general] family/version/name/arch/platforms/timestamp mirror [release] and [tree]",
                      case, observed=probs, expected=want)
    # --- (2) variant choice
    judged = True
    if main is not None:
        want_variant = main
    else:
        want_variant = tops[0]
        if sorted(tops, key=lambda s: s.casefold())[0] != tops[0]:
            judged = False
            ctx.note_add("default_variant_order_ambiguous_not_judged")
    if judged:
        bad = g.get("variant") != want_variant
        ctx.monitor("general-variant-choice", fired=bad)
        if bad:
            ctx.violation("general-variant-choice", "'variant' is the requested main variant, else the alphabetically first top-level variant",
                          case, observed=g.get("variant"), expected=want_variant)
    # --- (3) packagedir / repository of that variant
    chosen = find_variant(D, g.get("variant")) if g.get("variant") else None
    if chosen is not None and judged:
        p = chosen["paths"]
        exp = {}
        for gk, bk, sk in (("packagedir", "packages", "source_packages"), ("repository", "repository", "source_repository")):
            if p.get(bk) is not None:
                exp[gk] = p[bk]
                ctx.count("main-has-" + bk)
                if arch == "src" and p.get(sk) is not None:
                    ctx.count("src-both-binary-and-source-paths")
            elif arch == "src" and p.get(sk) is not None:
                exp[gk] = p[sk]
                ctx.count("src-fallback-" + bk)
            else:
                exp[gk] = None
                if arch != "src" and p.get(sk) is not None:
                    ctx.count("binary-tree-only-source-paths")
        if exp["packagedir"] is None and exp["repository"] is None:
            ctx.count("main-has-neither")
        probs = []
        for gk, v in exp.items():
            if g.get(gk) != v:
                probs.append("[general] %s: expected %r, found %r" % (gk, v, g.get(gk)))
        # and inside the text: equal to the variant's own section
        sec = sections.get(("addon-" if chosen["type"] == "addon" else "variant-") + chosen["uid"], {})
        for gk, bk, sk in (("packagedir", "packages", "source_packages"), ("repository", "repository", "source_repository")):
            src_ok = arch == "src" and bk not in sec and g.get(gk) == sec.get(sk)
            if gk in g and not (g[gk] == sec.get(bk) or src_ok):
                probs.append("[general] %s %r is not the variant section's %s %r" % (gk, g[gk], bk, sec.get(bk)))
        ctx.monitor("general-packagedir-repository", fired=bool(probs))
        if probs:
            ctx.violation("general-packagedir-repository",
                          "packagedir/repository are the chosen variant's packages/repository (src tree: source fallback), absent when it has neither",
                          case, observed=probs, expected=exp)
    # --- (4) a pre-productmd reader given only the compatibility sections (restricted domain)
    name, version = D["release"]["name"], D["release"]["version"]
    hack_names = ("Red Hat", "Fedora", "CentOS", "EulerOS", "Subscription Asset Manager", "JBEAP")
    restricted = (not any(name.startswith(h) for h in hack_names) and version.replace(".", "").isdigit() and
                  main in tops + [None] and judged and "%" not in name and "-" not in (g.get("variant") or "-"))
    if restricted:
        keep = ["general"] + [s for s in sections if s.startswith("images-") or s in ("stage2", "checksums")]
        lines = []
        for s in keep:
            lines.append("[%s]" % s)
            for k, v in sections[s].items():
                lines.append("%s = %s" % (k, v))
            lines.append("")
        legacy_text = "\n".join(lines)
        try:
            old = pm.TreeInfo()
            old.loads(legacy_text)
            got = {"arch": old.tree.arch, "family": old.release.name, "version": old.release.version,
                   "timestamp": old.tree.build_timestamp, "variant": sorted(v.uid for v in old.variants.variants.values())}
        except Exception as e:
            got = "raised %s: %s" % (type(e).__name__, e)
        want4 = {"arch": arch, "family": name, "version": version, "timestamp": int(ts), "variant": [g.get("variant")]}
        bad = got != want4
        ctx.monitor("legacy-reader-sees-same-tree", fired=bad)
        if bad:
            ctx.violation("legacy-reader-sees-same-tree", "a reader given only the compatibility sections sees the same tree",
                          {"case": case, "legacy_text": legacy_text}, observed=got, expected=want4)
    return True


def run_shard(ctx):
    import os
    pm = _pm()
    n = int(ctx.params.get("cases", 300))
    rng = ctx.rng(0)
    tmpdir = os.path.join(ctx.scratch, "c17")
    os.makedirs(tmpdir, exist_ok=True)
    for i in range(n):
        if i % 64 == 0 and ctx.out_of_time():
            ctx.note("stopped_early_at", i)
            break
        case = gen_case(rng, i)
        written = check_case(ctx, pm, case, tmpdir)
        D = case["D"]
        nontriv = written and (len(D["variants"]) > 1 or case["main_variant"] is not None or D["tree"]["arch"] == "src" or
                               isinstance(D["tree"]["build_timestamp"], float) or bool(D["tree"]["platforms"]))
        ctx.case_done(case, nontrivial=nontriv)
        if written and len(ctx.samples) < 2 and i >= 2 and len(list(F.iter_nodes(D["variants"]))) <= 3:
            ctx.sample(case)


def replay(ctx, case):
    import os
    pm = _pm()
    tmpdir = os.path.join(ctx.scratch, "c17")
    os.makedirs(tmpdir, exist_ok=True)
    check_case(ctx, pm, case.get("case", case), tmpdir)
    ctx.case_done(case)
