"""C14  Release ids round-trip; validators accept exactly the documented names.

Monitors
  predicate-short/version/type : library predicate == reference automaton
        (explicit character loops, no regex) on EVERY string up to length L
        over {a, A, 1, -, ., @, _, LF}; exhaustive within the bound.
  create-refuses-iff           : create_release_id raises ValueError exactly
        when the reference predicates refuse one of its parts.
  round-trip                   : parse_release_id(create_release_id(parts)) == parts
        for generated shorts (dashed or not), versions, all nine types, with
        and without base product.
"""
import itertools

from rv.gen import text
from rv.model import domains

PROPERTY = "C14"
LEVEL = "exploration"
RULE = ("(a) every string of length 0..L over the 8-letter alphabet {a,A,1,-,.,@,_,LF} is fed to each of the three "
        "predicates (L=6 quick, L=8 thorough; exhaustive within that bound, each string distinct by construction; the "
        "empty string counts as trivial); (b) generated (short, version, type[, base product]) tuples, distinct by "
        "tuple, non-trivial when the short is dashed, the type is not ga, or a base product is present")
ASSUMPTIONS = ["the reference predicates in this file transcribe the rule in the property statement",
               "strings longer than L are covered only by the generated round-trip / refusal cases"]
REQUIRED_REACH = ["common.is_valid_release_short", "common.is_valid_release_version", "common.is_valid_release_type",
                  "common.create_release_id", "common.parse_release_id", "common._parse_release_id_part"]
REQUIRED_MONITORS = ["predicate-short", "predicate-version", "predicate-type", "create-refuses-iff", "round-trip"]
ALPHABET = ["a", "A", "1", "-", ".", "@", "_", "\n"]
# second, smaller enumeration: characters that str methods and the regex shorthands (\\d, \\w, \\s, isdigit, strip) treat
# differently from the documented ASCII classes
ALPHABET_U = ["a", "1", "-", ".", "\u0663", "\uff17", "\u00b2", "\u00e9", " ", "\u00a0"]
RT_CLASSES = ["short-plain", "short-dashed", "short-multi-dashed", "short-with-type-segment", "version-numeric", "version-dotted",
              "version-leading-zeros", "version-freeform", "version-ends-like-type", "version-edge-blank-or-foreign-digit", "with-bp", "bp-short-dashed", "bp-type-nonga"] + \
             ["type-" + t for t in domains.RELEASE_TYPES]
CLASS_FLOORS = dict((c, 10) for c in RT_CLASSES)
CLASS_FLOORS.update({"version-component-beyond-int-conversion-limit": 5, "create-unknown-valid-type": 50, "enumerated-non-ascii-or-blank": 1000, "version-edge-blank-or-foreign-digit": 10, "refusal-short": 10, "refusal-version": 10, "refusal-type": 10, "refusal-bp": 10,
                     "create-accepted": 10})


def plan(tier):
    if tier == "thorough":
        return {"shards": 16, "params": {"L": 9, "rt_cases": 200000, "budget_s": 2400, "reach_cap": 50},
                "timeout_s": 4000}
    return {"shards": 4, "params": {"L": 6, "rt_cases": 12000, "budget_s": 400, "reach_cap": 50}, "timeout_s": 900}


# ---- reference predicates (no regex) --------------------------------------

def ref_short(s):
    if not isinstance(s, str) or not s:
        return False
    if not ("a" <= s[0] <= "z"):
        return False
    seg_len = 0
    for ch in s:
        if ch == "-":
            if seg_len == 0:
                return False
            seg_len = 0
        elif ("a" <= ch <= "z") or ("0" <= ch <= "9"):
            seg_len += 1
        else:
            return False
    return seg_len > 0


ref_type = ref_short


def ref_version(s):
    if not isinstance(s, str) or not s:
        return False
    if not ("0" <= s[0] <= "9"):
        return True
    run = 0
    for ch in s:
        if ch == ".":
            if run == 0:
                return False
            run = 0
        elif "0" <= ch <= "9":
            run += 1
        else:
            return False
    return run > 0


REFS = {"short": ref_short, "version": ref_version, "type": ref_type}


def classify_predicate(which, s, lib, ref):
    """Mechanism classifier for predicate disagreements (known-findings keys)."""
    if "\n" not in s:
        return None
    if lib is True and ref is False and s.endswith("\n") and "\n" not in s[:-1] and REFS[which](s[:-1]):
        return "trailing-line-break-accepted"
    if which == "version" and lib is False and ref is True:
        return "version-with-line-break"
    return None


def classify_roundtrip(c):
    if "-" in c["short"] and c["type"] == "ga":
        return "dashed-short-with-implicit-ga"
    if c.get("bp_short") and "-" in c["bp_short"] and c["bp_type"] == "ga":
        return "dashed-short-with-implicit-ga"
    return None


# ---- generators ------------------------------------------------------------

def gen_short(rng, dashes=None):
    n = rng.choice([0, 0, 1, 2]) if dashes is None else dashes
    segs = [rng.choice(text.LOWER) + text.chars(rng, text.LOWER + text.DIGITS, 0, 5)]
    for _ in range(n):
        segs.append(text.chars(rng, text.LOWER + text.DIGITS, 1, 4))
    return "-".join(segs)


def gen_version(rng, kind=None):
    kind = kind or rng.choice(["numeric", "dotted", "freeform", "ends-like-type", "leading-zeros", "edge-blank-or-foreign-digit"])
    if kind == "edge-blank-or-foreign-digit":
        # free-form versions (not starting with an ASCII digit): blanks at either end, digits of other scripts in front
        core = rng.choice(["x", "Rawhide", "beta 2", "a.b", ""])
        return rng.choice([core + " ", core + "\t", core + "\u00a0", core + "\u3000", " " + core, "\u00a0" + core + " ",
                           "\u0663" + core, "\uff17" + core, "\u00b2" + core, "\uff17.1", "\u0663.\u0663"])
    if kind == "leading-zeros":
        return rng.choice(["00", "07", "7.00", "1.05", "2024.01.09", "0.0.01", "010"])
    if kind == "numeric":
        if rng.random() < 0.02:
            # "dot-separated decimal integers" has no length bound: components beyond what int() converts by default (4300 digits)
            return rng.choice(["7" * 4301, "1." + "9" * 5000, "0" * 4400 + ".1"])
        return str(rng.choice([0, 1, 7, 22, 2024, rng.randint(0, 10 ** 6)]))
    if kind == "dotted":
        return ".".join(str(rng.randint(0, 30)) for _ in range(rng.randint(2, 4)))
    if kind == "ends-like-type":
        return rng.choice(["mega", "saga", "xfast", "eus", "ga", "updates", "beta.ga", "Xaus", "testing"])
    return rng.choice(["Rawhide", "rawhide", "Bikeshed", "x", "_1", ".5", "A.b", "é1"]) + \
        rng.choice(["", "", "1", ".2", "_3", " 4", "+5"])


def gen_rt(rng, force=None):
    c = {}
    d = None
    if force == "short-plain":
        d = 0
    elif force == "short-dashed":
        d = 1
    elif force == "short-multi-dashed":
        d = rng.choice([2, 3])
    c["short"] = gen_short(rng, d)
    vk = None
    typeseg = force == "short-with-type-segment" or rng.random() < 0.05
    if force and force.startswith("version-"):
        vk = force[len("version-"):]
    c["version"] = gen_version(rng, vk)
    c["type"] = rng.choice(domains.RELEASE_TYPES)
    if force and force.startswith("type-"):
        c["type"] = force[5:]
    if typeseg:
        # a dashed short name with a later segment that starts with (or is) the text of the release type itself
        t = c["type"] if c["type"] != "ga" else rng.choice(["eus", "fast", "updates"])
        c["type"] = t
        c["short"] = rng.choice(["rhel", "a-b", "sat", "x"]) + "-" + t.split("-")[0] + rng.choice(["", "6", "x", "-extras"])
    bp = rng.random() < 0.4 or force in ("with-bp", "bp-short-dashed", "bp-type-nonga")
    if bp:
        c["bp_short"] = gen_short(rng, 1 if force == "bp-short-dashed" else None)
        c["bp_version"] = gen_version(rng)
        c["bp_type"] = rng.choice(domains.RELEASE_TYPES)
        if force == "bp-type-nonga":
            c["bp_type"] = rng.choice([t for t in domains.RELEASE_TYPES if t != "ga"])
    return c


def rt_classes(c):
    out = []
    nd = c["short"].count("-")
    out.append("short-plain" if nd == 0 else "short-dashed" if nd == 1 else "short-multi-dashed")
    v = c["version"]
    if v.isascii() and v.isdigit():
        out.append("version-numeric")
    elif "0" <= v[:1] <= "9":
        out.append("version-dotted")
    else:
        out.append("version-freeform")
    if any(v.endswith(t) for t in domains.RELEASE_TYPES):
        out.append("version-ends-like-type")
    if v != v.strip() or (v[:1].isdigit() and not ("0" <= v[:1] <= "9")) or v[:1] == "\u00b2":
        out.append("version-edge-blank-or-foreign-digit")
    if len(v) > 4300:
        out.append("version-component-beyond-int-conversion-limit")
    if "0" <= v[:1] <= "9" and any(len(p) > 1 and p.startswith("0") for p in v.split(".")):
        out.append("version-leading-zeros")
    if any(seg.startswith(t.split("-")[0]) for seg in c["short"].split("-")[1:] for t in domains.RELEASE_TYPES if t != "ga"):
        out.append("short-with-type-segment")
    out.append("type-" + c["type"])
    if c.get("bp_short"):
        out.append("with-bp")
        if "-" in c["bp_short"]:
            out.append("bp-short-dashed")
        if c["bp_type"] != "ga":
            out.append("bp-type-nonga")
    return out


def gen_bad(rng, which):
    """A string the reference predicate of `which` refuses."""
    for _ in range(50):
        if which in ("short", "type"):
            s = rng.choice(["", "1a", "A", "aB", "a_b", "a--b", "-a", "a-", "a b", "a.b", "a@b", "é", "a\n", "a-\n", "a\u0663", "a\uff11", "a-\u00b2", "\u0430bc", "a ", "a\u00a0",
                            "Updates", "ga ", " ga", "a-B", "0"]) if rng.random() < 0.7 else \
                text.chars(rng, "aA1-._@", 0, 6)
        else:
            s = rng.choice(["", "1.", "1..2", ".1.", "1a", "1-2", "1 ", "1.2.", "1\n", "1.x", "01.", "1@", "7.\u0663", "1.\u00b2", "1\uff11",
                            "1\u00a0"]) \
                if rng.random() < 0.7 else "1" + text.chars(rng, "aA1-._@", 0, 5)
        if not REFS[which](s):
            return s
    return ""


# ---- monitors --------------------------------------------------------------

def check_predicates(ctx, pm, s, findings_budget):
    for which in ("short", "version", "type"):
        ref = REFS[which](s)
        try:
            lib = pm[which](s)
        except Exception as e:
            lib = "raised %s: %s" % (type(e).__name__, e)
        bad = lib is not ref
        ctx.monitor("predicate-" + which, fired=bad)
        if bad:
            ctx.violation("predicate-" + which,
                          "is_valid_release_%s accepts exactly the documented names" % which,
                          {"predicate": which, "string": s}, observed=lib, expected=ref,
                          key=classify_predicate(which, s, lib, ref))


def check_create(ctx, pm, c):
    """create_release_id refuses precisely what the predicates refuse."""
    ok_ref = ref_short(c["short"]) and ref_version(c["version"]) and ref_type(c["type"])
    if c.get("bp_short"):
        ok_ref = ok_ref and ref_short(c["bp_short"]) and ref_version(c["bp_version"]) and ref_type(c["bp_type"])
    try:
        rid = pm["create"](c["short"], c["version"], c["type"], c.get("bp_short"), c.get("bp_version"), c.get("bp_type"))
        got = "created"
    except ValueError:
        rid, got = None, "ValueError"
    except Exception as e:
        rid, got = None, "raised %s: %s" % (type(e).__name__, e)
    want = "created" if ok_ref else "ValueError"
    bad = got != want
    ctx.monitor("create-refuses-iff", fired=bad)
    if bad:
        key = None
        parts = [("short", c["short"]), ("version", c["version"]), ("type", c["type"])]
        if c.get("bp_short"):
            parts += [("short", c["bp_short"]), ("version", c["bp_version"]), ("type", c["bp_type"])]
        keys = set()
        for which, s in parts:
            if isinstance(s, str) and not REFS[which](s) and got == "created":
                keys.add(classify_predicate(which, s, True, False))
            elif isinstance(s, str) and REFS[which](s) and got == "ValueError" and "\n" in s:
                keys.add(classify_predicate(which, s, False, True))
        keys.discard(None)
        if len(keys) == 1 and all(("\n" in s) or REFS[w](s) for w, s in parts if isinstance(s, str)):
            key = keys.pop()
        ctx.violation("create-refuses-iff", "create_release_id refuses precisely what the predicates refuse",
                      c, observed=got, expected=want, key=key)
    return rid if got == "created" and ok_ref else None


def check_roundtrip(ctx, pm, c, rid):
    want = {"short": c["short"], "version": c["version"], "type": c["type"]}
    if c.get("bp_short"):
        want.update({"bp_short": c["bp_short"], "bp_version": c["bp_version"], "bp_type": c["bp_type"]})
    try:
        got = pm["parse"](rid)
    except Exception as e:
        got = "raised %s: %s" % (type(e).__name__, e)
    bad = got != want
    ctx.monitor("round-trip", fired=bad)
    if bad:
        ctx.violation("round-trip", "parse_release_id(create_release_id(parts)) == parts",
                      {"parts": c, "release_id": rid}, observed=got, expected=want, key=classify_roundtrip(c))
    # call-history independence: parsing the release part alone AFTER the full id gives exactly the release parts,
    # parsing the full id again gives the same answer, and a caller editing a returned dict changes nothing
    if c.get("bp_short") and isinstance(got, dict):
        try:
            got["short"] = "edited-by-caller"
            alone = pm["parse"](rid.split("@")[0])
            again = pm["parse"](rid)
        except Exception as e:
            alone = again = "raised %s: %s" % (type(e).__name__, e)
        want_alone = {"short": c["short"], "version": c["version"], "type": c["type"]}
        bad = (alone != want_alone or again != want) and classify_roundtrip(c) is None
        ctx.monitor("parse-independent-of-history", fired=bad)
        if bad:
            ctx.violation("parse-independent-of-history", "parse_release_id returns exactly the parts of the id it is given, whatever was parsed before",
                          {"parts": c, "release_id": rid}, observed={"release part alone": alone, "full id again": again},
                          expected={"release part alone": want_alone, "full id again": want})
    # shape of the created id: short-version[-type][@bp]
    exp = "%s-%s" % (c["short"], c["version"]) + ("" if c["type"] == "ga" else "-" + c["type"])
    if c.get("bp_short"):
        exp += "@%s-%s" % (c["bp_short"], c["bp_version"]) + ("" if c["bp_type"] == "ga" else "-" + c["bp_type"])
    bad = rid != exp
    ctx.monitor("id-shape", fired=bad)
    if bad:
        ctx.violation("id-shape", "created id is short-version[-type][@base product id], ga implicit",
                      {"parts": c}, observed=rid, expected=exp)


def _pm():
    import productmd.common as c
    return {"short": c.is_valid_release_short, "version": c.is_valid_release_version,
            "type": c.is_valid_release_type, "create": c.create_release_id, "parse": c.parse_release_id}


def run_shard(ctx):
    pm = _pm()
    L = int(ctx.params.get("L", 6))
    # (a) exhaustive enumeration, strided over shards
    idx = 0
    done = 0
    complete = True
    for n in range(0, L + 1):
        for tup in itertools.product(ALPHABET, repeat=n):
            mine = (idx % ctx.nshards) == ctx.shard
            idx += 1
            if not mine:
                continue
            s = "".join(tup)
            check_predicates(ctx, pm, s, None)
            done += 1
            if done % 4096 == 0 and ctx.out_of_time():
                complete = False
                break
        if not complete:
            break
    LU = min(L, 5 if ctx.tier == "thorough" else 4)
    for n in range(1, LU + 1):
        for tup in itertools.product(ALPHABET_U, repeat=n):
            mine = (idx % ctx.nshards) == ctx.shard
            idx += 1
            if not mine:
                continue
            s = "".join(tup)
            if s.isascii() and not (" " in s):
                continue
            check_predicates(ctx, pm, s, None)
            ctx.count("enumerated-non-ascii-or-blank")
            done += 1
    ctx.enumerated(done, trivial=1 if ctx.shard == 0 else 0)
    ctx.note("exhaustive", complete)
    ctx.note("enumerated_strings", done)
    ctx.note("L", [L])
    if not complete:
        ctx.starved("predicate enumeration up to L=%d not completed within the time budget" % L)
    ctx.sample({"predicate-strings": ["", "a", "a-1", "a--1", "1.2", "1..2", "a\n"], "L": L})

    # (b) generated tuples
    n = int(ctx.params.get("rt_cases", 1000))
    rng = ctx.rng(1)
    for i in range(n):
        if i % 256 == 0 and ctx.out_of_time():
            break
        mode = i % 4
        if mode < 3:
            c = gen_rt(rng, RT_CLASSES[(i // 4 * 3 + mode) % len(RT_CLASSES)] if i % 2 == 0 else None)
            for k in rt_classes(c):
                ctx.count(k)
            rid = check_create(ctx, pm, c)
            if rid is not None:
                ctx.count("create-accepted")
                check_roundtrip(ctx, pm, c, rid)
            nontriv = "-" in c["short"] or c["type"] != "ga" or bool(c.get("bp_short"))
            ctx.case_done(c, nontrivial=nontriv)
            if i < 3:
                ctx.sample({"round-trip": c, "release_id": rid})
        elif i % 8 == 3:
            # a type the predicate ACCEPTS but that is not one of the known release types (dashed or not): the statement
            # ties create_release_id to the predicates, not to the table - it must be created (the round trip is only
            # claimed for known types and is not judged here)
            c = gen_rt(rng, "with-bp" if rng.random() < 0.5 else None)
            slot = rng.choice(["type"] + (["bp_type"] if c.get("bp_short") else []))
            c[slot] = rng.choice(["a-a", "a-1", "fast-track", "e4s-testing", "x", "x1", "beta", "updates-testing-2", "ga-1", "z9-z9-z9"])
            ctx.count("create-unknown-valid-type")
            check_create(ctx, pm, c)
            ctx.case_done({"unknown-valid-type": c})
        else:
            # one part replaced by a refused string
            c = gen_rt(rng, "with-bp" if rng.random() < 0.5 else None)
            slots = ["short", "version", "type"] + (["bp_short", "bp_version", "bp_type"] if c.get("bp_short") else [])
            slot = rng.choice(slots)
            which = slot.replace("bp_", "")
            c[slot] = gen_bad(rng, which)
            if slot == "bp_short" and not c[slot]:
                c[slot] = "A"   # empty bp_short means "no base product", not a refusal
            ctx.count("refusal-" + ("bp" if slot.startswith("bp_") else which))
            check_create(ctx, pm, c)
            ctx.case_done({"refusal": c})


def replay(ctx, case):
    pm = _pm()
    if "predicate" in case:
        check_predicates(ctx, pm, case["string"], None)
    elif "parts" in case:
        c = case["parts"]
        rid = check_create(ctx, pm, c)
        if rid is not None:
            check_roundtrip(ctx, pm, c, rid)
    else:
        rid = check_create(ctx, pm, case)
        if rid is not None:
            check_roundtrip(ctx, pm, case, rid)
    ctx.case_done(case)
