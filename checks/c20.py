"""C20  A compose directory is resolved to the same metadata in every supported layout.

Workload: the matrix of  present layouts (subsets of {direct metadata/,
compose/metadata/, legacy <version>/metadata/}, the empty one included) x
composeinfo {absent, present} x images {absent, current name, legacy name, both}
x rpms {same four} x modules {absent, present} x trailing slash x content kind
of one designated file {valid, not JSON, empty, truncated JSON, binary garbage,
foreign header type, unknown compose type, wrong shape}; complete in the thorough
tier (exhaustive: true), a seeded sample of it in quick; configurations whose
layouts hold DIFFERENT file sets are sampled on top.  Every layout carries
different content (compose ids, image paths, RPM paths tagged with the layout
and the file name), so the origin of every answer is identifiable; unrelated
files and empty directories are sprinkled next to them.

Oracle: (1) Compose(path).compose_path must be an allowed root: path/compose
whenever that holds a composeinfo, otherwise any existing layout root (the
precedence between direct and legacy is not stated and not judged).  (2) every
accessor must behave as that root implies: its dumps() equals the dumps() of a
direct load of the file found there under the current or legacy name (either,
when both exist), or RuntimeError when the root has neither.  Caching: the same
object on re-access and NO open() audit event on the second access (how many files
the first access opens is recorded, not judged).  Errors: missing, undecodable and
ValueError-class invalid files must surface as RuntimeError whose text names
the file or the compose root; decodable JSON of the wrong shape is only
required to raise.
"""
import itertools
import json
import os
import random
import shutil

PROPERTY = "C20"
LEVEL = "exploration"
RULE = ("cases = compose directory configurations (layout subset x file presence x file names x trailing slash x content kind "
        "of one designated file); the homogeneous matrix is enumerated completely in the thorough tier; distinct by "
        "configuration; non-trivial when at least one layout is present and either several layouts exist, a legacy name is "
        "used, or the designated file is invalid")
ASSUMPTIONS = ["precedence between the direct and the legacy layout, and between current and legacy file names inside one root, is not judged",
               "HTTP/FTP locations are not driven (no network)", "audit hook sees every open() made through Python"]
REQUIRED_REACH = ["compose.Compose.__init__", "compose.Compose._find_metadata_file", "compose.Compose._load_metadata",
                  "compose.Compose.info", "compose.Compose.images", "compose.Compose.rpms", "compose.Compose.modules", "common._file_exists"]
REQUIRED_MONITORS = ["root-allowed", "accessor-equals-direct-load", "cached-object-reused", "no-open-on-second-access",
                     "error-is-runtimeerror-naming-location", "opened-once"]
LAYOUTS = ["direct", "compose", "legacy"]
NAMES = {"info": ["composeinfo.json"], "images": ["images.json", "image-manifest.json"], "rpms": ["rpms.json", "rpm-manifest.json"],
         "modules": ["modules.json"]}
PRESENCE = {"info": ["absent", "present"], "images": ["absent", "current", "legacy", "both"],
            "rpms": ["absent", "current", "legacy", "both"], "modules": ["absent", "present"]}
KINDS = ["valid", "not-json", "empty", "truncated", "binary", "foreign-type", "bad-compose-type", "wrong-shape",
         # valid metadata with nothing in it (an object that is falsy where containers define __len__)
         "valid-empty-payload",
         # the same text in an encoding a text-mode reader does not expect: judged DIFFERENTIALLY against loading the file directly
         "encoded-utf8-bom", "encoded-utf16"]
CLASS_FLOORS = {"layouts-0": 3, "layouts-1": 20, "layouts-2": 20, "layouts-3": 10, "compose-preferred": 20, "legacy-name": 20,
                "both-names": 20, "reopen-same-size-same-mtime": 20, "reopen-after-in-memory-edit": 20, "dirname-with-special-characters": 50, "spelling-relative": 20, "spelling-double-slash": 10, "spelling-dot-segment": 10, "spelling-relative-dotdot": 10, "spelling-through-symlink-dotdot": 10, "trailing-slash": 20, "heterogeneous": 10, "missing-file": 50, "accessor-loaded": 100, "mixed-kinds-two-names": 10}
for _k in KINDS:
    CLASS_FLOORS["kind-" + _k] = 10


def plan(tier):
    if tier == "thorough":
        return {"shards": 16, "params": {"matrix": "full", "hetero": 3000, "budget_s": 2000, "audit": True}, "timeout_s": 3600}
    return {"shards": 4, "params": {"matrix": 500, "hetero": 60, "budget_s": 300, "audit": True}, "timeout_s": 900}


def matrix():
    subsets = []
    for r in range(4):
        subsets += [list(c) for c in itertools.combinations(LAYOUTS, r)]
    out = []
    for ls in subsets:
        for pi in PRESENCE["info"]:
            for pim in PRESENCE["images"]:
                for pr in PRESENCE["rpms"]:
                    for pm in PRESENCE["modules"]:
                        for slash in (False, True):
                            for kind in KINDS:
                                out.append({"layouts": ls, "files": {"info": pi, "images": pim, "rpms": pr, "modules": pm},
                                            "slash": slash, "kind": kind})
    return out


# ---- content ---------------------------------------------------------------------

def _pm():
    import productmd.compose
    import productmd.composeinfo
    import productmd.images
    import productmd.rpms
    import productmd.modules
    return {"Compose": productmd.compose.Compose, "info": productmd.composeinfo.ComposeInfo, "images": productmd.images.Images,
            "rpms": productmd.rpms.Rpms, "modules": productmd.modules.Modules, "ci_mod": productmd.composeinfo,
            "im_mod": productmd.images}


def fill_compose(c, tag):
    c.id = "%s-1.0-20200101.t.0" % tag
    c.type = "test"
    c.date = "20200101"
    c.respin = 0


def make_text(pm, acc, tag):
    """Valid metadata text whose content identifies (layout, file name)."""
    tagid = "".join(ch for ch in tag if ch.isalnum())
    if acc == "info":
        ci = pm["info"]()
        ci.release.name, ci.release.short, ci.release.version, ci.release.type = "Product " + tag, tagid, "1.0", "ga"
        fill_compose(ci.compose, tagid)
        v = pm["ci_mod"].Variant(ci)
        v.id = v.uid = "Server"
        v.name = "Server " + tag
        v.type = "variant"
        v.arches = set(["x86_64"])
        ci.variants.add(v)
        return ci.dumps()
    if acc == "images":
        im = pm["images"]()
        fill_compose(im.compose, tagid)
        img = pm["im_mod"].Image(im)
        img.path = "Server/x86_64/iso/%s.iso" % tagid
        img.mtime, img.size, img.volume_id, img.type, img.format, img.arch = 1, 1, None, "dvd", "iso", "x86_64"
        img.disc_number = img.disc_count = 1
        img.checksums = {"md5": "0" * 32}
        img.implant_md5, img.bootable, img.subvariant = None, True, "Server"
        im.add("Server", "x86_64", img)
        return im.dumps()
    if acc == "rpms":
        rp = pm["rpms"]()
        fill_compose(rp.compose, tagid)
        rp.add("Server", "x86_64", "pkg-0:1-1.x86_64", "Server/x86_64/os/%s.rpm" % tagid, None, "binary", "pkg-0:1-1.src")
        return rp.dumps()
    mo = pm["modules"]()
    fill_compose(mo.compose, tagid)
    mo.add("Server", "x86_64", "mod:1:2:c", "tag-" + tagid, "Server/x86_64/os/repodata/%s.yaml" % tagid, "binary", ["pkg-0:1-1.x86_64"])
    return mo.dumps()


def empty_payload(textin, acc):
    doc = json.loads(textin)
    key = {"info": "variants", "images": "images", "rpms": "rpms", "modules": "modules"}[acc]
    doc["payload"][key] = {}
    return json.dumps(doc, indent=4, sort_keys=True)


def spoil(textin, kind, acc):
    if kind == "valid":
        return textin.encode()
    if kind == "encoded-utf8-bom":
        return b"\xef\xbb\xbf" + textin.encode("utf-8")
    if kind == "encoded-utf16":
        return textin.encode("utf-16")
    if kind == "not-json":
        return b"this is not json {\n"
    if kind == "empty":
        return b""
    if kind == "truncated":
        return textin.encode()[:len(textin) // 2]
    if kind == "binary":
        return b"\xff\xfe\x00\x80garbage\x00\xc3\x28"
    doc = json.loads(textin)
    if kind == "foreign-type":
        doc["header"]["type"] = "productmd.discinfo" if acc != "info" else "productmd.images"
    elif kind == "bad-compose-type":
        doc["payload"]["compose"]["type"] = "bogus"
    elif kind == "wrong-shape":
        del doc["payload"]["compose"]
    return json.dumps(doc).encode()


def root_of(base, layout):
    return {"direct": base, "compose": os.path.join(base, "compose"), "legacy": os.path.join(base, "1.0")}[layout]


def materialise(pm, cfg, base, texts):
    """Creates the directory tree; returns {layout: {acc: {file name: (kind, valid text)}}}."""
    placed = {}
    os.makedirs(base)
    # unrelated files and empty directories
    with open(os.path.join(base, "README"), "w") as f:
        f.write("unrelated\n")
    os.makedirs(os.path.join(base, "logs"))
    os.makedirs(os.path.join(base, "work", "global"))
    per_layout = cfg.get("per_layout_files")
    for layout in cfg["layouts"]:
        root = root_of(base, layout)
        md = os.path.join(root, "metadata")
        os.makedirs(md, exist_ok=True)
        with open(os.path.join(md, "osbs.json"), "w") as f:
            f.write("{}")
        files = per_layout[layout] if per_layout else cfg["files"]
        placed[layout] = {}
        for acc, presence in files.items():
            names = []
            if presence in ("present", "current", "both"):
                names.append(NAMES[acc][0])
            if presence in ("legacy", "both"):
                names.append(NAMES[acc][1])
            placed[layout][acc] = {}
            for name in names:
                tag = "%s-%s" % (layout, name.split(".")[0])
                key = (acc, tag)
                if key not in texts:
                    texts[key] = make_text(pm, acc, tag)
                kind = cfg["kind"] if acc == cfg.get("designated", "info") else "valid"
                only = cfg.get("spoil_only")           # 'current' / 'legacy': of two names, only that file is spoiled
                if only and len(names) == 2 and name != NAMES[acc][0 if only == "current" else 1]:
                    kind = "valid"
                t = texts[key]
                if kind == "valid-empty-payload":
                    kind, t = "valid", empty_payload(t, acc)
                with open(os.path.join(md, name), "wb") as f:
                    f.write(spoil(t, kind, acc))
                placed[layout][acc][name] = (kind, t)
    return placed


DIRNAME_STYLES = ["c%d", "c%d", "c%d [old]", "c%d", "F-22-[20150522.%d]", "c%d", "c%d*", "c%d?x", "c%d", "c%d (copy) #1", "c%d-\u00e9", "c%d%%20x",
                  "c%d", "[c%d]", "c%d{a,b}"]
SPELLINGS = ["plain", "plain", "relative", "double-slash", "dot-segment", "relative-dotdot", "plain", "relative", "through-symlink-dotdot"]


def check_config(ctx, pm, cfg, workdir, texts, counter):
    """The compose path is spelled absolutely or relative to the working directory (which is then `workdir` for the
    whole case - accessors open their files lazily)."""
    cwd = os.getcwd()
    os.chdir(workdir)
    try:
        return _check_config(ctx, pm, cfg, workdir, texts, counter)
    finally:
        os.chdir(cwd)


def _check_config(ctx, pm, cfg, workdir, texts, counter):
    # directory names are the caller's: characters that mean something to glob / fnmatch / the shell / URL parsers are
    # ordinary characters in a file name
    style = cfg.get("dirname_style") or DIRNAME_STYLES[(counter // 3) % len(DIRNAME_STYLES)]
    name = style % counter
    spelling = cfg.get("spelling") or SPELLINGS[counter % len(SPELLINGS)]
    base = os.path.join(workdir, name)
    link = None
    if spelling == "through-symlink-dotdot":
        # <link>/../<name>: the kernel resolves the link first, so '..' is the parent of the link's TARGET - a directory in
        # another place than the one a textual normalisation of the path arrives at
        home = os.path.join(workdir, "elsewhere%d" % counter)
        shutil.rmtree(home, ignore_errors=True)
        os.makedirs(os.path.join(home, "sub"))
        link = os.path.join(workdir, "latest%d" % counter)
        if os.path.lexists(link):
            os.unlink(link)
        os.symlink(os.path.join("elsewhere%d" % counter, "sub"), link)
        base = os.path.join(home, name)
    if os.path.exists(base):
        shutil.rmtree(base)
    placed = materialise(pm, cfg, base, texts)
    path = {"plain": base, "relative": name, "double-slash": os.path.dirname(base) + "//" + name,
            "dot-segment": os.path.join(os.path.dirname(base), ".", name),
            "relative-dotdot": os.path.join(name, "..", name),
            "through-symlink-dotdot": os.path.join(link or "", "..", name)}[spelling]
    path = path + ("/" if cfg["slash"] else "")
    case = dict(cfg, spelling=spelling, dirname_style=style)
    ctx.count("spelling-" + spelling)
    if style != "c%d":
        ctx.count("dirname-with-special-characters")
    ctx.count("layouts-%d" % len(cfg["layouts"]))
    if cfg["slash"]:
        ctx.count("trailing-slash")
    if cfg.get("per_layout_files"):
        ctx.count("heterogeneous")
    try:
        comp = pm["Compose"](path)
    except Exception as e:
        ctx.monitor("root-allowed", fired=True)
        ctx.violation("root-allowed", "opening a compose directory never fails by itself", case,
                      observed="Compose() raised %s: %s" % (type(e).__name__, e), expected="an object")
        shutil.rmtree(base, ignore_errors=True)
        return
    # (1) allowed root
    spelled_root = comp.compose_path
    # compared as the kernel resolves them (a textual normpath is wrong for <link>/..)
    got_root = os.path.realpath(comp.compose_path) if link is not None else os.path.normpath(os.path.abspath(comp.compose_path))
    roots = dict((l, os.path.realpath(root_of(base, l)) if link is not None else os.path.normpath(root_of(base, l))) for l in cfg["layouts"])
    compose_has_info = "compose" in placed and placed["compose"]["info"]
    if compose_has_info:
        allowed = [roots["compose"]]
        ctx.count("compose-preferred")
    elif roots:
        allowed = sorted(roots.values())
    else:
        allowed = [os.path.normpath(base)]
    bad = got_root not in allowed
    ctx.monitor("root-allowed", fired=bad)
    if bad:
        ctx.violation("root-allowed", "the compose is resolved to path/compose when that holds a composeinfo, else to an existing layout root",
                      case, observed=os.path.relpath(got_root, base), expected=[os.path.relpath(a, base) for a in allowed])
        shutil.rmtree(base, ignore_errors=True)
        return
    layout = None
    for l, r in roots.items():
        if r == got_root:
            layout = l
    # (2) accessors, read in a configuration-dependent order (the answer must not depend on it)
    order = ["info", "images", "rpms", "modules"]
    random.Random(json.dumps(cfg, sort_keys=True)).shuffle(order)
    loaded_texts = {}
    for acc in order:
        here = placed.get(layout, {}).get(acc, {}) if layout else {}
        if len(here) == 2:
            ctx.count("both-names")
        elif here and list(here)[0] != NAMES[acc][0]:
            ctx.count("legacy-name")
        ctx.audit.begin(base)
        try:
            obj = getattr(comp, acc)
            outcome, exc = "loaded", None
        except RuntimeError as e:
            obj, outcome, exc = None, "RuntimeError", e
        except Exception as e:
            obj, outcome, exc = None, "other:%s" % type(e).__name__, e
        events = ctx.audit.end()
        sub = dict(case, accessor=acc, resolved_layout=layout)
        kinds = set(k for k, _t in here.values())
        if outcome != "loaded":
            # a failed access must keep failing the same way (nothing half-loaded may be cached)
            try:
                getattr(comp, acc)
                second = "loaded"
            except RuntimeError:
                second = "RuntimeError"
            except Exception as e2:
                second = "other:%s" % type(e2).__name__
            bad = second != outcome
            ctx.monitor("failure-not-cached", fired=bad)
            if bad:
                ctx.violation("failure-not-cached", "an accessor whose file is missing or invalid fails on every access, not only on the first",
                              sub, observed={"first": outcome, "second": second}, expected="the same outcome twice")
        if not here:
            ctx.count("missing-file")
            bad = outcome != "RuntimeError" or not names_location(str(exc), got_root, base, [], spelled_root)
            ctx.monitor("error-is-runtimeerror-naming-location", fired=bad)
            if bad:
                ctx.violation("error-is-runtimeerror-naming-location", "a missing metadata file surfaces as RuntimeError naming the location",
                              sub, observed="%s: %s" % (outcome, str(exc)[:200]), expected="RuntimeError mentioning %s" % os.path.relpath(got_root, workdir))
            continue
        if kinds == set(["valid"]):
            ctx.count("accessor-loaded")
            want = set()
            for name, (kind, t) in here.items():
                direct = pm[acc]()
                direct.loads(t)
                want.add(direct.dumps())
            try:
                got = obj.dumps() if obj is not None else None
            except Exception as e:
                got = "dumps raised %s" % type(e).__name__
            if outcome == "loaded" and isinstance(got, str):
                loaded_texts[acc] = got
            if outcome == "loaded" and len(here) == 2 and got in want and len(want) == 2:
                # which of the two names the library reads when both are there (observed, then held against it below)
                for name, (kind0, t0) in here.items():
                    d0 = pm[acc]()
                    d0.loads(t0)
                    if d0.dumps() == got:
                        pref = "current" if name == NAMES[acc][0] else "legacy"
                        prefs = ctx.__dict__.setdefault("_c20_name_pref", {})
                        prefs.setdefault(acc, set()).add(pref)
            bad = outcome != "loaded" or got not in want
            ctx.monitor("accessor-equals-direct-load", fired=bad)
            if bad:
                ctx.violation("accessor-equals-direct-load", "each of info/images/rpms/modules equals what loading the file of the resolved root directly gives",
                              sub, observed=outcome if outcome != "loaded" else _origin(got), expected=[_origin(w) for w in want],
                              detail=str(exc)[:200] if exc else None)
                continue
            opened = [e for e in events if "/metadata/" in e[1] and e[1].endswith(".json")]
            # observed, not judged: 'loaded once and then reused' is the caching claim checked below; how many files the
            # first access opens is an implementation matter
            ctx.monitor("opened-once")
            if len(opened) != 1:
                ctx.note_add("first_access_opened_%d_files" % len(opened))
            # caching
            ctx.audit.begin(base)
            try:
                obj2 = getattr(comp, acc)
            except Exception as e:
                obj2 = "raised %s" % type(e).__name__
            ev2 = ctx.audit.end()
            bad = obj2 is not obj
            ctx.monitor("cached-object-reused", fired=bad)
            if bad:
                ctx.violation("cached-object-reused", "a second access returns the object loaded the first time", sub,
                              observed=repr(obj2)[:100], expected="the same object")
            bad = len(ev2) > 0
            ctx.monitor("no-open-on-second-access", fired=bad)
            if bad:
                ctx.violation("no-open-on-second-access", "the metadata is loaded once and then reused (no file is opened again)", sub,
                              observed=[os.path.relpath(e[1], base) for e in ev2][:3], expected="no open event")
        elif "valid" in kinds and len(here) == 2:
            # one name valid, the other spoiled.  The statement does not say which name wins; the library must at least
            # be CONSISTENT: the name it reads when both are valid is 'the file' here too - spoiled means RuntimeError,
            # valid means that file's content - it may not fall through to the other name
            prefs = ctx.__dict__.get("_c20_name_pref", {}).get(acc)
            ctx.count("mixed-kinds-two-names")
            if prefs is None or len(prefs) != 1:
                ctx.note_add("mixed_kinds_not_judged_preference_unknown")
            else:
                pref_name = NAMES[acc][0 if list(prefs)[0] == "current" else 1]
                pk, pt = here[pref_name]
                if pk == "valid":
                    d0 = pm[acc]()
                    d0.loads(pt)
                    want_mixed = d0.dumps()
                else:
                    want_mixed = "RuntimeError"
                try:
                    got_mixed = obj.dumps() if outcome == "loaded" else outcome
                except Exception as e:
                    got_mixed = "dumps raised %s" % type(e).__name__
                bad = got_mixed != want_mixed and not (pk == "wrong-shape" and outcome != "loaded")
                ctx.monitor("name-preference-consistent", fired=bad)
                if bad:
                    ctx.violation("name-preference-consistent", "with the current or the legacy file name: the name the library reads when both "
                                  "files are valid is the file it answers for - an undecodable file under that name surfaces as RuntimeError, "
                                  "it is not skipped in favour of the other name", sub,
                                  observed=_origin(got_mixed) if outcome == "loaded" else outcome,
                                  expected=_origin(want_mixed) if want_mixed != "RuntimeError" else "RuntimeError (the %s file is %s)" % (pref_name, pk))
        elif "valid" not in kinds:
            kind = sorted(kinds)[0]
            ctx.count("kind-" + kind)
            if kind.startswith("encoded-"):
                # whatever loading the file directly does, the accessor does (RuntimeError standing for the direct load's error)
                wants = set()
                for name in here:
                    direct = pm[acc]()
                    try:
                        direct.load(os.path.join(got_root, "metadata", name))
                        wants.add(direct.dumps())
                    except Exception:
                        wants.add("RuntimeError")
                try:
                    got = obj.dumps() if outcome == "loaded" else outcome
                except Exception as e:
                    got = "dumps raised %s" % type(e).__name__
                bad = got not in wants
                ctx.monitor("accessor-equals-direct-load", fired=bad)
                if bad:
                    ctx.violation("accessor-equals-direct-load", "each of info/images/rpms/modules equals what loading that file directly gives "
                                  "(a file the direct load cannot decode surfaces as RuntimeError)", sub,
                                  observed=outcome if outcome != "loaded" else "an object", expected=sorted(w[:40] for w in wants))
            elif kind == "wrong-shape":
                bad = outcome == "loaded"
                ctx.monitor("error-is-runtimeerror-naming-location", fired=bad)
                if bad:
                    ctx.violation("error-is-runtimeerror-naming-location", "a decodable file of the wrong shape is not returned as loaded metadata",
                                  sub, observed=outcome, expected="an exception")
            else:
                bad = outcome != "RuntimeError" or not names_location(str(exc), got_root, base, list(here), spelled_root)
                ctx.monitor("error-is-runtimeerror-naming-location", fired=bad)
                if bad:
                    ctx.violation("error-is-runtimeerror-naming-location", "an undecodable or invalid file surfaces as RuntimeError naming the location",
                                  sub, observed="%s: %s" % (outcome, str(exc)[:200]), expected="RuntimeError mentioning the file or the compose root")
    # (3) history independence: a fresh object that reads ONLY this accessor gives the same metadata
    for acc, t in sorted(loaded_texts.items()):
        try:
            fresh = pm["Compose"](path)
            t2 = getattr(fresh, acc).dumps()
        except Exception as e:
            t2 = "raised %s: %s" % (type(e).__name__, str(e)[:100])
        bad = t2 != t
        ctx.monitor("independent-of-access-order", fired=bad)
        if bad:
            ctx.violation("independent-of-access-order", "what an accessor returns does not depend on which other accessors were read before",
                          dict(case, accessor=acc, access_order=order), observed={"after %s" % order: _origin(t), "fresh object": _origin(t2)},
                          expected="the same metadata")
    # (4) the files are the source of truth: rewrite one file in place and open the SAME path again
    if layout is not None:
        for acc, t in sorted(loaded_texts.items())[:1]:
            here = placed[layout][acc]
            name = sorted(here)[0] if len(here) == 1 else None
            if name is None:
                continue
            new_text = make_text(pm, acc, "rewritten-%s" % acc)
            fpath = os.path.join(got_root, "metadata", name)
            try:
                with open(fpath, "w") as f:
                    f.write(new_text)
                direct = pm[acc]()
                direct.loads(new_text)
                want2 = direct.dumps()
                again = pm["Compose"](path)
                got2 = getattr(again, acc).dumps()
            except Exception as e:
                got2, want2 = "raised %s: %s" % (type(e).__name__, str(e)[:100]), "the rewritten file"
            bad = got2 != want2
            if not bad:
                # ... also when the rewritten file has the same size, the same inode and the same modification time as the one
                # read a moment ago (rsync -t, cp -p, SOURCE_DATE_EPOCH builds), and whatever a caller did IN MEMORY to the
                # object an earlier Compose handed out
                try:
                    st = os.stat(fpath)
                    handed_out = getattr(again, acc)
                    handed_out.compose.respin = 77
                    handed_out.compose.id = "Scribbled-1-20200101.77"
                    third = pm["Compose"](path)
                    got3 = getattr(third, acc).dumps()
                    if got3 != want2:
                        bad = True
                        got2 = "the object an earlier Compose handed out, with the caller's in-memory edits: " + _origin(got3)
                    ctx.count("reopen-after-in-memory-edit")
                    twin = make_text(pm, acc, "rewrittex-%s" % acc)
                    if not bad and len(twin) == len(new_text) and twin != new_text:
                        with open(fpath, "r+") as f:
                            f.write(twin)
                        os.utime(fpath, ns=(st.st_atime_ns, st.st_mtime_ns))
                        direct = pm[acc]()
                        direct.loads(twin)
                        want2 = direct.dumps()
                        got2 = getattr(pm["Compose"](path), acc).dumps()
                        bad = got2 != want2
                        ctx.count("reopen-same-size-same-mtime")
                except Exception as e:
                    got2, bad = "raised %s: %s" % (type(e).__name__, str(e)[:100]), True
            ctx.monitor("reopen-sees-rewritten-file", fired=bad)
            if bad:
                ctx.violation("reopen-sees-rewritten-file", "opening a compose yields the metadata stored for it NOW: a new Compose on the same path "
                              "after a file was rewritten returns the new content", dict(case, accessor=acc), observed=_origin(got2),
                              expected=_origin(want2))
    ctx.count("kind-valid") if cfg["kind"] == "valid" else None
    ctx.count("kind-valid-empty-payload") if cfg["kind"] == "valid-empty-payload" else None
    shutil.rmtree(base, ignore_errors=True)
    if link is not None:
        os.unlink(link)
        shutil.rmtree(os.path.dirname(base), ignore_errors=True)


def names_location(msg, root, base, names, spelled=None):
    if spelled and (spelled in msg or spelled.rstrip("/") in msg or os.path.normpath(spelled) in msg):
        return True
    if root in msg or os.path.normpath(root) in msg or os.path.relpath(root, base) not in (".",) and root.rstrip("/") in msg:
        return True
    if base in msg:
        return True
    return any(n in msg for n in names)


def _origin(t):
    if not isinstance(t, str):
        return repr(t)
    try:
        return json.loads(t)["payload"]["compose"]["id"]
    except Exception:
        return t[:60]


def nontrivial(cfg):
    return bool(cfg["layouts"]) and (len(cfg["layouts"]) > 1 or cfg["kind"] != "valid" or
                                     any(v in ("legacy", "both") for v in cfg["files"].values()))


def run_shard(ctx):
    pm = _pm()
    from rv import instr
    if ctx.audit is None:
        ctx.audit = instr.AuditLog.install()
    workdir = os.path.join(ctx.scratch, "c20")
    os.makedirs(workdir, exist_ok=True)
    M = matrix()
    texts = {}
    ctx.note("matrix_size", [len(M)])
    rng = ctx.rng(0)
    mode = ctx.params.get("matrix", 400)
    designated_cycle = ["info", "images", "rpms", "modules"]
    if mode == "full":
        idxs = list(range(ctx.shard, len(M), ctx.nshards))
        ctx.note("exhaustive", True)
    else:
        # seeded sample, stratified so that every kind / layout count occurs
        idxs = sorted(random.Random("%s/C20/%s" % (ctx.seed, ctx.shard)).sample(range(len(M)), int(mode)))
        ctx.note("exhaustive", False)
    done = 0
    for n, i in enumerate(idxs):
        if n % 64 == 0 and ctx.out_of_time():
            ctx.note("stopped_early_at", n)
            if mode == "full":
                ctx.note("exhaustive", False)
                ctx.starved("the full matrix was not completed within the time budget")
            break
        cfg = dict(M[i])
        cfg["designated"] = designated_cycle[i % 4]
        # the designated file must exist for a non-valid kind to mean anything
        if cfg["kind"] != "valid" and cfg["files"][cfg["designated"]] == "absent":
            for d in designated_cycle:
                if cfg["files"][d] != "absent":
                    cfg["designated"] = d
                    break
        if cfg["kind"] not in ("valid", "valid-empty-payload") and cfg["files"][cfg["designated"]] == "both":
            cfg["spoil_only"] = [None, "current", "legacy"][n % 3]
        check_config(ctx, pm, cfg, workdir, texts, n)
        done += 1
        if n < 2:
            ctx.sample(cfg)
    ctx.enumerated(done, trivial=len([1 for i in idxs[:done] if not nontrivial(M[i])]))
    # heterogeneous file sets
    rng = ctx.rng(1)
    for j in range(int(ctx.params.get("hetero", 20))):
        if j % 32 == 0 and ctx.out_of_time():
            break
        ls = rng.sample(LAYOUTS, rng.choice([2, 2, 3]))
        per = {}
        for l in ls:
            per[l] = dict((acc, rng.choice(PRESENCE[acc])) for acc in NAMES)
        cfg = {"layouts": ls, "files": per[ls[0]], "per_layout_files": per, "slash": rng.random() < 0.5,
               "kind": rng.choice(KINDS), "designated": rng.choice(designated_cycle)}
        check_config(ctx, pm, cfg, workdir, texts, 100000 + j)
        ctx.case_done(cfg, nontrivial=True)
        if j == 0:
            ctx.sample(cfg)


def replay(ctx, case):
    pm = _pm()
    from rv import instr
    if ctx.audit is None:
        ctx.audit = instr.AuditLog.install()
    workdir = os.path.join(ctx.scratch, "c20")
    os.makedirs(workdir, exist_ok=True)
    cfg = dict((k, v) for k, v in case.items() if k not in ("accessor", "resolved_layout"))
    check_config(ctx, pm, cfg, workdir, {}, 0)
    ctx.case_done(cfg)
