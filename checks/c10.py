"""C10  Source content is always filed under binary architectures.

Monitors
  add-arch-refusal : Images.add / Rpms.add under any architecture string - every
        binary arch of the table, src, nosrc, unknown names, case variants -
        is refused iff the arch is src/nosrc/unknown, and a refusal leaves the
        table as it was (snapshot before/after).
  no-source-key    : after every history and after every conversion, neither
        the live table nor the dumped payload has 'src', 'nosrc' or an unknown
        name as an architecture key.
  images-conversion: images 1.0/1.1 documents in which any subset of variants
        has a 'src' entry next to 1-3 binary arches: every src image appears
        under EVERY binary arch of its variant, binary images are unchanged.
  rpms-conversion  : rpms 0.3 documents (payload 'manifest', type
        package|debug, source RPMs in a per-variant 'src' table): every source
        RPM is re-filed with category 'source' under each binary arch that lists
        packages built from it; nothing else changes.
"""
import copy
import json

from rv import fmt_images as FI
from rv import fmt_manifests as FM
from rv.model import domains

PROPERTY = "C10"
LEVEL = "exploration"
RULE = ("cases = add calls with every architecture class, and images 1.0/1.1 / rpms 0.3 documents with a 'src' entry in "
        "any subset of variants next to 1-3 binary arches (src-only variants included; only 'no source key survives' is "
        "judged for them); distinct by case; a document is non-trivial when some variant has both src and binary entries")
ASSUMPTIONS = ["the harness's own architecture table (rv/model/domains.py) is the documented one",
               "the rpms 0.3 layout is reconstructed from the property text and the legacy reader (no 0.3 document ships with the repository)"]
REQUIRED_REACH = ["images.Images.add", "images.Images._add_1_1", "rpms.Rpms.add", "rpms.Rpms.deserialize_0_3", "images.Images.deserialize"]
REQUIRED_MONITORS = ["add-arch-refusal", "refusal-leaves-state", "no-source-key", "images-conversion", "rpms-conversion"]
CLASS_FLOORS = {"images-add-src": 5, "images-add-nosrc": 5, "images-add-unknown": 5, "images-add-case": 5,
                "rpms-add-src": 5, "rpms-add-nosrc": 5, "rpms-add-unknown": 5, "rpms-add-case": 5,
                "images-add-binary-arches-distinct": len(domains.BINARY_ARCHES), "rpms-add-binary-arches-distinct": len(domains.BINARY_ARCHES),
                "images-doc-1.0": 10, "images-doc-1.1": 10, "images-doc-src-and-1-binary": 5, "images-doc-src-and-3-binary": 5,
                "images-doc-src-only-variant": 5, "images-doc-no-src": 5, "rpms-doc-src-present": 10, "rpms-doc-src-absent-for-some": 5,
                "rpms-doc-src-only-variant": 5, "rpms-doc-several-binary-arches": 5, "rpms-doc-noncanonical-keys": 5}
UNKNOWN = ["x86-64", "i387", "arm", "", "amd65", "source", "SRPMS", "x86_64 ", " x86_64", "sparc65", "any", "all"]
CASE = ["X86_64", "SRC", "Src", "NOSRC", "NoArch", "I386", "Aarch64"]


def plan(tier):
    if tier == "thorough":
        return {"shards": 16, "params": {"rounds": 400, "docs": 8000, "budget_s": 1500}, "timeout_s": 3000}
    return {"shards": 4, "params": {"rounds": 12, "docs": 400, "budget_s": 300}, "timeout_s": 900}


def _pm():
    import productmd.images
    import productmd.rpms
    return productmd.images, productmd.rpms


def bad_keys(table):
    out = []
    for variant, arches in table.items():
        for arch in arches:
            if arch in domains.SOURCE_ARCHES or arch not in domains.RPM_ARCHES:
                out.append("%s/%s" % (variant, arch))
    return out


def images_snapshot(im):
    return dict(((v, a), sorted(o.path for o in cell)) for v, arches in im.images.items() for a, cell in arches.items())


# ---- adds -------------------------------------------------------------------

def arch_class(arch):
    if arch == "src":
        return "src"
    if arch == "nosrc":
        return "nosrc"
    if arch in domains.BINARY_ARCHES:
        return "binary"
    if arch.lower() in domains.RPM_ARCHES and arch != arch.lower():
        return "case"
    return "unknown"


def check_adds(ctx, pmi, pmr, rng, seen_i, seen_r):
    arches = list(domains.BINARY_ARCHES) + ["src", "nosrc"] * 3 + UNKNOWN + CASE
    rng.shuffle(arches)
    im = pmi.Images()
    rp = pmr.Rpms()
    if rng.random() < 0.5:
        # the builder objects REFUSED an older document a moment ago (its header was read, then a field was bad): what they
        # accept afterwards is still governed by the rule, not by the version of the file that failed
        ver = rng.choice(["1.0", "1.1", "0.3"])
        bad_img = {"header": {"version": ver}, "payload": {"compose": {"id": "X-1-20200101.0", "type": "production", "date": "20200101", "respin": 0},
                                                          "images": {"Server": {"x86_64": [{"path": "a.iso", "type": "no-such-type"}]}}}}
        bad_rpm = {"header": {"version": ver}, "payload": {"compose": {"id": "X-1-20200101.0", "type": "production", "date": "20200101", "respin": 0},
                                                          "rpms": {"Server": {"x86_64": {"not-a-nevra": {"also-not": {}}}}}}}
        for o, d in ((im, bad_img), (rp, bad_rpm)):
            try:
                o.loads(json.dumps(d))
            except Exception:
                pass
        im.images.clear()
        rp.rpms.clear()
        ctx.count("builder-refused-an-older-document-before")
    pool = [FM.gen_source_package(rng, i) for i in range(2)]
    n = 0
    filed_imgs, filed_ops = [], []
    for arch in arches:
        cls = arch_class(arch)
        want = "accept" if cls == "binary" else "refuse"
        # images
        a = FI.gen_image_attrs(rng)
        a["subvariant"] = "sv%d" % n
        n += 1
        img = FI.make_image(pmi, im, a)
        if cls != "binary" and filed_imgs and n % 2 == 0:
            # the very image OBJECT the manifest accepted under a binary architecture is offered again under this one
            a, img = filed_imgs[n % len(filed_imgs)]
            ctx.count("images-add-%s-object-already-filed" % ("source" if cls in ("src", "nosrc", "source") else "unknown"))
        before = images_snapshot(im)
        try:
            im.add("Server", arch, img)
            got = "accept"
        except (ValueError, TypeError):
            got = "refuse"
        except Exception as e:
            got = "raised %s" % type(e).__name__
        after = images_snapshot(im)
        ctx.count("images-add-" + cls)
        if cls == "binary" and got == "accept":
            seen_i.add(arch)
            filed_imgs.append((a, img))
        case = {"manifest": "images", "arch": arch, "attrs": a}
        ctx.monitor("add-arch-refusal", fired=got != want)
        if got != want:
            ctx.violation("add-arch-refusal", "adding under src, nosrc or an unknown architecture is refused; under a known binary architecture it is accepted",
                          case, observed=got, expected=want)
        if got != "accept":
            ctx.monitor("refusal-leaves-state", fired=before != after)
            if before != after:
                ctx.violation("refusal-leaves-state", "a refused add changes nothing", case, observed=str(after)[:300], expected=str(before)[:300])
        # rpms
        op = FM.gen_rpms_op(rng, pool)
        if cls != "binary" and filed_ops and n % 2 == 1:
            # exactly the call the manifest accepted before, now aimed at this architecture
            op = json.loads(json.dumps(filed_ops[n % len(filed_ops)]))
            ctx.count("rpms-add-%s-call-already-accepted" % ("source" if cls in ("src", "nosrc", "source") else "unknown"))
        op["args"]["arch"] = arch
        before = FM.real_state(rp, "rpms")
        try:
            FM.apply_real(rp, op)
            got = "accept"
        except (ValueError, TypeError):
            got = "refuse"
        except Exception as e:
            got = "raised %s" % type(e).__name__
        after = FM.real_state(rp, "rpms")
        ctx.count("rpms-add-" + cls)
        if cls == "binary" and got == "accept":
            seen_r.add(arch)
            filed_ops.append(op)
        case = {"manifest": "rpms", "arch": arch, "op": op}
        ctx.monitor("add-arch-refusal", fired=got != want)
        if got != want:
            ctx.violation("add-arch-refusal", "adding under src, nosrc or an unknown architecture is refused; under a known binary architecture it is accepted",
                          case, observed=got, expected=want)
        if got != "accept":
            ctx.monitor("refusal-leaves-state", fired=before != after)
            if before != after:
                ctx.violation("refusal-leaves-state", "a refused add changes nothing", case, observed=FM.first_diff(before, after), expected="unchanged")
    # invariant on live tables and dumped payloads
    FI.fill_compose(im.compose, {"id": "X-1-20200101.0", "type": "production", "date": "20200101", "respin": 0, "label": None, "final": False})
    FM.fill_compose(rp.compose)
    probs = bad_keys(im.images) + bad_keys(rp.rpms)
    try:
        probs += bad_keys(json.loads(im.dumps())["payload"]["images"])
        probs += bad_keys(json.loads(rp.dumps())["payload"]["rpms"])
    except Exception as e:
        probs.append("dump failed: %s: %s" % (type(e).__name__, e))
    ctx.monitor("no-source-key", fired=bool(probs))
    if probs:
        ctx.violation("no-source-key", "no src/nosrc/unknown architecture key in the tables or in the dumped payload",
                      {"after": "add history over every architecture class"}, observed=probs[:6], expected="none")
    return 2 * len(arches)


# ---- images documents ---------------------------------------------------------

def gen_images_doc(rng, version):
    variants = rng.sample(["Server", "Client", "Workstation", "Cloud"], rng.randint(1, 4))
    layout = {}
    n = 0
    for v in variants:
        nbin = rng.choice([0, 1, 1, 2, 3])
        has_src = rng.random() < 0.7
        if nbin == 0 and not has_src:
            nbin = 1
        arches = rng.sample(["x86_64", "i386", "aarch64", "ppc64le", "s390x"], nbin)
        cells = {}
        keys = arches + (["src"] if has_src else [])
        # key order in a JSON file is arbitrary: sorted (as the library writes it), or shuffled
        keys = sorted(keys) if rng.random() < 0.5 else rng.sample(keys, len(keys))
        for a in keys:
            lst = []
            for _ in range(rng.randint(0 if a != "src" else 1, 3)):
                at = FI.gen_image_attrs(rng)
                at["unified"] = False
                at["additional_variants"] = []
                at["subvariant"] = "%s%d" % (v, n)      # unique identity per image
                at["path"] = "%s/%s/iso/img%d.iso" % (v, "source" if a == "src" else a, n)
                at["arch"] = a
                n += 1
                lst.append(at)
            cells[a] = lst
        layout[v] = cells
    return {"version": version, "layout": layout}


def render_images_doc(Dc):
    images = {}
    for v, cells in Dc["layout"].items():
        for a, lst in cells.items():
            out = images.setdefault(v, {}).setdefault(a, [])
            for at in lst:
                d = dict((k, at[k]) for k in FI.ATTRS if k not in ("unified", "additional_variants"))
                if Dc["version"] == "1.0":
                    d.pop("subvariant")
                out.append(d)
    hdr = {"version": Dc["version"]}
    if Dc["version"] != "1.0":
        hdr["type"] = "productmd.images"
    return {"header": hdr, "payload": {"compose": {"id": "X-1-20200101.0", "type": "production", "date": "20200101", "respin": 0},
                                       "images": images}}


def check_current_doc_with_bad_arch(ctx, pmi, rng):
    """A CURRENT-version images document that files a cell under src / nosrc / an unknown name: whatever the loader does
    with it (reject or re-file), no such key may end up in the manifest or in what it writes."""
    Dc = gen_images_doc(rng, "1.1")
    Dc["version"] = "1.2"
    bad = rng.choice(["src", "nosrc", "x86-64", "SRC"])
    v = rng.choice(sorted(Dc["layout"]))
    cells = Dc["layout"][v]
    if "src" in cells and bad != "src":
        cells[bad] = cells.pop("src")
    elif "src" not in cells:
        a = rng.choice(sorted(cells))
        cells[bad] = cells.pop(a)
    doc = render_images_doc(Dc)
    ctx.count("current-doc-bad-arch")
    try:
        im = pmi.Images()
        im.loads(json.dumps(doc))
    except Exception:
        ctx.monitor("no-source-key")
        return
    probs = bad_keys(im.images)
    try:
        probs += bad_keys(json.loads(im.dumps())["payload"]["images"])
    except Exception:
        pass
    ctx.monitor("no-source-key", fired=bool(probs))
    if probs:
        ctx.violation("no-source-key", "an images manifest never has src, nosrc or an unknown name as a tree architecture - also not one "
                      "loaded from a current-version document", {"version": "1.2", "layout": Dc["layout"]}, observed=probs[:5], expected="none")


def check_images_doc(ctx, pmi, Dc):
    ctx.count("images-doc-" + Dc["version"])
    nontrivial = False
    for v, cells in Dc["layout"].items():
        nb = len([a for a in cells if a != "src"])
        if "src" in cells and nb == 0:
            ctx.count("images-doc-src-only-variant")
        elif "src" in cells:
            nontrivial = True
            ctx.count("images-doc-src-and-%d-binary" % nb)
        else:
            ctx.count("images-doc-no-src")
    doc = render_images_doc(Dc)
    try:
        im = pmi.Images()
        im.loads(json.dumps(doc))
    except Exception as e:
        # an otherwise valid older document with src entries must be re-filed, not refused
        ctx.monitor("images-conversion", fired=True)
        ctx.violation("images-conversion", "loading an older images document re-files every source image under each binary architecture of the same variant",
                      Dc, observed="load rejected the document: %s: %s" % (type(e).__name__, str(e)[:200]), expected="converted manifest")
        return nontrivial
    probs = bad_keys(im.images)
    try:
        probs += bad_keys(json.loads(im.dumps())["payload"]["images"])
    except Exception as e:
        probs.append("dump after conversion failed: %s: %s" % (type(e).__name__, e))
    ctx.monitor("no-source-key", fired=bool(probs))
    if probs:
        ctx.violation("no-source-key", "the converted manifest and what is written back contain no source architecture key",
                      Dc, observed=probs[:6], expected="none")
    got = images_snapshot(im)
    want = {}
    for v, cells in Dc["layout"].items():
        bins = [a for a in cells if a != "src"]
        for a in bins:
            paths = [at["path"] for at in cells[a]] + [at["path"] for at in cells.get("src", [])]
            if paths:
                want[(v, a)] = sorted(paths)
    got = dict((k, v) for k, v in got.items() if v and k[1] not in domains.SOURCE_ARCHES)
    bad = got != want
    ctx.monitor("images-conversion", fired=bad)
    if bad:
        ctx.violation("images-conversion", "every source image is re-filed under each binary architecture of the same variant; binary images unchanged",
                      Dc, observed=dict(("%s/%s" % k, v) for k, v in sorted(got.items())),
                      expected=dict(("%s/%s" % k, v) for k, v in sorted(want.items())))
    return nontrivial


# ---- rpms 0.3 documents ---------------------------------------------------------

def spell(parts, style):
    """A legal spelling of a NEVRA key: canonical, with '.rpm', with a leading directory, with a zero-padded epoch."""
    s = FM.canon(parts)
    if style == "rpm":
        return s + ".rpm"
    if style == "dir":
        return "Packages/" + s
    if style == "epoch0":
        return "%s-0%d:%s-%s.%s" % (parts["name"], int(parts["epoch"]), parts["version"], parts["release"], parts["arch"])
    return s


def gen_rpms_doc(rng):
    variants = rng.sample(["Server", "Client", "Workstation"], rng.randint(1, 3))
    pool = []
    names = set()
    for i in range(rng.randint(1, 4)):
        # distinct packages have distinct names: two pool entries that spell ONE source NEVRA in two ways would be two keys of
        # one document naming the same package - which of them survives the conversion is not the property's business
        # (a false alarm of this check met with VERIF_SEED=1 once the random stream had shifted)
        for _try in range(20):
            pkg = FM.gen_source_package(rng, i)
            mine = set([pkg["src"]["name"]] + [p0["name"] for p0, _c in pkg["subs"]])
            if not (mine & names):
                break
        else:
            continue
        names |= mine
        pool.append(pkg)
    # one spelling per package, used consistently wherever the document names it
    for pkg in pool:
        pkg["style"] = rng.choice(["canon", "canon", "rpm", "dir", "epoch0"])
    layout = {}
    for v in variants:
        nbin = rng.choice([0, 1, 1, 2, 3])
        arches = rng.sample(["x86_64", "i386", "aarch64", "ppc64le"], nbin)
        cells = {}
        used = set()
        for a in arches:
            table = {}
            for pkg in rng.sample(pool, rng.randint(1, len(pool))):
                skey = spell(pkg["src"], pkg["style"])
                subs = {}
                for parts, cat in pkg["subs"]:
                    if rng.random() < 0.8:
                        subs[spell(parts, pkg["style"])] = {"path": "%s/%s/os/Packages/%s.rpm" % (v, a, parts["name"]),
                                                 "sigkey": rng.choice([None, "fd431d51", "FD431D51"]),
                                                 "type": "package" if cat == "binary" else "debug"}
                if subs:
                    table[skey] = subs
                    used.add(skey)
            cells[a] = table
        src = {}
        for pkg in pool:
            skey = spell(pkg["src"], pkg["style"])
            if (skey in used or nbin == 0) and rng.random() < 0.8:
                src[skey] = {"path": "%s/source/SRPMS/%s.src.rpm" % (v, pkg["src"]["name"]),
                             "sigkey": rng.choice([None, "fd431d51", "AB12CD34"])}
        if src and rng.random() < 0.9:
            cells["src"] = src
        if cells:
            layout[v] = cells
    canon_of = {}
    for pkg in pool:
        canon_of[spell(pkg["src"], pkg["style"])] = FM.canon(pkg["src"])
        for parts, cat in pkg["subs"]:
            canon_of[spell(parts, pkg["style"])] = FM.canon(parts)
    return {"layout": layout, "canon": canon_of}


def render_rpms_doc(Dc):
    from rv import formats as _formats
    import random as _random
    layout = Dc["layout"]
    if len(json.dumps(layout)) % 2 == 0:
        Dc = dict(Dc, layout=_formats.shuffle_keys(layout, _random.Random(len(json.dumps(layout)))))
    return {"header": {"version": "0.3"},
            "payload": {"compose": {"id": "X-1-20200101.0", "type": "production", "date": "20200101", "respin": 0},
                        "manifest": copy.deepcopy(Dc["layout"])}}


def check_rpms_doc(ctx, pmr, Dc):
    nontrivial = False
    want = {}
    for v, cells in Dc["layout"].items():
        bins = [a for a in cells if a != "src"]
        src = cells.get("src")
        if src is not None and not bins:
            ctx.count("rpms-doc-src-only-variant")
        if len(bins) > 1:
            ctx.count("rpms-doc-several-binary-arches")
        missing = False
        cz = Dc.get("canon", {})
        for a in bins:
            for skey, subs in cells[a].items():
                if cz.get(skey, skey) != skey:
                    ctx.count("rpms-doc-noncanonical-keys")
                tgt = want.setdefault(v, {}).setdefault(a, {}).setdefault(cz.get(skey, skey), {})
                for rkey, d in subs.items():
                    tgt[cz.get(rkey, rkey)] = {"path": d["path"], "sigkey": d["sigkey"].lower() if d["sigkey"] else d["sigkey"],
                                 "category": "binary" if d["type"] == "package" else d["type"]}
                if src is not None and skey in src:
                    tgt[cz.get(skey, skey)] = {"path": src[skey]["path"], "sigkey": src[skey]["sigkey"].lower() if src[skey]["sigkey"] else src[skey]["sigkey"],
                                 "category": "source"}
                    nontrivial = True
                else:
                    missing = True
        if src is not None and bins:
            ctx.count("rpms-doc-src-present")
            if missing:
                ctx.count("rpms-doc-src-absent-for-some")
    doc = render_rpms_doc(Dc)
    try:
        rp = pmr.Rpms()
        rp.loads(json.dumps(doc))
    except Exception as e:
        ctx.monitor("rpms-conversion", fired=True)
        ctx.violation("rpms-conversion", "loading an rpms 0.3 document re-files every source RPM under each binary architecture that lists packages built from it",
                      Dc, observed="load rejected the document: %s: %s" % (type(e).__name__, str(e)[:200]), expected="converted manifest")
        return nontrivial
    probs = bad_keys(rp.rpms)
    try:
        probs += bad_keys(json.loads(rp.dumps())["payload"]["rpms"])
    except Exception as e:
        probs.append("dump after conversion failed: %s: %s" % (type(e).__name__, e))
    ctx.monitor("no-source-key", fired=bool(probs))
    if probs:
        ctx.violation("no-source-key", "the converted manifest and what is written back contain no source architecture key",
                      Dc, observed=probs[:6], expected="none")
    got = FM.real_state(rp, "rpms")
    got = dict((v, dict((a, t) for a, t in arches.items() if t)) for v, arches in got.items())
    got = dict((v, a) for v, a in got.items() if a)
    want = dict((v, dict((a, t) for a, t in arches.items() if t)) for v, arches in want.items())
    want = dict((v, a) for v, a in want.items() if a)
    diffs = FM.first_diff(want, got)
    ctx.monitor("rpms-conversion", fired=bool(diffs))
    if diffs:
        ctx.violation("rpms-conversion", "every source RPM is re-filed (category source) under each binary architecture listing packages built from it",
                      Dc, observed=diffs, expected="model mapping")
    return nontrivial


def run_shard(ctx):
    pmi, pmr = _pm()
    rounds = int(ctx.params.get("rounds", 5))
    rng = ctx.rng(0)
    seen_i, seen_r = set(), set()
    for r in range(rounds):
        if ctx.out_of_time():
            break
        n = check_adds(ctx, pmi, pmr, rng, seen_i, seen_r)
        for k in range(n):
            ctx.case_done({"adds-round": r, "k": k, "shard": ctx.shard})
    if ctx.shard == 0:
        ctx.count("images-add-binary-arches-distinct", len(seen_i))
        ctx.count("rpms-add-binary-arches-distinct", len(seen_r))
    ctx.sample({"add-architectures": ["x86_64", "src", "nosrc"] + UNKNOWN[:3] + CASE[:3]})
    docs = int(ctx.params.get("docs", 100))
    rng = ctx.rng(1)
    for i in range(docs):
        if i % 32 == 0 and ctx.out_of_time():
            ctx.note("stopped_early_at", i)
            break
        if i % 8 == 3:
            check_current_doc_with_bad_arch(ctx, pmi, rng)
        if i % 2 == 0:
            Dc = gen_images_doc(rng, "1.0" if i % 4 == 0 else "1.1")
            nt = check_images_doc(ctx, pmi, Dc)
            ctx.case_done({"images-doc": Dc}, nontrivial=nt)
            if i == 2:
                ctx.sample({"images-document-layout": dict((v, dict((a, [x["path"] for x in l]) for a, l in c.items())) for v, c in Dc["layout"].items()),
                            "version": Dc["version"]})
        else:
            Dc = gen_rpms_doc(rng)
            nt = check_rpms_doc(ctx, pmr, Dc)
            ctx.case_done({"rpms-doc": Dc}, nontrivial=nt)
            if i == 1:
                ctx.sample({"rpms-0.3-document": render_rpms_doc(Dc)["payload"]["manifest"]})


def replay(ctx, case):
    pmi, pmr = _pm()
    if "version" in case and "layout" in case:
        check_images_doc(ctx, pmi, case)
    elif "layout" in case:
        check_rpms_doc(ctx, pmr, case)
    else:
        import random
        check_adds(ctx, pmi, pmr, random.Random(0), set(), set())
    ctx.case_done(case)
