"""C07  Documents violating a documented constraint are rejected on load.

Workload: valid current-version documents (the library's own output for the
generated objects of C01-C04) with exactly ONE corruption (rv/doccorrupt.py):
 (i)   one field value, anywhere in the document, replaced by a value outside
       its documented domain;
 (ii)  header type swapped for another format's type (or removed) at header
       versions 1.1, 1.2 and 2.0 - and at 1.0, below the stated gate, where the
       outcome is recorded but not judged;
 (iii) the version string mangled;
 (iv)  one required key / section / line deleted.
Oracle: the statement's own closing clause.  For (i) a successful load is a
violation iff the loaded object is still invalid - dumps() on it raises, or it
writes the injected invalid value back - so documented read-side
normalisations (case-folding, int()/bool() coercions) do not alarm while
'accepted and kept invalid' does.  For (ii)-(iv) any normal return is a
violation; any exception counts as rejection.
"""
import os

from rv import doccorrupt as DC
from rv import formats
from rv.ctx import jsonable

PROPERTY = "C07"
LEVEL = "exploration"
RULE = ("cases = (format, valid description, one corruption); corruption kinds and positions are visited round-robin; "
        "distinct by (format, corruption, description); every case carries exactly one corruption and is non-trivial "
        "unless the corruption did not apply to that document")
ASSUMPTIONS = ["the library's own dumps() of a generated valid object is a valid current-version document (C01-C04 check that)",
               "rv/doccorrupt.py holds invalid values and the table of required keys (documented without default and without "
               "legacy fallback; treeinfo [header] and [tree] are not required)",
               "below header version 1.1 a foreign header type is recorded, not judged"]
REQUIRED_REACH = ["common.Header.deserialize", "treeinfo.Header.deserialize", "common.MetadataBase.loads",
                  "composeinfo.Compose.deserialize", "composeinfo.Release.deserialize", "composeinfo.Variant.deserialize",
                  "images.Image.deserialize", "images.Images.add", "treeinfo.Tree.deserialize", "treeinfo.Variant.deserialize",
                  "treeinfo.Images.deserialize", "treeinfo.Stage2.deserialize", "treeinfo.Checksums.deserialize",
                  "treeinfo.Media.deserialize", "discinfo.DiscInfo.deserialize"]
REQUIRED_MONITORS = ["invalid-value-rejected-or-normalised", "foreign-type-rejected", "mangled-version-rejected",
                     "missing-required-rejected", "uncorrupted-loads"]
CLASS_FLOORS = {"kind-value": 100, "kind-delete": 50, "kind-header-type": 50, "kind-version": 30, "type-gate-1.0-recorded": 5,
                "entry-loads": 100, "entry-load-path": 100, "entry-load-fileobj": 100, "entry-compose-accessor": 50, "type-gate-1.1": 10, "type-gate-1.2": 10, "type-gate-2.0": 10, "type-deleted": 5, "value-normalised-on-read": 5}
for _f in formats.FORMATS:
    CLASS_FLOORS["fmt-" + _f] = 20


def plan(tier):
    if tier == "thorough":
        return {"shards": 16, "params": {"docs": 2500, "per_doc": 24, "budget_s": 1500, "vtrace": True}, "timeout_s": 3000}
    return {"shards": 4, "params": {"docs": 160, "per_doc": 16, "budget_s": 300, "vtrace": True}, "timeout_s": 900}


def classify(fmt, cor, how):
    v = cor.get("value")
    if isinstance(v, str) and v.endswith("\n") and "\n" not in v[:-1]:
        return "trailing-line-break-accepted"
    return None


def corruptions_for(fmt, doc, rng, k):
    """k corruptions of mixed kinds for this document."""
    out = []
    if fmt in DC.JSON_FORMATS:
        vs = DC.json_value_slots(fmt, doc)
        req = DC.json_required_paths(fmt, doc)
    elif fmt == "treeinfo":
        vs = DC.ini_value_slots(doc)
        req = DC.ini_required_paths(doc)
    else:
        vs = list(DC.DISC_VALUE_SLOTS)
        req = [[0], [1], [2]]
    for _ in range(k):
        r = rng.random()
        if r < 0.55 or fmt == "discinfo" and r < 0.8:
            name, path, values = rng.choice(vs)
            cor = {"kind": "value", "slot": name, "path": list(path), "value": rng.choice(values)}
            if name == "images.cell-arch-invalid":
                cor["new_arch"] = rng.choice(["src", "nosrc", "x86-64", "SRC", ""])
            out.append(cor)
        elif r < 0.75 or fmt == "discinfo":
            out.append({"kind": "delete", "slot": "required", "path": list(rng.choice(req))})
        elif r < 0.9:
            own = formats.HEADER_TYPE[fmt]
            t = rng.choice([x for x in DC.OTHER_TYPES if x != own] + [None])
            out.append({"kind": "header-type", "type": t, "version": rng.choice(["1.0", "1.1", "1.2", "2.0", "1.10"])})
        else:
            vals = ["1", "1.2.3", "a.b", "", "1.", ".2", "v1.2"]
            if fmt != "treeinfo":
                vals += [" 1.2", "1.2\n", 1.2, None, 1, "1,2"]
            out.append({"kind": "version", "value": rng.choice(vals)})
    return out


ENTRY_POINTS = ["loads", "load-path", "load-fileobj"]


def load(pms, fmt, textin, entry="loads", scratch=None):
    """The document reaches the reader through one of its three entry points."""
    obj = formats.new_object(pms, fmt)
    if entry == "loads" or scratch is None:
        obj.loads(textin)
        return obj
    if entry == "load-fileobj":
        import io
        obj.load(io.StringIO(textin))
        return obj
    if entry == "compose-accessor":
        # the document sits in a compose directory and is read through productmd.compose.Compose(<dir>).<accessor>; the
        # accessor is asked TWICE: a document refused the first time must not be handed out the second time
        acc, fname = COMPOSE_ACCESSOR[fmt]
        import shutil
        import productmd.compose
        root = os.path.join(scratch, "c07-compose")
        shutil.rmtree(root, ignore_errors=True)
        os.makedirs(os.path.join(root, "compose", "metadata"))
        with open(os.path.join(root, "compose", "metadata", fname), "w", encoding="utf-8", errors="surrogatepass", newline="") as f:
            f.write(textin)
        comp = productmd.compose.Compose(root)
        first = None
        try:
            return getattr(comp, acc)
        except Exception as e:
            first = e
        return getattr(comp, acc)        # raises again on a sound library
    path = os.path.join(scratch, "c07-doc")
    with open(path, "w", encoding="utf-8", errors="surrogatepass", newline="") as f:
        f.write(textin)
    obj.load(path)
    return obj


COMPOSE_ACCESSOR = {"composeinfo": ("info", "composeinfo.json"), "images": ("images", "images.json"), "rpms": ("rpms", "rpms.json"),
                    "modules": ("modules", "modules.json")}


def is_coercion_slot(cor):
    """Slots whose injected value the readers are documented to coerce into the domain (int()/bool()/case folding)."""
    return str(cor.get("slot", "")).endswith(("-numeric-string", "-truthy", "-casefold"))


def check_one(ctx, pms, fmt, D, order_seed, doc, cor):
    case = {"fmt": fmt, "D": D, "order_seed": order_seed, "corruption": cor}
    bad_doc = DC.apply(fmt, doc, cor)
    if bad_doc is None or bad_doc == doc:
        return False        # the corruption does not apply, or the 'invalid' value is what the document holds already
    import random as _random
    textin = DC.render(fmt, bad_doc, _random.Random(order_seed ^ len(str(cor))))
    kind = cor["kind"]
    ctx.count("kind-" + kind)
    entry = ENTRY_POINTS[(order_seed + len(textin)) % 3]
    if fmt in COMPOSE_ACCESSOR and (order_seed + len(textin)) % 5 == 0:
        entry = "compose-accessor"
    case["entry"] = entry
    ctx.count("entry-" + entry)
    try:
        obj = load(pms, fmt, textin, entry, ctx.scratch)
        outcome = "loaded"
    except Exception as e:
        obj = None
        outcome = "rejected:%s" % type(e).__name__
    if kind == "value":
        verdict_bad = False
        detail = None
        if obj is not None:
            # accepted: the object must be valid now (documented normalisation) - it must be writable and must
            # not write the injected value back
            try:
                t2 = obj.dumps()
                doc2 = DC.parse(fmt, t2)
                kept = None
                if fmt in DC.JSON_FORMATS and DC.has_path(doc2, cor["path"]):
                    kept = DC.get_path(doc2, cor["path"])
                elif fmt == "treeinfo":
                    kept = doc2.get(cor["path"][0], {}).get(cor["path"][1])
                elif fmt == "discinfo" and cor["path"][0] < len(doc2):
                    kept = doc2[cor["path"][0]]
                inj = cor["value"]
                same = kept == inj and type(kept) is type(inj)
                if cor.get("slot") == "images.cell-arch-invalid":
                    parent = DC.get_path(doc2, cor["path"][:-1]) if DC.has_path(doc2, cor["path"][:-1]) else {}
                    same = cor["new_arch"] in parent or any(cor["new_arch"] in a for a in obj.images.values())
                if fmt in ("treeinfo", "discinfo") and isinstance(inj, str):
                    same = kept == inj.strip() and inj.strip() != "" or (kept == inj)
                if same:
                    verdict_bad = True
                    detail = "loaded and written back unchanged"
                elif not is_coercion_slot(cor):
                    verdict_bad = True
                    detail = "loaded through %s: the reader accepted the document and silently changed it (wrote back %r)" % (entry, kept)
                else:
                    ctx.count("value-normalised-on-read")
                    ctx.note_add("normalised:%s:%s" % (fmt, cor["slot"]))
            except Exception as e:
                verdict_bad = True
                detail = "loaded, but the object cannot be written: %s: %s" % (type(e).__name__, str(e)[:150])
        ctx.monitor("invalid-value-rejected-or-normalised", fired=verdict_bad)
        if verdict_bad:
            ctx.violation("invalid-value-rejected-or-normalised",
                          "a document with one field outside its documented domain is rejected (or the value is normalised into the "
                          "domain); it is never returned as an object that is still invalid", case, observed=detail,
                          expected="an exception from load/loads", key=classify(fmt, cor, detail))
    elif kind == "header-type":
        v = cor["version"]
        if v == "1.0":
            ctx.count("type-gate-1.0-recorded")
            ctx.note_add("type_gate_1.0_" + ("loaded" if obj is not None else "rejected"))
        else:
            ctx.count("type-gate-" + ("2.0" if v in ("2.0", "1.10") else v))
            if cor["type"] is None:
                ctx.count("type-deleted")
            bad = obj is not None
            ctx.monitor("foreign-type-rejected", fired=bad)
            if bad:
                ctx.violation("foreign-type-rejected", "a header naming a different metadata type (format 1.1 and later) is rejected",
                              case, observed="loaded", expected="an exception")
    elif kind == "version":
        bad = obj is not None
        ctx.monitor("mangled-version-rejected", fired=bad)
        if bad:
            ctx.violation("mangled-version-rejected", "a malformed header version is rejected", case, observed="loaded",
                          expected="an exception", key=classify(fmt, cor, None))
    elif kind == "delete":
        bad = obj is not None
        ctx.monitor("missing-required-rejected", fired=bad)
        if bad:
            ctx.violation("missing-required-rejected", "a document lacking a required section or field is rejected", case,
                          observed="loaded", expected="an exception")
    return True


def run_shard(ctx):
    pms = formats.modules()
    n = int(ctx.params.get("docs", 50))
    per = int(ctx.params.get("per_doc", 10))
    rng = ctx.rng(0)
    for i in range(n):
        if i % 8 == 0 and ctx.out_of_time():
            ctx.note("stopped_early_at", i)
            break
        fmt = formats.FORMATS[i % len(formats.FORMATS)]
        force = None
        if fmt == "composeinfo":
            force = ["depth-3", "layered", "layered-product-variant", None][(i // 7) % 4]
        if fmt == "treeinfo":
            force = ["depth-3", "layered", "images", "media", "stage2", None][(i // 7) % 6]
        D = formats.gen(fmt, rng, force, hostile=False)
        order_seed = rng.randrange(1 << 30)
        try:
            obj = formats.build(pms, fmt, D, order_seed)
            t1 = obj.dumps()
            doc = DC.parse(fmt, t1)
            # the uncorrupted document, re-rendered by the harness, must load (control)
            load(pms, fmt, DC.render(fmt, doc))
            ctx.monitor("uncorrupted-loads")
        except Exception as e:
            ctx.monitor("uncorrupted-loads", fired=True)
            ctx.violation("uncorrupted-loads", "control: the valid document (re-rendered by the harness) loads",
                          {"fmt": fmt, "D": D, "order_seed": order_seed, "corruption": None},
                          observed="%s: %s" % (type(e).__name__, e), expected="loads")
            continue
        ctx.count("fmt-" + fmt)
        for cor in corruptions_for(fmt, doc, rng, per):
            applied = check_one(ctx, pms, fmt, D, order_seed, doc, cor)
            ctx.case_done({"f": fmt, "c": cor, "D": D}, nontrivial=applied)
            if len(ctx.samples) < 3 and applied:
                ctx.sample({"fmt": fmt, "corruption": jsonable(cor)})


def replay(ctx, case):
    pms = formats.modules()
    fmt, D = case["fmt"], case["D"]
    obj = formats.build(pms, fmt, D, case["order_seed"])
    doc = DC.parse(fmt, obj.dumps())
    if case.get("corruption"):
        check_one(ctx, pms, fmt, D, case["order_seed"], doc, case["corruption"])
    else:
        load(pms, fmt, DC.render(fmt, doc))
    ctx.case_done(case)
