"""C11  The variant forest stays consistent and every variant is findable.

Oracle: history + executable sequential model + invariant at a hook.  Histories
of 5-25 add operations (valid ones at all levels interleaved with duplicate
ids, foreign arches - also as the FIRST child of a childless parent -,
misaligned UIDs, malformed ids, an ancestor added below its own descendant,
re-adds of the same object) run against the real ComposeInfo forest and a
reference forest model.  After EVERY call: accept/refuse == prediction, the
forest snapshot (ids, uids, arches, parent uid of every member, child-id
lists) == model, and a global invariant walk (UID alignment, arch subset,
parent/children mirror, UID uniqueness, lookup by UID from the top and by id
from the parent).  Then get_variants is queried with every arch filter x type
filter x recursive on the root and on inner variants (soundness, uniqueness,
order; completeness only for the unfiltered call), and everything is repeated
on the forest obtained by loads(dumps()).

Later additions: subtrees built bottom-up on a detached variant and attached afterwards (also after a top-level
variant took a UID that occurs inside the subtree), and variants that already sit in the forest offered to another
container (as they are, or with UID/arches re-spelled): outcome not judged, the forest afterwards is (every variant
held once, by the parent its .parent names; a refusal changes nothing).
"""
import itertools
import random

from rv.gen import text
from rv.model import domains

PROPERTY = "C11"
LEVEL = "exploration"
RULE = ("cases = add histories (5-25 operations, ~45% invalid of 6 kinds) on forests of <= 7 variants / depth 3 followed by "
        "the full query matrix; distinct by history; non-trivial when the history has an accepted and a refused add and the "
        "forest has depth >= 2")
ASSUMPTIONS = ["dashed top-level UIDs occur only on childless variants and never clash with a nested UID (as the quantifier says)",
               "completeness of get_variants is judged only for the unfiltered call",
               "re-adding the same object to its own parent may be accepted or refused; only 'state unchanged' is judged",
               "offering a variant that already sits in the forest to ANOTHER container (as it is, or with UID/arches re-spelled for "
               "the new place) may be refused or carried out as a move; judged: a refusal leaves the forest unchanged, and whatever "
               "the outcome the forest holds every variant once, under the parent its .parent names, with aligned UIDs"]
REQUIRED_REACH = ["composeinfo.VariantBase.add", "composeinfo.VariantBase._get_all_parents", "composeinfo.VariantBase.__getitem__",
                  "composeinfo.VariantBase.get_variants", "composeinfo.Variant._validate_uid", "composeinfo.Variant._validate_parent_arch"]
REQUIRED_MONITORS = ["add-outcome", "forest-after-call", "invariant-walk", "lookup", "get-variants"]
KINDS = ["valid", "valid", "valid", "dup-id", "dup-uid", "foreign-arch", "foreign-arch-first-child", "misaligned-uid", "bad-id", "cycle", "readd",
         "cycle-respelled", "attached-elsewhere", "attached-elsewhere-respelled", "detached-subtree", "detached-dup-subtree"]
CLASS_FLOORS = dict(("op-" + k, 10) for k in set(KINDS))
CLASS_FLOORS["op-detached-child"] = 10
CLASS_FLOORS["child-of-doubled-dashed-top-shadows-child-of-head"] = 3
CLASS_FLOORS["detached-subtree-refused-for-inner-uid"] = 5
CLASS_FLOORS.update({"ten-or-more-siblings": 10, "depth-3": 10, "dashed-top": 5, "after-reload": 10, "query-recursive": 50, "query-arch-nobody-has": 20,
                     "query-arch-src": 20, "query-types-subset": 50, "query-self": 10, "query-inner": 20,
                     "child-id-repeats-ancestor-id": 3, "refused": 30, "accepted": 30})
ARCHES = ["x86_64", "i386", "aarch64", "ppc64le", "s390x", "ppc64", "ppc", "s390", "armhfp", "sparc", "sparc64"]   # names that are substrings of one another included


def plan(tier):
    if tier == "thorough":
        return {"shards": 16, "params": {"histories": 30000, "budget_s": 2500}, "timeout_s": 4000}
    return {"shards": 4, "params": {"histories": 350, "budget_s": 300}, "timeout_s": 900}


def _pm():
    import productmd.composeinfo as m
    return m


# ---- reference forest model --------------------------------------------------

class Forest(object):
    def __init__(self):
        self.specs = []       # handle -> spec
        self.parent = {}      # attached handle -> parent handle or None (top level)
        self.dparent = {}     # member of a DETACHED subtree (built bottom-up, not in the forest yet) -> its parent handle

    def children(self, h):
        return [c for c, p in self.parent.items() if p == h] + [c for c, p in self.dparent.items() if p == h]

    def uid_of(self, h):
        return self.specs[h]["uid"]

    def ancestors_or_self(self, h):
        out = []
        while h is not None:
            out.append(h)
            h = self.parent.get(h) if h in self.parent else self.dparent.get(h)
        return out

    def subtree(self, h):
        out, todo = [], [h]
        while todo:
            x = todo.pop()
            out.append(x)
            todo.extend(self.children(x))
        return out

    def is_detached(self, h):
        return h is not None and h not in self.parent

    def depth(self, h):
        return len(self.ancestors_or_self(h))

    def predict(self, target, h):
        """target: handle or None (top-level container)."""
        spec = self.specs[h]
        if h in self.dparent:
            return "grey", "member of a detached subtree offered again"
        if h in self.parent:
            if self.parent[h] == target:
                return "either", "same object re-added to its own parent"
            if target is not None and h in self.ancestors_or_self(target):
                return "refuse", "its own ancestor"
            return "grey", "attached elsewhere"
        vid = spec["id"]
        if not isinstance(vid, str) or not vid or not all(ch.isascii() and ch.isalnum() for ch in vid):
            return "refuse", "malformed id"
        if target is None:
            if spec["uid"].replace("-", "") != vid:
                return "refuse", "misaligned uid"
        else:
            if spec["uid"] != "%s-%s" % (self.uid_of(target), vid):
                return "refuse", "misaligned uid"
            if not set(spec["arches"]) <= set(self.specs[target]["arches"]):
                return "refuse", "foreign arch"
        if not spec["arches"]:
            return "refuse", "no arches"
        for c in self.children(target):
            if self.specs[c]["id"] == vid:
                return "refuse", "duplicate id"
        # UIDs are unique in the whole forest: a child 'Tools' of 'E' and a top-level 'E-Tools' (id 'ETools') share one
        if self.is_detached(target):
            # the subtree is not part of the forest yet; generated so that nothing collides at this point
            if any(self.specs[o]["uid"] == spec["uid"] for o in list(self.parent) + self.subtree(self.ancestors_or_self(target)[-1]) if o != h):
                return "grey", "uid known elsewhere while building a detached subtree"
            return "accept", None
        mine = self.subtree(h)
        for m in mine:
            if any(self.specs[o]["uid"] == self.specs[m]["uid"] for o in self.parent if o not in mine):
                return "refuse", "duplicate uid" if m == h else "duplicate uid inside the added subtree"
        return "accept", None

    def apply(self, target, h):
        if self.is_detached(target):
            self.dparent[h] = target
            return
        for m in self.subtree(h):
            if m in self.dparent:
                self.parent[m] = self.dparent.pop(m)
        self.parent[h] = target

    def snapshot(self):
        out = {}
        for h, p in self.parent.items():
            s = self.specs[h]
            out[s["uid"]] = {"id": s["id"], "arches": sorted(s["arches"]), "parent": None if p is None else self.uid_of(p),
                             "children": sorted(self.specs[c]["id"] for c in self.children(h)), "type": s["type"]}
        return out


# ---- generator ----------------------------------------------------------------

def gen_history(rng):
    F = Forest()
    ops = []
    n = rng.randint(5, 25)
    # one history in six is WIDE: a dozen and more siblings with numbered ids ('10' sorts before '9' as text, and
    # get_variants orders by UID as text)
    wide = rng.random() < 0.17
    pool = ["A", "B", "C", "D", "E", "Server", "Server", "optional", "x1", "0", "Q", "Tools"]
    if wide:
        stem = rng.choice(["", "V", "v0"])
        pool = ["%s%d" % (stem, k) for k in range(1, 16)]
        n = rng.randint(30, 45)
    kinds_cycle = list(KINDS)
    if wide:
        kinds_cycle = kinds_cycle + ["valid"] * len(kinds_cycle)
    rng.shuffle(kinds_cycle)
    ki = 0
    uids = set()

    def new_spec(target, kind):
        par = None if target is None else F.specs[target]
        used = set(F.specs[c]["id"] for c in F.children(target))
        for _ in range(50):
            vid = rng.choice(pool)
            if par is not None and rng.random() < (0.25 if not wide else 0.05):
                vid = rng.choice([F.specs[a]["id"] for a in F.ancestors_or_self(target)])    # child id repeating an ancestor's id
                if "-" in vid or not vid.isalnum():
                    continue
            if kind == "valid" and par is not None and par.get("dashed") and par["uid"].count("-") == 1 and \
                    par["uid"].split("-")[0] == par["uid"].split("-")[1] and rng.random() < 0.6:
                # a child of the doubled dashed variant that carries the id of a child of its plain head
                head = [h0 for h0 in F.parent if F.parent[h0] is None and F.specs[h0]["uid"] == par["uid"].split("-")[0]]
                sib_ids = [F.specs[c0]["id"] for h0 in head for c0 in F.children(h0)]
                sib_ids = [x for x in sib_ids if x not in used]
                if sib_ids:
                    vid = rng.choice(sib_ids)
                    break
            if kind == "dup-id":
                if used:
                    vid = rng.choice(sorted(used))
                    break
                return None
            if vid not in used:
                break
        else:
            return None
        arches = sorted(rng.sample(ARCHES, rng.randint(1, 3))) if par is None else \
            sorted(rng.sample(par["arches"], rng.randint(1, len(par["arches"]))))
        uid = vid if par is None else "%s-%s" % (par["uid"], vid)
        spec = {"id": vid, "uid": uid, "name": "Name %s" % vid, "type": rng.choice(domains.VARIANT_TYPES), "arches": arches}
        if kind in ("foreign-arch", "foreign-arch-first-child"):
            if par is None:
                return None
            foreign = [a for a in ARCHES if a not in par["arches"]]
            if not foreign:
                return None
            if kind == "foreign-arch-first-child" and F.children(target):
                return None
            spec["arches"] = sorted(set(rng.sample(par["arches"], rng.randint(0, len(par["arches"])))) | set([rng.choice(foreign)]))
        elif kind == "misaligned-uid":
            spec["uid"] = rng.choice([vid + "X", "Other-" + vid, vid + "-", "-" + vid] if par is None else
                                     [vid, par["uid"] + vid, par["uid"] + "-" + vid + "X", "Z-" + vid, par["uid"] + "--" + vid])
        elif kind == "bad-id":
            bad = rng.choice(["a-b", "", "a b", "a.b", "é", "a_b", "a\n"])
            spec["id"] = bad
            spec["uid"] = bad.replace("-", "") if par is None else "%s-%s" % (par["uid"], bad)
        elif kind == "valid" and par is None and rng.random() < 0.25:
            # a top-level variant with a dashed UID ('Server-Tools', id 'ServerTools') - also NEXT TO a top-level 'Server'
            # (whose children's UIDs then interleave with it in UID order)
            a, b = rng.choice(["Server", "Server", "E", "Q"]), rng.choice(["Tools", "Extras", "Z", "a1"])
            heads_with_children = [F.specs[h0]["uid"] for h0 in F.parent if F.parent[h0] is None and "-" not in F.specs[h0]["uid"] and
                                   F.specs[h0]["uid"].isalnum() and F.children(h0)]
            if heads_with_children and rng.random() < 0.5:
                a = b = rng.choice(heads_with_children)
            elif rng.random() < 0.1:
                b = a          # 'E-E' (id 'EE') next to 'E': inside 'E' the remainder 'E-<child>' reads like a child's own UID
            if a + b not in used and (a + "-" + b) not in uids and not any(u.startswith(a + "-" + b + "-") for u in uids) and \
                    not (a in uids and any(F.specs[c]["id"] == b for h0 in F.parent if F.specs[h0]["uid"] == a for c in F.children(h0))):
                spec["id"], spec["uid"] = a + b, a + "-" + b
                spec["dashed"] = True
        return spec

    for _ in range(n):
        kind = kinds_cycle[ki % len(kinds_cycle)]
        ki += 1
        attached = list(F.parent.keys())
        # choose a target container
        cands = [None] + [h for h in attached if F.depth(h) < 3]
        if kind in ("foreign-arch", "foreign-arch-first-child", "dup-id"):
            cands = [c for c in cands if c is not None or kind == "dup-id"]
            if kind == "foreign-arch-first-child":
                cands = [c for c in cands if c is not None and not F.children(c)]
        if kind == "cycle":
            pairs = [(d, a) for d in attached for a in F.ancestors_or_self(d)[1:]]
            pairs += [(d, d) for d in attached]
            if not pairs:
                kind = "valid"
                cands = [None] + [h for h in attached if F.depth(h) < 3]
            else:
                target, h = rng.choice(pairs)
                verdict, why = F.predict(target, h)
                ops.append({"kind": kind, "target": target, "handle": h, "expect": verdict, "why": why})
                continue
        if kind == "dup-uid":
            # a variant whose UID another variant of the forest already carries, under ANOTHER parent: the child <b> of <a>
            # next to a top-level '<a>-<b>', in either order
            made = None
            tops = dict((F.specs[h0]["uid"], h0) for h0 in attached if F.parent[h0] is None)
            for h0 in attached:
                s0 = F.specs[h0]
                if F.parent[h0] is None and s0.get("dashed") and s0["uid"].split("-", 1)[0] in tops and s0["uid"].count("-") == 1:
                    a, b = s0["uid"].split("-", 1)
                    par = F.specs[tops[a]]
                    if b.isalnum() and b not in [F.specs[c]["id"] for c in F.children(tops[a])]:
                        made = (tops[a], {"id": b, "uid": s0["uid"], "name": "dup", "type": "variant", "arches": sorted(par["arches"])[:1]})
                        break
                elif F.parent[h0] is not None and F.parent[F.parent[h0]] is None and "-" not in F.specs[F.parent[h0]]["uid"]:
                    a, b = F.specs[F.parent[h0]]["uid"], s0["id"]
                    if (a + b) not in [F.specs[t]["id"] for t in tops.values()]:
                        made = (None, {"id": a + b, "uid": a + "-" + b, "name": "dup", "type": "variant", "arches": ["x86_64"], "dashed": True})
                        break
            if made is None:
                kind = "valid"
                cands = [None] + [h for h in attached if F.depth(h) < 3]
            else:
                target, spec = made
                F.specs.append(spec)
                h = len(F.specs) - 1
                verdict, why = F.predict(target, h)
                if verdict != "refuse":
                    F.specs.pop()
                else:
                    ops.append({"kind": kind, "target": target, "handle": h, "expect": verdict, "why": why})
                continue
        if kind == "cycle-respelled":
            # an ancestor whose UID and arches were re-spelled by the caller so that they ALIGN with the descendant it is
            # added to: only the ancestor rule itself can refuse it
            pairs = [(d, a) for d in attached for a in F.ancestors_or_self(d)[1:] if F.depth(d) < 3 or True]
            if not pairs:
                kind = "valid"
                cands = [None] + [h for h in attached if F.depth(h) < 3]
            else:
                target, h = rng.choice(pairs)
                ops.append({"kind": kind, "target": target, "handle": h, "expect": "refuse", "why": "its own ancestor (re-spelled)"})
                continue
        if kind in ("detached-subtree", "detached-dup-subtree"):
            # a subtree built BOTTOM-UP: children are added to a variant that is not in the forest yet, then the root is attached.
            # 'dup' flavour: between the two, a top-level variant '<root>-<child>' (id '<root><child>') enters the forest, so the
            # subtree now carries a UID the forest already has - the attachment must be refused, and only a check that walks
            # the whole added subtree can know
            tgt = None if kind == "detached-dup-subtree" or rng.random() < 0.5 else rng.choice([None] + [h0 for h0 in attached if F.depth(h0) < 2])
            root = new_spec(tgt, "valid")
            if root is None or root.get("dashed") or "-" in root["id"] or \
                    any(F.specs[o]["uid"] == root["uid"] or F.specs[o]["uid"].startswith(root["uid"] + "-") for o in F.parent):
                continue
            if kind == "detached-dup-subtree" and len(root["id"]) > 6:
                continue
            F.specs.append(root)
            r = len(F.specs) - 1
            pending = []
            members = [r]
            for _k in range(rng.randint(1, 3)):
                par_h = rng.choice([m for m in members if len(F.ancestors_or_self(m)) + (0 if tgt is None else F.depth(tgt)) < 3] or [r])
                c = new_spec(par_h, "valid")
                if c is None or c.get("dashed"):
                    continue
                F.specs.append(c)
                ch = len(F.specs) - 1
                verdict, why = F.predict(par_h, ch)
                if verdict != "accept":
                    F.specs.pop()
                    continue
                pending.append({"kind": "detached-child", "target": par_h, "handle": ch, "expect": "accept", "why": None})
                F.apply(par_h, ch)
                members.append(ch)
            if not pending:
                F.specs.pop()
                continue
            ops.extend(pending)
            if kind == "detached-dup-subtree":
                first = [m for m in members if F.dparent.get(m) == r][0]
                a, b = root["id"], F.specs[first]["id"]
                rival = {"id": a + b, "uid": a + "-" + b, "name": "rival", "type": "variant", "arches": ["x86_64"], "dashed": True}
                F.specs.append(rival)
                rh = len(F.specs) - 1
                verdict, why = F.predict(None, rh)
                if verdict == "accept" and not any(c0 for c0 in F.children(None) if F.specs[c0]["id"] == a + b):
                    ops.append({"kind": "valid", "target": None, "handle": rh, "expect": "accept", "why": None})
                    F.apply(None, rh)
                    uids.add(rival["uid"])
                else:
                    F.specs.pop()
            verdict, why = F.predict(tgt, r)
            ops.append({"kind": kind, "target": tgt, "handle": r, "expect": verdict, "why": why})
            if verdict == "accept":
                F.apply(tgt, r)
                for m in members:
                    uids.add(F.specs[m]["uid"])
            else:
                # the refused subtree stays out of the forest; forget it
                for m in members:
                    F.dparent.pop(m, None)
            continue
        if kind in ("attached-elsewhere", "attached-elsewhere-respelled"):
            # a variant that already sits in the forest is offered to ANOTHER container (not its parent, not inside its own subtree)
            pairs = [(t, h0) for h0 in attached for t in [None] + [a for a in attached if F.depth(a) < 3]
                     if t != F.parent[h0] and (t is None or h0 not in F.ancestors_or_self(t))]
            if kind.endswith("respelled"):
                pairs = [(t, h0) for t, h0 in pairs if t is not None or "-" in F.specs[h0]["uid"]]
            if not pairs:
                kind = "valid"
                cands = [None] + [h for h in attached if F.depth(h) < 3]
            else:
                target, h = rng.choice(pairs)
                ops.append({"kind": kind, "target": target, "handle": h, "expect": "grey", "why": "attached elsewhere"})
                continue
        if kind == "readd":
            if not attached:
                kind = "valid"
            else:
                h = rng.choice(attached)
                ops.append({"kind": kind, "target": F.parent[h], "handle": h, "expect": "either", "why": "re-add"})
                continue
        if not cands:
            kind = "valid"
            cands = [None]
        if len(attached) >= (7 if not wide else 22) and kind == "valid":
            continue
        target = rng.choice(cands)
        if wide and kind == "valid":
            # keep filling the same one or two containers
            inner = [c for c in cands if c is not None]
            target = None if (not inner or rng.random() < 0.5) else inner[0]
        elif kind == "valid" and attached and rng.random() < 0.7:
            deeper = [c for c in cands if c is not None]
            if deeper:
                target = rng.choice(deeper)
        spec = new_spec(target, kind)
        if spec is None:
            continue
        F.specs.append(spec)
        h = len(F.specs) - 1
        verdict, why = F.predict(target, h)
        if kind == "valid" and verdict != "accept":
            F.specs.pop()
            continue
        if kind != "valid" and verdict == "accept":
            F.specs.pop()
            continue
        ops.append({"kind": kind, "target": target, "handle": h, "expect": verdict, "why": why})
        if verdict == "accept":
            F.apply(target, h)
            uids.add(spec["uid"])
    return {"specs": F.specs, "ops": ops, "wide": wide}


# ---- real side ------------------------------------------------------------------

def make_ci(pm):
    ci = pm.ComposeInfo()
    ci.release.name, ci.release.short, ci.release.version, ci.release.type = "Fedora", "F", "22", "ga"
    ci.compose.id, ci.compose.type, ci.compose.date, ci.compose.respin = "F-22-20150522.0", "production", "20150522", 0
    return ci


def make_variant(pm, ci, spec):
    v = pm.Variant(ci)
    v.id, v.uid, v.name, v.type = spec["id"], spec["uid"], spec["name"], spec["type"]
    v.arches = set(spec["arches"])
    if spec["type"] == "layered-product":
        v.release.name, v.release.short, v.release.version, v.release.type = "LP", "lp", "1.0", "ga"
    return v


def real_snapshot(ci):
    out = {}
    problems = []

    def walk(container, parent_obj):
        for key, v in container.variants.items():
            uid = v.uid
            if uid in out:
                problems.append("duplicate UID %s" % uid)
            par = v.parent
            out[uid] = {"id": v.id, "arches": sorted(v.arches), "parent": None if par is None else par.uid,
                        "children": sorted(c.id for c in v.variants.values()), "type": v.type}
            walk(v, v)
    walk(ci.variants, None)
    return out, problems


def invariant_walk(ci):
    """Independent global walk: every member satisfies the forest rules and is findable."""
    bad = []
    seen = {}

    def walk(container, holder):
        for key, v in container.variants.items():
            if key != v.id:
                bad.append("member %s is stored under key %r" % (v.uid, key))
            if holder is None:
                if v.parent is not None:
                    bad.append("top-level %s has parent %s" % (v.uid, getattr(v.parent, "uid", v.parent)))
                if v.uid.replace("-", "") != v.id:
                    bad.append("top-level %s: uid not aligned with id %s" % (v.uid, v.id))
            else:
                if v.parent is not holder:
                    bad.append("%s: .parent is %s, but it is held by %s" % (v.uid, getattr(v.parent, "uid", v.parent), holder.uid))
                if v.uid != "%s-%s" % (holder.uid, v.id):
                    bad.append("%s: uid is not %s-%s" % (v.uid, holder.uid, v.id))
                if not set(v.arches) <= set(holder.arches):
                    bad.append("%s: arches %s not a subset of parent's %s" % (v.uid, sorted(v.arches), sorted(holder.arches)))
            if v.uid in seen:
                bad.append("UID %s occurs twice" % v.uid)
            seen[v.uid] = (v, holder)
            walk(v, v)
    walk(ci.variants, None)
    return bad, seen


def check_lookup(ctx, ci, seen, case):
    for uid, (v, holder) in seen.items():
        probs = []
        try:
            got = ci[uid]
            if got is not v:
                probs.append("ci[%r] returned %s" % (uid, getattr(got, "uid", got)))
        except Exception as e:
            probs.append("ci[%r] raised %s: %s" % (uid, type(e).__name__, e))
        if holder is not None:
            try:
                got = holder[v.id]
                if got is not v:
                    probs.append("%s[%r] returned %s" % (holder.uid, v.id, getattr(got, "uid", got)))
            except Exception as e:
                probs.append("%s[%r] raised %s" % (holder.uid, v.id, type(e).__name__))
        ctx.monitor("lookup", fired=bool(probs))
        if probs:
            key = None
            ctx.violation("lookup", "each variant can be looked up from the top by its UID and from its parent by its id",
                          case, observed=probs, expected="the variant %s" % uid, key=key)


def check_queries(ctx, ci, seen, case, rng, exhaustive):
    containers = [("root", ci, None)] + [("inner:" + uid, v, v) for uid, (v, h) in seen.items() if v.variants]
    arch_filters = [None, "src", "sparc"] + ARCHES
    type_sets = [None]
    for r in range(1, 5):
        type_sets += [list(c) for c in itertools.combinations(domains.VARIANT_TYPES, r)]
    type_sets += [["self"], ["self", "variant"], ["self"] + domains.VARIANT_TYPES]
    # 'self' asks for the queried variant itself; it has no meaning on the root container (not issued there)
    combos = [(c, a, t, r) for c in containers for a in arch_filters for t in type_sets for r in (False, True)
              if not (c[2] is None and t and "self" in t)]
    if not exhaustive and len(combos) > 120:
        combos = rng.sample(combos, 120)

    def members(container_obj, recursive):
        start = ci.variants if container_obj is None else container_obj
        out = []

        def rec(c):
            for v in c.variants.values():
                out.append(v)
                if recursive:
                    rec(v)
        rec(start)
        return out
    for (cname, cobj, cvar), arch, types, recursive in combos:
        kwargs = {}
        if arch is not None:
            kwargs["arch"] = arch
        if types is not None:
            kwargs["types"] = list(types)
        kwargs["recursive"] = recursive
        ctx.count("query-recursive" if recursive else "query-flat")
        if arch == "sparc":
            ctx.count("query-arch-nobody-has")
        if arch == "src":
            ctx.count("query-arch-src")
        if types and 0 < len([t for t in types if t != "self"]) < 4:
            ctx.count("query-types-subset")
        if types and "self" in types:
            ctx.count("query-self")
        if cvar is not None:
            ctx.count("query-inner")
        q = {"container": cname, "kwargs": kwargs}
        try:
            res = cobj.get_variants(**kwargs)
        except Exception as e:
            ctx.monitor("get-variants", fired=True)
            ctx.violation("get-variants", "get_variants answers every arch/type/recursive combination", dict(case, query=q),
                          observed="raised %s: %s" % (type(e).__name__, e), expected="a list")
            continue
        probs = []
        ids = [id(v) for v in res]
        if len(set(ids)) != len(ids):
            probs.append("a variant is returned more than once")
        container_self = ci.variants if cvar is None else cvar
        real = [v for v in res if v is not container_self]
        uids = [v.uid for v in real]
        if uids != sorted(uids):
            probs.append("not ordered by UID: %s" % uids)
        for v in real:
            if arch is not None and arch != "src" and arch not in v.arches:
                probs.append("%s lacks the requested arch %s (has %s)" % (v.uid, arch, sorted(v.arches)))
            # 'self' stands for the queried variant itself; a filter consisting of 'self' alone still IS a filter
            if types and v.type not in types:
                probs.append("%s has type %s, requested %s" % (v.uid, v.type, types))
        if len(real) != len(res) and not (types and "self" in types):
            probs.append("the container itself is in the result although 'self' was not requested")
        scope = set(id(v) for v in members(cvar, recursive))
        for v in real:
            if id(v) not in scope:
                probs.append("%s is outside the queried level/subtree" % v.uid)
        if arch in (None, "src") and types is None:
            # no filter means every variant of the level / forest; the pseudo-architecture 'src' matches every variant
            missing = [v.uid for v in members(cvar, recursive) if id(v) not in set(ids)]
            if missing:
                probs.append("%s call misses %s" % ("unfiltered" if arch is None else "arch='src'", missing))
        ctx.monitor("get-variants", fired=bool(probs))
        if probs:
            key = None
            ctx.violation("get-variants", "get_variants returns each variant at most once, ordered by UID, each with the requested "
                          "architecture and one of the requested types; unfiltered it returns every variant",
                          dict(case, query=q), observed=probs[:5], expected="sound, unique, sorted" + (", complete" if arch is None and types is None else ""),
                          key=key)


def check_history(ctx, pm, H, seed, exhaustive_queries=False):
    rng = random.Random(seed)
    ci = make_ci(pm)
    F = Forest()
    F.specs = H["specs"]
    objs = {}
    acc = ref = 0
    for step, op in enumerate(H["ops"]):
        h, target = op["handle"], op["target"]
        if h not in objs:
            objs[h] = make_variant(pm, ci, F.specs[h])
        v = objs[h]
        if target is not None and target not in objs:
            objs[target] = make_variant(pm, ci, F.specs[target])      # the root of a detached subtree
        container = ci.variants if target is None else objs[target]
        verdict, why = F.predict(target, h)
        restore = None
        if op["kind"] == "cycle-respelled":
            restore = (v.uid, set(v.arches))
            v.uid = "%s-%s" % (container.uid, v.id)
            v.arches = set(sorted(container.arches)[:1])
            verdict, why = "refuse", "its own ancestor (re-spelled)"
        moved = op["kind"] in ("attached-elsewhere", "attached-elsewhere-respelled")
        before_respelling, _p = real_snapshot(ci)
        if op["kind"] == "attached-elsewhere-respelled":
            # the caller re-spells UID and arches so that the variant would be well-formed in the new place
            restore = (v.uid, set(v.arches))
            if target is None:
                v.uid = v.id
            else:
                v.uid = "%s-%s" % (container.uid, v.id)
                v.arches = set(v.arches) & set(container.arches) or set(sorted(container.arches)[:1])
        before, _p = real_snapshot(ci)
        ctx.count("op-" + op["kind"])
        try:
            container.add(v)
            got, exc = "accept", None
        except ValueError as e:
            got, exc = "refuse", e
        except TypeError as e:
            got, exc = "refuse", e
        except Exception as e:
            got, exc = "refuse-other", e
        case = {"specs": H["specs"], "ops": H["ops"][:step + 1], "step": step}
        if verdict in ("accept", "refuse"):
            bad = got != verdict
            ctx.monitor("add-outcome", fired=bad)
            if bad:
                ctx.violation("add-outcome", "an add that would break the forest rules (duplicate id, foreign arch, misaligned UID, its own "
                              "ancestor) is refused; a valid add is accepted", case,
                              observed="%s%s" % (got, " (%s: %s)" % (type(exc).__name__, str(exc)[:100]) if exc else ""),
                              expected="%s%s" % (verdict, " (%s)" % why if why else ""), key=key_add(op, F, target, h, got))
        if verdict == "accept" and got == "accept":
            F.apply(target, h)
            acc += 1
            ctx.count("accepted")
            want = F.snapshot()
        elif verdict == "refuse" and got == "accept":
            F.apply(target, h) if h not in F.parent else None
            want = None
        else:
            want = before
            if got != "accept":
                ref += 1
                ctx.count("refused")
                if op["kind"] in ("detached-subtree", "detached-dup-subtree"):
                    if why == "duplicate uid inside the added subtree":
                        ctx.count("detached-subtree-refused-for-inner-uid")
                    # the refused subtree stays out of the forest
                    for m in F.subtree(h):
                        F.dparent.pop(m, None)
        after, dup = real_snapshot(ci)
        if moved:
            # outcome not judged (refusal and a proper move are both sound); judged: the forest afterwards
            if got != "accept" and restore is not None:
                v.uid, v.arches = restore
                after, dup = real_snapshot(ci)
                before = before_respelling
            badwalk, _seen = invariant_walk(ci)
            probs = list(badwalk[:5])
            if got != "accept" and after != before:
                probs += ["a refused add changed the forest"] + _snapdiff(before, after)
            held = []
            todo = [ci.variants]
            while todo:
                c = todo.pop()
                for key, m in c.variants.items():
                    if m is v:
                        held.append("%s[%r]" % (getattr(c, "uid", "<top>"), key))
                    if len(todo) < 1000:
                        todo.append(m)
            if len(held) != 1:
                probs.append("the variant is held %d times: %s" % (len(held), held))
            ctx.monitor("forest-after-call", fired=bool(probs))
            if probs:
                ctx.violation("forest-after-call", "offering a variant that already sits in the forest to another container is refused "
                              "(forest unchanged) or carried out as a move: afterwards every variant is held once, by the parent its "
                              ".parent names, UIDs aligned and unique", case,
                              observed=["outcome: %s%s" % (got, " (%s)" % str(exc)[:80] if exc else "")] + probs[:6],
                              expected="consistent forest", key=key_state(op, got))
                return acc, ref, False
            if got == "accept":
                # carried out as a move: the model does not follow re-spelled subtrees; the history ends here
                ctx.count("attached-elsewhere-moved")
                return acc, ref, False
            ref += 1
            ctx.count("refused")
            continue
        if restore is not None:
            if got == "accept":
                # the forest is corrupt now (reported above); nothing sensible to continue with
                return acc, ref, False
            v.uid, v.arches = restore
            after2, _d = real_snapshot(ci)
            want = None
            bad = after != before
            ctx.monitor("forest-after-call", fired=bad)
            if bad:
                ctx.violation("forest-after-call", "a refused add leaves the forest unchanged; an accepted add attaches exactly that variant",
                              case, observed=_snapdiff(before, after), expected="model forest (unchanged)")
                return acc, ref, False
        if want is not None:
            bad = after != want
            ctx.monitor("forest-after-call", fired=bad)
            if bad:
                ctx.violation("forest-after-call", "a refused add leaves the forest unchanged; an accepted add attaches exactly that variant",
                              case, observed=_snapdiff(want, after), expected="model forest (%s)" % ("unchanged" if got != "accept" else "after add"),
                              key=key_state(op, got))
                # resynchronise: nothing sensible to continue with
                return acc, ref, False
        bad, seen = invariant_walk(ci)
        ctx.monitor("invariant-walk", fired=bool(bad))
        if bad:
            ctx.violation("invariant-walk", "child UID = parent UID-id, child arches within the parent's, parent/children mirror, UIDs unique",
                          case, observed=bad[:5], expected="consistent forest", key=key_state(op, got))
            return acc, ref, False
    # final forest: lookup, queries; then the same after a write/read cycle
    case = {"specs": H["specs"], "ops": H["ops"], "step": len(H["ops"])}
    snap = F.snapshot()
    if any(d["parent"] and snap[d["parent"]]["parent"] for d in snap.values()):
        ctx.count("depth-3")
    sibs = {}
    for d in snap.values():
        sibs[d["parent"]] = sibs.get(d["parent"], 0) + 1
    if sibs and max(sibs.values()) >= 10:
        ctx.count("ten-or-more-siblings")
    if any(s.get("dashed") for hh, s in enumerate(F.specs) if hh in F.parent):
        ctx.count("dashed-top")
    for hh in F.parent:
        sp = F.specs[hh]
        if F.parent[hh] is not None and F.specs[F.parent[hh]].get("dashed"):
            pu = F.specs[F.parent[hh]]["uid"].split("-")
            if len(pu) == 2 and pu[0] == pu[1] and snap.get(pu[0] + "-" + sp["id"], {}).get("parent") == pu[0]:
                ctx.count("child-of-doubled-dashed-top-shadows-child-of-head")
                break
    for hh in F.parent:
        anc = F.ancestors_or_self(hh)[1:]
        if any(F.specs[a]["id"] == F.specs[hh]["id"] for a in anc):
            ctx.count("child-id-repeats-ancestor-id")
            break
    bad, seen = invariant_walk(ci)
    check_lookup(ctx, ci, seen, case)
    check_queries(ctx, ci, seen, case, rng, exhaustive_queries)
    if F.parent:
        try:
            ci2 = pm.ComposeInfo()
            ci2.loads(ci.dumps())
        except Exception as e:
            ctx.note_add("reload_failed")
            ctx.note("reload_failed_example", "%s: %s" % (type(e).__name__, e))
            ci2 = None
        if ci2 is not None:
            ctx.count("after-reload")
            case2 = dict(case, after_reload=True)
            after, dup = real_snapshot(ci2)
            bad2, seen2 = invariant_walk(ci2)
            probs = bad2[:4]
            if after != snap:
                probs += _snapdiff(snap, after)
            ctx.monitor("invariant-walk", fired=bool(probs))
            if probs:
                ctx.violation("invariant-walk", "the forest after a write/read cycle is the same consistent forest", case2,
                              observed=probs[:6], expected="model forest")
            check_lookup(ctx, ci2, seen2, case2)
            check_queries(ctx, ci2, seen2, case2, rng, False)
    return acc, ref, True


def _snapdiff(want, got):
    out = []
    for uid in sorted(set(want) | set(got)):
        if uid not in got:
            out.append("%s: missing" % uid)
        elif uid not in want:
            out.append("%s: unexpected member %r" % (uid, got[uid]))
        elif want[uid] != got[uid]:
            out.append("%s: expected %r, observed %r" % (uid, want[uid], got[uid]))
    return out[:6]


def key_add(op, F, target, h, got):
    return None


def key_state(op, got):
    return None


def run_shard(ctx):
    pm = _pm()
    n = int(ctx.params.get("histories", 100))
    rng = ctx.rng(0)
    for i in range(n):
        if i % 16 == 0 and ctx.out_of_time():
            ctx.note("stopped_early_at", i)
            break
        H = gen_history(rng)
        acc, ref, done = check_history(ctx, pm, H, rng.randrange(1 << 30), exhaustive_queries=(i % 10 == 0))
        ctx.note_add("add_calls", len(H["ops"]))
        ctx.case_done(H, nontrivial=acc > 1 and ref > 0)
        if i < 2:
            ctx.sample({"specs": H["specs"][:6], "ops": H["ops"][:8], "n_ops": len(H["ops"])})


def replay(ctx, case):
    pm = _pm()
    check_history(ctx, pm, {"specs": case["specs"], "ops": case["ops"]}, 0, exhaustive_queries=True)
    ctx.case_done(case)
