"""C15  Compose ids encode date, type and respin recoverably.

Oracle: by construction.  A case is (release, optional base product, compose
date/type/respin); the real ComposeInfo.create_compose_id() builds the id, and
the monitors check (1) its documented prefix, (2) that the library's own
compose-id validation and a full dumps() accept it, (3) that
get_date_type_respin() decodes exactly the generating triple; (4) the decoder
table of documented suffix spellings (exhaustive) and unknown suffixes;
(5) legacy (<0.3) composeinfo documents whose date/type/respin exist only in
the id.
"""
import json

from rv.gen import text
from rv.model import domains

PROPERTY = "C15"
LEVEL = "exploration"
RULE = ("cases = (release short/version/type, optional base product, compose type, 8-digit date, respin) tuples with "
        "stratified class forcing (long digit runs in versions, boundary dates, respins up to 10^8-1, RHEL-5 hack), "
        "distinct by tuple, non-trivial when type != production or respin != 0 or layered or the version holds a digit "
        "run of >= 8; plus the exhaustive decoder table {7 documented suffixes} x {respin present, absent} and a fixed "
        "set of unknown suffixes; plus legacy (<0.3) documents built from the same tuples")
ASSUMPTIONS = ["the documented suffix table is the one quoted in the property statement",
               "unknown suffixes are lowercase words (the documented suffix shape); other shapes are not judged"]
REQUIRED_REACH = ["composeinfo.ComposeInfo.create_compose_id", "composeinfo.get_date_type_respin",
                  "composeinfo.Compose._validate_id", "composeinfo.Compose.deserialize_0_3",
                  "composeinfo.BaseProduct.type_suffix", "composeinfo.Compose.type_suffix"]
REQUIRED_MONITORS = ["id-prefix", "id-validates", "decode", "suffix-table", "unknown-suffix", "legacy-load"]
CLASSES = (["ctype-" + t for t in domains.COMPOSE_TYPES] + ["rtype-" + t for t in domains.RELEASE_TYPES] +
           ["layered", "not-layered", "bptype-nonga", "version-8digit-run", "version-12digit-run", "version-dotted-8digit",
            "version-freeform", "date-zeros", "date-nines", "respin-0", "respin-1", "respin-2digits", "respin-7digits",
            "respin-8digits", "rhel5-hack", "short-dashed", "short-with-digits"])
CLASS_FLOORS = dict((c, 10) for c in CLASSES)
CLASS_FLOORS.update({"legacy-0.0": 5, "legacy-0.1": 5, "legacy-0.2": 5})
UNKNOWN_SUFFIXES = [".foo", ".c", ".production", ".x", ".nn", ".dd", ".tt", ".nightl", ".nightlyy", ".tes", ".cii",
                    ".development", ".dev", ".i", ".z", ".development", ".devel", ".dev", ".prod", ".p", ".release", ".rc", ".continuous", ".integration", ".testing", ".nightlies",
                    # every lowercase word of one or two letters that is not documented
                    ] + ["." + a + b for a in "abcdefghijklmnopqrstuvwxyz" for b in [""] + list("abcdefghijklmnopqrstuvwxyz") if a + b not in ("n", "t", "d", "ci")]


def plan(tier):
    if tier == "thorough":
        return {"shards": 16, "params": {"cases": 300000, "legacy_every": 20, "budget_s": 1500, "reach_cap": 50},
                "timeout_s": 3000}
    return {"shards": 4, "params": {"cases": 25000, "legacy_every": 10, "budget_s": 300, "reach_cap": 50},
            "timeout_s": 900}


def gen_case(rng, force=None):
    c = {}
    short = rng.choice(["F", "Fedora", "RHEL", "rhel", "MYPRODUCT", "f", "Supp", text.word(rng, 1, 6)])
    if force == "short-dashed" or rng.random() < 0.1:
        short = text.word(rng, 1, 4) + "-" + text.word(rng, 1, 4)
    if force == "short-with-digits":
        short = text.word(rng, 1, 3) + str(rng.randint(0, 99999999)) + text.word(rng, 0, 2) if rng.random() < 0.5 else "F" + str(rng.randint(0, 9))
    vkind = rng.choice(["plain", "plain", "dotted", "freeform", "8run", "12run", "dotted8"])
    if force and force.startswith("version-"):
        vkind = {"version-8digit-run": "8run", "version-12digit-run": "12run", "version-dotted-8digit": "dotted8",
                 "version-freeform": "freeform"}[force]
    if vkind == "plain":
        version = str(rng.choice([5, 7, 22, 23, 8, 9, rng.randint(0, 999)]))
    elif vkind == "dotted":
        version = text.numeric_version(rng, rng.randint(2, 3))
    elif vkind == "freeform":
        version = rng.choice(["Rawhide", "rawhide", "Bikeshed", "x20240101", "r.12345678", "v20160622.n.1",
                              # endings a careless suffix strip would eat ('-ga', '-updates' ...)
                              "Beta", "Alpha", "omega", "testing", "saga-", "x-g-a", "Ga", "beta-ga", "g", "a"])
    elif vkind == "8run":
        version = str(rng.choice([20240101, 12345678, 99999999, 10000000, rng.randint(10 ** 7, 10 ** 8 - 1)]))
    elif vkind == "12run":
        version = str(rng.randint(10 ** 11, 10 ** 12 - 1))
    else:
        version = "%d.%d" % (rng.randint(0, 9), rng.randint(10 ** 7, 10 ** 8 - 1))
    c["short"], c["version"] = short, version
    c["rtype"] = rng.choice(domains.RELEASE_TYPES)
    if force and force.startswith("rtype-"):
        c["rtype"] = force[6:]
    layered = rng.random() < 0.35
    if force in ("layered", "bptype-nonga"):
        layered = True
    if force == "not-layered":
        layered = False
    c["layered"] = layered
    c["bp"] = None
    if layered or rng.random() < 0.1:
        bp = {"short": rng.choice(["RHEL", "F", "rhel", text.word(rng, 1, 5)]),
              "version": rng.choice(["7", "5", "8.2", "22", str(rng.randint(10 ** 7, 10 ** 8 - 1)), "Rawhide"]),
              "type": rng.choice(domains.RELEASE_TYPES)}
        if force == "bptype-nonga":
            bp["type"] = rng.choice([t for t in domains.RELEASE_TYPES if t != "ga"])
        c["bp"] = bp
    if force == "rhel5-hack":
        c["short"] = "RHEL"
        c["version"] = rng.choice(["5", "5.11", "5.0"])
        c["bp"] = {"short": "RHEL", "version": rng.choice(["5", "5.9"]), "type": "ga"}
        c["layered"] = rng.random() < 0.5
        c["variants"] = rng.choice([["Server"], ["Client"], ["Client", "Server"], ["Workstation"], []])
    c["ctype"] = rng.choice(domains.COMPOSE_TYPES)
    if force and force.startswith("ctype-"):
        c["ctype"] = force[6:]
    date = "%08d" % rng.randint(0, 99999999)
    if rng.random() < 0.5:
        date = "%04d%02d%02d" % (rng.randint(1999, 2035), rng.randint(1, 12), rng.randint(1, 28))
    if force == "date-zeros":
        date = "00000000"
    if force == "date-nines":
        date = "99999999"
    c["date"] = date
    respin = rng.choice([0, 0, 1, 2, 9, 10, 99, 10 ** 6, 10 ** 7 - 1, 10 ** 7, 10 ** 8 - 1, rng.randint(0, 10 ** 8 - 1)])
    if force and force.startswith("respin-"):
        respin = {"respin-0": 0, "respin-1": 1, "respin-2digits": rng.randint(10, 99),
                  "respin-7digits": rng.randint(10 ** 6, 10 ** 7 - 1),
                  "respin-8digits": rng.randint(10 ** 7, 10 ** 8 - 1)}[force]
    c["respin"] = respin
    return c


def classes_of(c):
    out = ["ctype-" + c["ctype"], "rtype-" + c["rtype"], "layered" if c["layered"] else "not-layered"]
    if c["bp"] and c["layered"] and c["bp"]["type"] != "ga":
        out.append("bptype-nonga")
    v = c["version"]
    runs = _digit_runs(v)
    if v.isdigit() and len(v) == 8:
        out.append("version-8digit-run")
    if any(r >= 12 for r in runs):
        out.append("version-12digit-run")
    if "." in v and any(r >= 8 for r in runs) and v[:1].isdigit():
        out.append("version-dotted-8digit")
    if not v[:1].isdigit():
        out.append("version-freeform")
    if c["date"] == "00000000":
        out.append("date-zeros")
    if c["date"] == "99999999":
        out.append("date-nines")
    r = c["respin"]
    out.append("respin-0" if r == 0 else "respin-1" if r == 1 else "respin-2digits" if 10 <= r <= 99 else
               "respin-7digits" if 10 ** 6 <= r < 10 ** 7 else "respin-8digits" if r >= 10 ** 7 else "respin-other")
    if c.get("variants") is not None:
        out.append("rhel5-hack")
    if "-" in c["short"]:
        out.append("short-dashed")
    if any(ch.isdigit() for ch in c["short"]):
        out.append("short-with-digits")
    return out


def _digit_runs(s):
    runs, n = [], 0
    for ch in s:
        if ch.isdigit():
            n += 1
        else:
            if n:
                runs.append(n)
            n = 0
    if n:
        runs.append(n)
    return runs


def classify_decode(c, got):
    """Mechanism classifier: the decoder takes the LAST run of 8 digits as the date."""
    if c["respin"] >= 10 ** 7 and isinstance(got, list) and len(got) == 3 and got[0] == str(c["respin"])[-8:]:
        return "respin-has-8-or-more-digits"
    return None


def build(pm, c):
    ci = pm["ComposeInfo"]()
    ci.release.name = "Name of " + c["short"]
    ci.release.short = c["short"]
    ci.release.version = c["version"]
    ci.release.type = c["rtype"]
    ci.release.is_layered = c["layered"]
    if c["bp"]:
        ci.base_product.name = "Base " + c["bp"]["short"]
        ci.base_product.short = c["bp"]["short"]
        ci.base_product.version = c["bp"]["version"]
        ci.base_product.type = c["bp"]["type"]
    ci.compose.type = c["ctype"]
    ci.compose.date = c["date"]
    ci.compose.respin = c["respin"]
    for vid in c.get("variants") or []:
        v = pm["Variant"](ci)
        v.id = v.uid = vid
        v.name = vid
        v.type = "variant"
        v.arches = set(["x86_64"])
        ci.variants.add(v)
    return ci


def check_case(ctx, pm, c, legacy_version=None):
    ci = build(pm, c)
    try:
        cid = ci.create_compose_id()
    except Exception as e:
        ctx.monitor("id-prefix", fired=True)
        ctx.violation("id-prefix", "create_compose_id() produces an id for every valid release/compose description",
                      c, observed="raised %s: %s" % (type(e).__name__, e), expected="an id")
        return
    # (1) prefix
    prefix = "%s-%s" % (c["short"], c["version"]) + ("" if c["rtype"] == "ga" else "-" + c["rtype"])
    bad = not (isinstance(cid, str) and cid.startswith(prefix + "-"))
    ctx.monitor("id-prefix", fired=bad)
    if bad:
        ctx.violation("id-prefix", "id starts with short-version[-type unless ga]", c, observed=cid, expected=prefix + "-...")
    # (2) own validation
    ci.compose.id = cid
    err = None
    try:
        ci.compose.validate()
        textout = ci.dumps()
        if json.loads(textout)["payload"]["compose"]["id"] != cid:
            err = "dumped id differs"
    except Exception as e:
        err = "raised %s: %s" % (type(e).__name__, e)
    ctx.monitor("id-validates", fired=err is not None)
    if err is not None:
        ctx.violation("id-validates", "the created id passes the library's own compose-id validation and can be written",
                      dict(c, id=cid), observed=err, expected="accepted")
    # (3) decode
    want = [c["date"], c["ctype"], c["respin"]]
    try:
        got = list(pm["decode"](cid))
    except Exception as e:
        got = "raised %s: %s" % (type(e).__name__, e)
    bad = got != want or not (isinstance(got, list) and isinstance(got[2], int) and not isinstance(got[2], bool))
    ctx.monitor("decode", fired=bad)
    if bad:
        ctx.violation("decode", "get_date_type_respin(create_compose_id()) == (date, type, respin)",
                      dict(c, id=cid), observed=got, expected=want, key=classify_decode(c, got))
    # (3b) the id is created from the CURRENT fields: change date/type/respin on the same object (whose compose.id is set by
    # now) and create again - same id as a fresh object with those fields, and it decodes to them
    c2 = dict(c, respin=(c["respin"] + 1) % 10 ** 8, date="%08d" % ((int(c["date"]) + 1) % 10 ** 8),
              ctype=domains.COMPOSE_TYPES[(domains.COMPOSE_TYPES.index(c["ctype"]) + 1) % 5])
    try:
        ci.compose.respin, ci.compose.date, ci.compose.type = c2["respin"], c2["date"], c2["ctype"]
        cid2 = ci.create_compose_id()
        fresh = build(pm, c2).create_compose_id()
        got2 = list(pm["decode"](cid2))
    except Exception as e:
        cid2, fresh, got2 = "raised %s: %s" % (type(e).__name__, e), None, None
    bad = cid2 != fresh or got2 != [c2["date"], c2["ctype"], c2["respin"]]
    if bad and classify_decode(c2, got2) is not None:
        bad = False
    ctx.monitor("create-uses-current-fields", fired=bad)
    if bad:
        ctx.violation("create-uses-current-fields", "the created id encodes the date/type/respin the object has NOW, whatever id it "
                      "carried or created before", {"first": dict(c, id=cid), "then": c2}, observed={"id": cid2, "decoded": got2},
                      expected={"id": fresh, "decoded": [c2["date"], c2["ctype"], c2["respin"]]})
    # (5) legacy document
    if legacy_version is not None and err is None:
        doc = {"header": {"version": legacy_version},
               "payload": {"compose": {"id": cid, "type": c["ctype"]},
                           "product": {"name": "N", "short": c["short"], "version": c["version"]},
                           "variants": {}}}
        ctx.count("legacy-" + legacy_version)
        try:
            ci2 = pm["ComposeInfo"]()
            reuse = (int(c["date"]) + c["respin"]) % 4
            if reuse in (1, 2):
                # the reader object is REUSED: it read a current-version document before (and the caller looked at what
                # version that was), or it refused one - the legacy document is decoded all the same
                cur = {"header": {"version": "1.2", "type": "productmd.composeinfo"},
                       "payload": {"compose": {"id": "Other-9-20010203.t.7", "type": "test", "date": "20010203" if reuse == 1 else "2001-02-03", "respin": 7},
                                   "release": {"name": "Other", "short": "Other", "version": "9", "type": "ga", "internal": False},
                                   "variants": {}}}
                try:
                    ci2.loads(json.dumps(cur))
                    ci2.header.version_tuple
                except Exception:
                    pass
                ctx.count("legacy-load-into-reused-reader-" + ("after-good-load" if reuse == 1 else "after-refused-load"))
            ci2.loads(json.dumps(doc))
            got = [ci2.compose.date, ci2.compose.type, ci2.compose.respin]
        except Exception as e:
            got = "raised %s: %s" % (type(e).__name__, e)
        bad = got != want
        ctx.monitor("legacy-load", fired=bad)
        if bad:
            ctx.violation("legacy-load", "a pre-0.3 document's date/type/respin are those inside its id",
                          {"case": dict(c, id=cid), "document": doc}, observed=got, expected=want,
                          key=classify_decode(c, got))
    return cid


def check_table(ctx, pm):
    """Exhaustive decoder table: documented suffixes x respin present/absent; unknown suffixes."""
    n = 0
    for prefix in ("Foo-1.0-", "F-22-", "X-20240101-", "My-Prod-1.20240101-updates-RHEL-7-"):
        for date in ("20170217", "00000000", "99999999"):
            for suf, ctype in sorted(domains.COMPOSE_SUFFIX_DECODE.items()):
                for respin in (None, 0, 1, 12, 9999999):
                    cid = prefix + date + suf + ("" if respin is None else ".%d" % respin)
                    want = [date, ctype, respin or 0]
                    try:
                        got = list(pm["decode"](cid))
                    except Exception as e:
                        got = "raised %s: %s" % (type(e).__name__, e)
                    bad = got != want
                    ctx.monitor("suffix-table", fired=bad)
                    n += 1
                    if bad:
                        ctx.violation("suffix-table", "every documented suffix spelling is recognised; missing respin is 0",
                                      {"id": cid}, observed=got, expected=want)
            # ids spelled with any documented suffix are valid ids for the library itself, and a legacy (< 0.3) document
            # carrying one loads and decodes to the same triple
            for suf, ctype in sorted(domains.COMPOSE_SUFFIX_DECODE.items()):
                for respin in (None, 2, 12345678):
                    cid = prefix + date + suf + ("" if respin is None else ".%d" % respin)
                    want = [date, ctype, respin or 0]
                    doc = {"header": {"version": "0.2"},
                           "payload": {"compose": {"id": cid, "type": ctype}, "product": {"name": "N", "short": "X", "version": "1"},
                                       "variants": {}}}
                    try:
                        ci = pm["ComposeInfo"]()
                        ci.compose.id, ci.compose.type, ci.compose.date, ci.compose.respin = cid, ctype, date, respin or 0
                        ci.compose.validate()
                        ci2 = pm["ComposeInfo"]()
                        ci2.loads(json.dumps(doc))
                        got = [ci2.compose.date, ci2.compose.type, ci2.compose.respin]
                    except Exception as e:
                        got = "raised %s: %s" % (type(e).__name__, str(e)[:120])
                    bad = got != want
                    ctx.monitor("suffix-table-documents", fired=bad)
                    n += 1
                    if bad:
                        ctx.violation("suffix-table-documents", "an id with a documented suffix spelling passes the library's id validation and a "
                                      "legacy document carrying it loads with the date/type/respin inside the id", {"id": cid, "document": doc},
                                      observed=got, expected=want)
            for suf in UNKNOWN_SUFFIXES:
                for respin in (None, 2):
                    cid = prefix + date + suf + ("" if respin is None else ".%d" % respin)
                    rejected, got = True, None
                    for attempt in (1, 2):       # a refused id stays refused when it is decoded again
                        try:
                            g = pm["decode"](cid)
                            r = g is None or all(x is None for x in g)
                            g = list(g) if g is not None else None
                        except Exception as e:
                            r, g = True, "raised %s" % type(e).__name__
                        if not r:
                            rejected, got = False, {"attempt": attempt, "returned": g}
                            break
                    ctx.monitor("unknown-suffix", fired=not rejected)
                    n += 1
                    if not rejected:
                        ctx.violation("unknown-suffix", "unknown type suffixes are rejected", {"id": cid},
                                      observed=got, expected="an exception")
                    # ... also when the id arrives inside a legacy (< 0.3) document whose own 'type' field names a valid type: the
                    # date/type/respin of such a document exist only in the id, and this id does not decode
                    for ver in ("0.0", "0.2"):
                        for ctype in ("nightly", "production"):
                            doc = {"header": {"version": ver},
                                   "payload": {"compose": {"id": cid, "type": ctype}, "product": {"name": "N", "short": "X", "version": "1"},
                                               "variants": {}}}
                            try:
                                ci3 = pm["ComposeInfo"]()
                                ci3.loads(json.dumps(doc))
                                got3 = [ci3.compose.date, ci3.compose.type, ci3.compose.respin]
                            except Exception as e:
                                got3 = None
                            bad3 = got3 is not None and any(x is not None for x in got3)
                            ctx.monitor("unknown-suffix", fired=bad3)
                            ctx.count("unknown-suffix-in-legacy-document")
                            n += 1
                            if bad3:
                                ctx.violation("unknown-suffix", "unknown type suffixes are rejected - also in a legacy document whose date/type/"
                                              "respin exist only in its id", {"id": cid, "document": doc}, observed=got3, expected="rejected")
    return n


def _pm():
    import productmd.composeinfo as m
    return {"ComposeInfo": m.ComposeInfo, "Variant": m.Variant, "decode": m.get_date_type_respin}


def run_shard(ctx):
    pm = _pm()
    if ctx.shard == 0:
        n = check_table(ctx, pm)
        ctx.enumerated(n)
        ctx.note("suffix_table_rows", n)
    ctx.note("exhaustive", False)
    ctx.note("suffix_table_exhaustive", True)
    n = int(ctx.params.get("cases", 1000))
    every = int(ctx.params.get("legacy_every", 10))
    rng = ctx.rng(0)
    for i in range(n):
        if i % 256 == 0 and ctx.out_of_time():
            ctx.note("stopped_early_at", i)
            break
        force = CLASSES[(i // 2) % len(CLASSES)] if i % 2 == 0 else None
        c = gen_case(rng, force)
        for k in classes_of(c):
            ctx.count(k)
        lv = ["0.0", "0.1", "0.2"][(i // every) % 3] if i % every == 0 else None
        cid = check_case(ctx, pm, c, legacy_version=lv)
        nontriv = c["ctype"] != "production" or c["respin"] != 0 or c["layered"] or any(r >= 8 for r in _digit_runs(c["version"]))
        ctx.case_done(c, nontrivial=nontriv)
        if i < 3:
            ctx.sample({"case": c, "id": cid})


def replay(ctx, case):
    pm = _pm()
    if "id" in case and "short" not in case:
        check_table(ctx, pm)
    else:
        c = case.get("case", case)
        c = dict(c)
        c.pop("id", None)
        check_case(ctx, pm, c, legacy_version="0.2")
    ctx.case_done(case)
