"""C04  Treeinfo and discinfo survive a write/read cycle unchanged.

Oracle: description -> expectation (rv/fmt_treeinfo.py).  The written INI is
read by a purpose-written line reader (not configparser, so the oracle does
not share the parser under test) and compared section by section with the
description (M1); the text is reloaded and observed through the public
attributes (M3), re-dumped (M4) and cycled through a real file (M5).  Text
fields are hostile inside the representable domain the quantifier names: '%',
'%(x)s', '=', ':', '#', ';', brackets, tabs and non-ASCII in values,
mixed-case option names.  Discinfo: same four monitors on generated
(timestamp, description, arch, disc numbers).

Later additions: ti-M6 / di-M6 - the re-read tree / .discinfo is edited (facts removed, lists changed in place) and
written again; readers that are not pristine (header inspected, a truncated file refused before).
"""
import os
import random

from rv import formats
from rv import fmt_treeinfo as F
from rv.model import domains

PROPERTY = "C04"
LEVEL = "exploration"
RULE = ("cases = treeinfo descriptions (binary/src trees, layered or not, 1-3 top-level variants incl. dashed UIDs, "
        "children of every type to depth 3, any subset of the 7 path kinds, image tables, stage2, media, checksums; text "
        "restricted exactly as the quantifier says but otherwise hostile) and discinfo descriptions; distinct by "
        "description; a treeinfo case is non-trivial when it has a child variant, an image table, checksums, media, "
        "stage2 or a base product; a discinfo case when its description or disc list is not the default shape")
ASSUMPTIONS = ["the 40-line INI reader in rv/fmt_treeinfo.py is the trusted independent reader",
               "rv/fmt_treeinfo.py transcribes doc/treeinfo-1.1.rst / doc/discinfo-1.0.rst",
               "integer build timestamps are limited to |t| < 2^53 (the reader goes through a float)"]
REQUIRED_REACH = ["treeinfo.TreeInfo.serialize", "treeinfo.TreeInfo.deserialize", "treeinfo.Tree.serialize",
                  "treeinfo.Tree.deserialize_1_0", "treeinfo.Release.serialize", "treeinfo.Release.deserialize_1_0",
                  "treeinfo.BaseProduct.serialize", "treeinfo.BaseProduct.deserialize", "treeinfo.Variants.serialize",
                  "treeinfo.Variants.deserialize_1_0", "treeinfo.Variant.serialize", "treeinfo.Variant.deserialize_1_0",
                  "treeinfo.VariantPaths.serialize", "treeinfo.VariantPaths.deserialize_1_0", "treeinfo.Images.serialize",
                  "treeinfo.Images.deserialize", "treeinfo.Stage2.serialize", "treeinfo.Stage2.deserialize",
                  "treeinfo.Checksums.serialize", "treeinfo.Checksums.deserialize", "treeinfo.Media.serialize",
                  "treeinfo.Media.deserialize_1_0", "discinfo.DiscInfo.serialize", "discinfo.DiscInfo.deserialize",
                  "common.SortedConfigParser.optionxform"]
REQUIRED_MONITORS = ["ti-M1-text-equals-description", "ti-M3-reload-equals-description", "ti-M4-redump-identical",
                     "ti-M5-file-roundtrip", "di-M1-text", "di-M3-reload", "di-M4-redump", "di-M5-file"]
TI_FORCES = ["src-tree", "layered", "several-platforms", "depth-3", "child-every-type", "single-variant", "dashed-top-optional",
             "dashed-top-variant", "paths-all", "paths-none", "path-empty-string", "images", "mixed-case-options", "stage2",
             "media", "checksums", "many-variants", "platform-named-like-legacy-section", "dashed-top-with-children", "two-dashed-top-optionals", "checksum-keys-as-spelled"]
DI_FORCES = ["timestamp-17-digits", "timestamp-negative", "description-interior-quotes", "description-quote-at-one-end",
             "description-hostile", "disc-all", "disc-list", "disc-single"]
CLASS_FLOORS = {"dashed-top-with-children": 5, "platform-named-like-legacy-section": 5, "many-variants": 5, "media-ten-or-more": 3, "src-tree": 5, "binary-tree": 5, "layered": 5, "several-top-variants": 5, "depth-3": 5,
                "child-type-addon": 5, "child-type-optional": 5, "child-type-variant": 5, "dashed-top-optional": 5,
                "dashed-top-variant": 5, "paths-all": 5, "paths-none": 5, "images": 5, "images-several-platforms": 5,
                "mixed-case-options": 5, "stage2": 5, "media": 5, "checksums": 5, "text-percent": 5,
                "text-ini-punctuation": 5, "text-non-ascii": 5, "several-platforms": 5, "timestamp-large": 5,
                "di-disc-all": 5, "di-disc-list": 5, "di-description-quote-at-one-end": 5,
                "di-description-interior-quotes": 5, "di-timestamp-negative": 5, "di-timestamp-exponent-form": 5}


def plan(tier):
    if tier == "thorough":
        return {"shards": 16, "params": {"cases": 20000, "di_cases": 20000, "budget_s": 1500}, "timeout_s": 3000}
    return {"shards": 4, "params": {"cases": 800, "di_cases": 800, "budget_s": 300}, "timeout_s": 900}


def _pm():
    import productmd.treeinfo as t
    import productmd.discinfo as d
    return t, d


def classify_ti(D, diffs_text):
    """Mechanism classifiers for known findings (keys in known_findings.json)."""
    return None


def check_treeinfo(ctx, pmt, D, order_seed, tmpdir):
    rng = random.Random(order_seed)
    case = {"treeinfo": D, "order_seed": order_seed}
    try:
        ti = F.build(pmt, D, rng)
        t1 = ti.dumps()
    except Exception as e:   # refused to write (any exception): outside this property, judged by C06
        ctx.note_add("ti_write_refused")
        ctx.note("ti_write_refused_example", {"error": "%s: %s" % (type(e).__name__, e)})
        return False
    E = F.expected_obs(D)
    try:
        sections, _ = F.read_ini(t1)
        probs = F.sections_problems(D, sections)
    except Exception as e:
        probs = ["text unreadable by the independent reader: %s" % e]
    ctx.monitor("ti-M1-text-equals-description", fired=bool(probs))
    if probs:
        ctx.violation("ti-M1-text-equals-description", "the written .treeinfo holds every fact of the description in its documented place",
                      case, observed=probs, expected="no difference", key=key_ti(D, probs))
    try:
        ti2 = pmt.TreeInfo()
        # the reader object is not always pristine: the caller looked at its (still empty) header, or it refused an empty /
        # truncated file a moment ago
        reader = order_seed % 4
        if reader == 1:
            ti2.header.version_tuple
            ti2.header.version
            ctx.count("reader-header-inspected-before-load")
        elif reader == 2:
            for junk in ("", "[header]\nversion = 1.2\n"):
                try:
                    ti2.loads(junk)
                except Exception:
                    pass
            ctx.count("reader-refused-a-truncated-file-before")
        ti2.loads(t1)
        obs, structural = F.observe(ti2)
        diffs = structural + _diff(E, obs)
    except Exception as e:
        ti2 = None
        diffs = ["loads() of the library's own output raised %s: %s" % (type(e).__name__, e)]
    ctx.monitor("ti-M3-reload-equals-description", fired=bool(diffs))
    if diffs:
        ctx.violation("ti-M3-reload-equals-description", "every listed fact is read back equal to what was written",
                      case, observed=diffs, expected="no difference", key=key_ti(D, diffs))
    if ti2 is None:
        return True
    try:
        t2 = ti2.dumps()
    except Exception as e:
        t2 = "raised %s: %s" % (type(e).__name__, e)
    ctx.monitor("ti-M4-redump-identical", fired=t1 != t2)
    if t1 != t2:
        ctx.violation("ti-M4-redump-identical", "writing the re-read tree reproduces the file byte for byte", case,
                      observed=_first_diff(t1, t2), expected="identical text", key=key_ti(D, [t2] if not t2.startswith("[") else diffs))
    path = os.path.join(tmpdir, "treeinfo")
    try:
        ti.dump(path)
        with open(path) as f:
            onfile = f.read()
        ti3 = pmt.TreeInfo()
        ti3.load(path)
        obs3, _s = F.observe(ti3)
        problems = []
        if onfile != t1:
            problems.append("dump(path) bytes differ from dumps()")
        problems.extend(_diff(E, obs3))
        from rv import formats as _formats
        problems.extend(_formats.entry_point_problems(_formats.modules(), "treeinfo", ti, t1, tmpdir))
    except Exception as e:
        problems = ["file round trip raised %s: %s" % (type(e).__name__, e)]
    finally:
        try:
            os.unlink(path)
        except OSError:
            pass
    ctx.monitor("ti-M5-file-roundtrip", fired=bool(problems))
    if problems:
        ctx.violation("ti-M5-file-roundtrip", "dump(path)/load(path) equals the string round trip", case,
                      observed=problems[:8], expected="no difference", key=key_ti(D, problems))
    check_ti_edit_after_reload(ctx, pmt, D, ti2, rng, case)
    return True


def _ti_find(ti, uid):
    todo = list(ti.variants.variants.values())
    while todo:
        v = todo.pop()
        if v.uid == uid:
            return v
        todo.extend(v.variants.values())
    return None


def check_ti_edit_after_reload(ctx, pmt, D, ti2, rng, case):
    """ti-M6: the re-read tree is a tree like any other: facts are REMOVED from it (a checksum entry, a variant path, an image
    platform, the second stage2 image, the media section, a leaf child) and it is written again - nothing of the file it was
    read from survives in the new file."""
    import copy
    import posixpath
    D2 = copy.deepcopy(D)
    edits = []
    if D2["checksums"] and rng.random() < 0.7:
        k = rng.choice(sorted(D2["checksums"]))
        stored = k if D2.get("checksums_direct") else posixpath.normpath(k)
        others = [k2 for k2 in D2["checksums"] if k2 != k and (k2 if D2.get("checksums_direct") else posixpath.normpath(k2)) == stored]
        if stored in ti2.checksums.checksums and not others:
            del ti2.checksums.checksums[stored]
            del D2["checksums"][k]
            edits.append("checksum-entry-removed")
    nodes = [v for v in F.iter_nodes(D2["variants"]) if any(p is not None for p in v["paths"].values())]
    if nodes and rng.random() < 0.7:
        v = rng.choice(nodes)
        k = rng.choice(sorted(k0 for k0, p in v["paths"].items() if p is not None))
        obj = _ti_find(ti2, v["uid"])
        if obj is not None:
            setattr(obj.paths, k, None)
            v["paths"].pop(k)
            edits.append("variant-path-removed")
    if D2["images"] and rng.random() < 0.5:
        plat = rng.choice(sorted(D2["images"]))
        if plat in ti2.images.images:
            del ti2.images.images[plat]
            del D2["images"][plat]
            edits.append("image-platform-removed")
    if D2["stage2"]["instimage"] is not None and rng.random() < 0.5:
        ti2.stage2.instimage = None
        D2["stage2"]["instimage"] = None
        edits.append("stage2-instimage-removed")
    if D2["media"] and rng.random() < 0.5:
        ti2.media.discnum = None
        ti2.media.totaldiscs = None
        D2["media"] = None
        edits.append("media-removed")
    parents = [v for v in F.iter_nodes(D2["variants"]) if any(not c["children"] for c in v["children"])]
    if parents and rng.random() < 0.5:
        par = rng.choice(parents)
        child = rng.choice([c for c in par["children"] if not c["children"]])
        obj = _ti_find(ti2, par["uid"])
        if obj is not None and child["id"] in obj.variants:
            del obj.variants[child["id"]]
            par["children"].remove(child)
            edits.append("leaf-child-removed")
    if not edits:
        return
    for e in edits:
        ctx.count("ti-edit-after-reload-" + e)
    case6 = dict(case, edited_after_reload=edits, treeinfo_after_edit=D2)
    try:
        t3 = ti2.dumps()
        ti4 = pmt.TreeInfo()
        ti4.loads(t3)
        obs4, structural = F.observe(ti4)
        probs = structural + _diff(F.expected_obs(D2), obs4)
        if not probs:
            t_fresh = F.build(pmt, D2, None).dumps()
            if t_fresh != t3:
                probs = ["the edited re-read tree and a freshly built tree with the same content write different text", _first_diff(t_fresh, t3)]
    except Exception as e:
        probs = ["raised %s: %s" % (type(e).__name__, str(e)[:200])]
    ctx.monitor("ti-M6-edited-after-reload", fired=bool(probs))
    if probs:
        ctx.violation("ti-M6-edited-after-reload", "a re-read tree that is edited and written again is read back as the edited tree",
                      case6, observed=probs[:8], expected="no difference")


def key_ti(D, msgs):
    return None


def key_di(d, got):
    return None


def check_discinfo(ctx, pmd, d, tmpdir):
    case = {"discinfo": d}
    try:
        di = F.build_discinfo(pmd, d)
        t1 = di.dumps()
    except Exception as e:   # refused to write (any exception): outside this property, judged by C06
        ctx.note_add("di_write_refused")
        return False
    lines = t1.split("\n")
    want_lines = [repr(float(d["timestamp"])), d["description"], d["arch"],
                  "ALL" if d["disc_numbers"] == ["ALL"] else ",".join(str(i) for i in d["disc_numbers"])]
    probs = []
    if len(lines) < 4:
        probs.append("fewer than four lines: %r" % lines)
    else:
        try:
            if float(lines[0]) != d["timestamp"]:
                probs.append("line 1: %r does not denote %r" % (lines[0], d["timestamp"]))
        except ValueError:
            probs.append("line 1 is not a number: %r" % lines[0])
        for i in (1, 2, 3):
            if lines[i] != want_lines[i]:
                probs.append("line %d: expected %r, found %r" % (i + 1, want_lines[i], lines[i]))
    ctx.monitor("di-M1-text", fired=bool(probs))
    if probs:
        ctx.violation("di-M1-text", "the four .discinfo lines are timestamp, description, arch, disc numbers", case,
                      observed=probs, expected=want_lines)
    try:
        di2 = pmd.DiscInfo()
        di2.loads(t1)
        obs = F.observe_discinfo(di2)
        diffs = _diff(d, obs)
    except Exception as e:
        di2 = None
        diffs = ["loads() raised %s: %s" % (type(e).__name__, e)]
    ctx.monitor("di-M3-reload", fired=bool(diffs))
    if diffs:
        ctx.violation("di-M3-reload", "timestamp, description, arch and disc numbers are read back equal", case,
                      observed=diffs, expected="no difference", key=key_di(d, diffs))
    if di2 is None:
        return True
    try:
        t2 = di2.dumps()
    except Exception as e:
        t2 = "raised %s: %s" % (type(e).__name__, e)
    ctx.monitor("di-M4-redump", fired=t1 != t2)
    if t1 != t2:
        ctx.violation("di-M4-redump", "writing the re-read .discinfo reproduces the file byte for byte", case,
                      observed=t2, expected=t1, key=key_di(d, [t2]))
    path = os.path.join(tmpdir, "discinfo")
    try:
        di.dump(path)
        with open(path) as f:
            onfile = f.read()
        di3 = pmd.DiscInfo()
        di3.load(path)
        problems = []
        if onfile != t1:
            problems.append("dump(path) bytes differ from dumps()")
        problems.extend(_diff(d, F.observe_discinfo(di3)))
    except Exception as e:
        problems = ["file round trip raised %s: %s" % (type(e).__name__, e)]
    finally:
        try:
            os.unlink(path)
        except OSError:
            pass
    ctx.monitor("di-M5-file", fired=bool(problems))
    if problems:
        ctx.violation("di-M5-file", "dump(path)/load(path) equals the string round trip", case, observed=problems,
                      expected="no difference", key=key_di(d, problems))
    # di-M6: the re-read object is edited IN PLACE (its disc list is a list the caller may change) and written again; the
    # file it was read from still reads as before, also afterwards
    import copy
    d2 = copy.deepcopy(d)
    new_numbers = [1, 2] if d["disc_numbers"] != [1, 2] else [3]
    d2["disc_numbers"] = list(new_numbers)
    d2["description"] = d["description"] + " (respin)"
    probs = []
    try:
        di2.disc_numbers[:] = new_numbers
        di2.description = d2["description"]
        t3 = di2.dumps()
        di4 = pmd.DiscInfo()
        di4.loads(t3)
        probs = _diff(d2, F.observe_discinfo(di4))
        di5 = pmd.DiscInfo()
        di5.loads(t1)
        probs += ["the ORIGINAL file, read again after another object was edited: " + x for x in _diff(d, F.observe_discinfo(di5))]
        fresh = F.build_discinfo(pmd, d)
        if fresh.dumps() != t1:
            probs.append("a freshly built object of the original description no longer writes the original text")
    except Exception as e:
        probs.append("raised %s: %s" % (type(e).__name__, str(e)[:200]))
    ctx.count("di-edited-in-place-after-reload" + ("-was-ALL" if d["disc_numbers"] == ["ALL"] else ""))
    ctx.monitor("di-M6-edited-after-reload", fired=bool(probs))
    if probs:
        ctx.violation("di-M6-edited-after-reload", "a re-read .discinfo that is edited and written again is read back as edited; other "
                      "objects and files are not affected", dict(case, edited_to=d2), observed=probs[:6], expected="no difference")
    return True


def _diff(a, b, path=""):
    out = []
    if isinstance(a, dict) and isinstance(b, dict):
        for k in sorted(set(a) | set(b), key=str):
            if k not in b:
                out.append("%s/%s: missing in observed" % (path, k))
            elif k not in a:
                out.append("%s/%s: only in observed (%r)" % (path, k, b[k]))
            else:
                out.extend(_diff(a[k], b[k], "%s/%s" % (path, k)))
    elif isinstance(a, list) and isinstance(b, list):
        if len(a) != len(b):
            out.append("%s: %d entries expected, %d observed" % (path, len(a), len(b)))
        for i, (x, y) in enumerate(zip(a, b)):
            out.extend(_diff(x, y, "%s[%d]" % (path, i)))
    elif a != b or (type(a) is not type(b) and not (isinstance(a, (int, float)) and isinstance(b, (int, float)) and
                                                     not isinstance(a, bool) and not isinstance(b, bool))):
        out.append("%s: expected %r, observed %r" % (path, a, b))
    return out[:10]


def _first_diff(a, b):
    if not isinstance(b, str):
        return repr(b)
    n = min(len(a), len(b))
    i = 0
    while i < n and a[i] == b[i]:
        i += 1
    return {"at": i, "first": a[max(0, i - 60):i + 60], "second": b[max(0, i - 60):i + 60]}


def ti_nontrivial(D):
    return bool(any(v["children"] for v in D["variants"]) or D["images"] or D["checksums"] or D["media"] or
                D["stage2"]["mainimage"] or D["stage2"]["instimage"] or D["base_product"])


def run_shard(ctx):
    pmt, pmd = _pm()
    n = int(ctx.params.get("cases", 300))
    rng = ctx.rng(0)
    tmpdir = os.path.join(ctx.scratch, "c04")
    os.makedirs(tmpdir, exist_ok=True)
    for i in range(n):
        if i % 64 == 0 and ctx.out_of_time():
            ctx.note("stopped_early_at", i)
            break
        force = TI_FORCES[(i // 2) % len(TI_FORCES)] if i % 2 == 0 else None
        D = F.gen_description(rng, force)
        if force is None and rng.random() < 0.1:
            formats.equalise("treeinfo", D, rng)
            ctx.count("fields-made-equal")
        written = check_treeinfo(ctx, pmt, D, rng.randrange(1 << 30), tmpdir)
        if written:
            for k in F.classes_of(D):
                ctx.count(k)
        ctx.case_done({"ti": D}, nontrivial=written and ti_nontrivial(D))
        if written and len(ctx.samples) < 1 and i >= 2:
            ctx.sample({"treeinfo": D})
    rng = ctx.rng(1)
    m = int(ctx.params.get("di_cases", 300))
    for i in range(m):
        if i % 128 == 0 and ctx.out_of_time():
            break
        force = DI_FORCES[(i // 2) % len(DI_FORCES)] if i % 2 == 0 else None
        d = F.gen_discinfo(rng, force)
        written = check_discinfo(ctx, pmd, d, tmpdir)
        if written:
            for k in F.discinfo_classes(d):
                ctx.count("di-" + k)
        ctx.case_done({"di": d}, nontrivial=written and (d["disc_numbers"] != ["ALL"] or any(ch in d["description"] for ch in "\"'")))
        if written and len(ctx.samples) < 2 and i >= 2:
            ctx.sample({"discinfo": d})


def replay(ctx, case):
    pmt, pmd = _pm()
    tmpdir = os.path.join(ctx.scratch, "c04")
    os.makedirs(tmpdir, exist_ok=True)
    if "treeinfo" in case:
        check_treeinfo(ctx, pmt, case["treeinfo"], case.get("order_seed", 0), tmpdir)
    else:
        check_discinfo(ctx, pmd, case["discinfo"], tmpdir)
    ctx.case_done(case)
