"""C19  Validation and parsing time grows polynomially with input length.

Oracle: executed INSTRUCTION COUNTS of the real regex engine / validators on
pumped inputs (a logical-step measure, not a clock): each measurement child
runs under `valgrind --tool=callgrind --collect-atstart=no`; a ctypes shim
(native/cgctl.c) toggles collection around ONE call and dumps the count.  For
a family prefix + pump^n + suffix with counts s(L) at input lengths L, the
local degree d = ln(s2/s1)/ln(L2/L1) over consecutive sizes above a noise
floor decides: violation iff d > 5.5 at two consecutive steps (an exponential
has unbounded d, a polynomial of degree k has d <= k), or a <= 48-character
input costs more than 5*10^7 instructions.

Stages (each in separate child processes of this check):
 1 harvest   - re._compile is wrapped BEFORE productmd is imported; a workload
               over every format, codec and fixture records every pattern the
               repository hands to `re` (so a newly introduced pattern is
               measured without anybody listing it).
 2 derive    - pump families are derived mechanically from each pattern's own
               parse tree (re._parser): literals and one representative per
               character class as pump atoms; pumps of 1-2 atoms and 3-block
               pumps; prefixes = the minimal match cut at every item; suffixes
               {empty, a character no class accepts, LF, rest of the minimal
               match, rest + bad}.  The public callables get generic families.
 3 prescreen - native, cheap stepping of EVERY family (never a verdict) picks
               the candidates; fixed sentinel families are always kept.
 4 measure   - callgrind instruction counts of candidates + sentinels; verdict.
"""
import json
import os
import re
import subprocess
import sys
import time

PROPERTY = "C19"
LEVEL = "exploration"
RULE = ("cases = (target, prefix, pump, suffix) families x input sizes; every family is stepped natively (prescreen), "
        "candidates and sentinels are measured as instruction counts under callgrind; evaluations = measured calls + "
        "prescreened families; distinct = families; a family is non-trivial when its pump is non-empty and the target "
        "did not reject/accept it in constant cost (count grows with n)")
ASSUMPTIONS = ["valgrind/callgrind instruction counts of CPython's _sre engine are the step measure (fallback: CPU time, stated in the evidence)",
               "degree limit 5.5 and the 5e7-instruction cap for <= 48 characters are calibrated on the worst legitimate pattern "
               "(RPM_NVRA_RE, degree 4, 6.3e6 instructions at 48 characters)",
               "pump families with more than 3 blocks, or prefixes the derivation does not produce, are not explored"]
REQUIRED_MONITORS = ["growth-rule", "short-input-cap", "harvest"]
HERE = os.path.dirname(os.path.dirname(os.path.abspath(__file__)))

GENERIC_ATOMS = ["a", "1", "-", ".", ":", "/", "a-", "1.", "a1", ".1", "-a", "a:", "ab", " ", "@", "A", "_",
                 "a/", "/a", "a.", "1-", "-1", "a-a", "1.1", ":a", "a-1.", "C", "Ca", "aA", ",", "1,", "a,", "9", "0", "\"", "'", "\"'"]
GENERIC_BLOCKS = [["a", "-", "1"], ["/", "-", "."], ["a", ":", "1"], ["1", ".", "1"], ["a", "-", "a"], ["a/", "a-", "a."],
                  ["-", ":", "-"], ["A", "a", "-"], ["1", "-", "1"], ["1", ",", "1"]]
GENERIC_PREFIX = ["", "a", "1", "RC-", "a-0:1-", "n:s:", "F-22-20150522", "1-", "1,", "1e", "F-22-20150522.n.1-"]
GENERIC_SUFFIX = ["", "!", "\n", ".x86_64",
                  # valid tails: the pump sits in front of an input the target ACCEPTS (cost blow-ups of accepted inputs)
                  "n:s", "a:1:2:c", "a-0:1-1.noarch", "a-1", "f-23-updates", "RC-1.0", "20150522.n.0", "1.0", "a"]
STRUCTURES = [("composeinfo-chain", "doc:ComposeInfo.loads"), ("composeinfo-chain-dup", "doc:ComposeInfo.loads"),
              ("composeinfo-wide", "doc:ComposeInfo.loads"), ("composeinfo-wide-dup", "doc:ComposeInfo.loads"),
              ("treeinfo-chain", "doc:TreeInfo.loads"), ("treeinfo-chain-dup", "doc:TreeInfo.loads"),
              ("images-same-image-repeated", "doc:Images.loads"),
              ("ini-reference-stage2-fanout", "doc:TreeInfo.loads"), ("ini-reference-stage2-depth", "doc:TreeInfo.loads"),
              ("ini-reference-checksums-fanout", "doc:TreeInfo.loads"),
              ("legacy-treeinfo-sections-shared-by-id", "doc:TreeInfo.loads"), ("legacy-treeinfo-addons-shared-by-id", "doc:TreeInfo.loads")]
SENTINELS = [("is_valid_release_short", "", "a", "!"), ("is_valid_release_short", "", "a-", "!"), ("is_valid_release_version", "", "1", "x"),
             ("is_valid_release_version", "", "1.", "x"), ("is_valid_release_type", "", "a", "!"), ("is_valid_release_type", "a", "1", "_"),
             ("create_release_id:short", "", "a", "!"), ("create_release_id:version", "", "1", "!"), ("parse_release_id", "", "a-", ""),
             ("parse_nvra", "", "/-x", ""), ("parse_nvra", "", "a-", "!"), ("Modules.parse_uid", "", "a:", "!"),
             ("verify_label", "RC-", "1", "!"), ("get_date_type_respin", "", "1", "!"), ("get_date_type_respin", "", "12345678.", "!"),
             ("Header.version", "", "1", "!"), ("Image.implant_md5", "", "a", "!"), ("composeinfo.Variant.id", "", "a", "-"),
             ("treeinfo.Release.version", "1", ".1", "!"), ("Compose.id", "", "1", "!"), ("Compose.date", "", "1", "!"),
             ("ComposeInfo.loads:release.version", "", "1", "x"), ("ComposeInfo.loads:compose.label", "RC-", "1", "!"),
             ("split_version", "", "1", ""), ("Rpms.add:nevra", "a-0:", "-", "!")]


def plan(tier):
    if tier == "thorough":
        return {"shards": 1, "params": {"max_candidates": 1200, "cap": 300000000, "measure_budget_s": 1500, "prescreen_budget_s": 600,
                                        "budget_s": 3000, "reach": False, "workers": 16}, "timeout_s": 4200}
    return {"shards": 1, "params": {"max_candidates": 48, "cap": 30000000, "measure_budget_s": 300, "prescreen_budget_s": 200,
                                    "budget_s": 800, "reach": False, "workers": 16}, "timeout_s": 1500}


# ---------------------------------------------------------------------------
# family derivation from a pattern's parse tree
# ---------------------------------------------------------------------------

def _consts():
    import re._constants as K
    return K


def cat_rep(cat):
    name = str(cat)
    if "NOT_DIGIT" in name:
        return "a"
    if "DIGIT" in name:
        return "1"
    if "NOT_SPACE" in name:
        return "a"
    if "SPACE" in name:
        return " "
    if "NOT_WORD" in name:
        return "-"
    if "WORD" in name:
        return "a"
    return "a"


def in_members(items):
    """(negated, set of representative chars, predicate)"""
    K = _consts()
    neg = False
    chars = []
    tests = []
    for op, av in items:
        if op is K.NEGATE:
            neg = True
        elif op is K.LITERAL:
            chars.append(chr(av))
            tests.append(lambda c, av=av: ord(c) == av)
        elif op is K.RANGE:
            chars.append(chr(av[0]))
            tests.append(lambda c, av=av: av[0] <= ord(c) <= av[1])
        elif op is K.CATEGORY:
            chars.append(cat_rep(av))
            rep = cat_rep(av)
            name = str(av)
            if "DIGIT" in name:
                tests.append((lambda c: not c.isdigit()) if "NOT" in name else (lambda c: c.isdigit()))
            elif "SPACE" in name:
                tests.append((lambda c: not c.isspace()) if "NOT" in name else (lambda c: c.isspace()))
            else:
                tests.append((lambda c: not (c.isalnum() or c == "_")) if "NOT" in name else (lambda c: c.isalnum() or c == "_"))
    pred = (lambda c: not any(t(c) for t in tests)) if neg else (lambda c: any(t(c) for t in tests))
    if neg:
        chars = [c for c in ["a", "1", "-", "!", " ", ".", "/", ":"] if pred(c)][:2]
    return neg, chars, pred


def walk(tree, atoms, preds):
    K = _consts()
    for op, av in tree:
        if op is K.LITERAL:
            atoms.append(chr(av))
            preds.append(lambda c, av=av: ord(c) == av)
        elif op is K.NOT_LITERAL:
            atoms.append("a" if av != ord("a") else "b")
            preds.append(lambda c, av=av: ord(c) != av)
        elif op is K.IN:
            neg, chars, pred = in_members(av)
            atoms.extend(chars)
            preds.append(pred)
        elif op is K.ANY:
            atoms.append("a")
            preds.append(lambda c: c != "\n")
        elif op is K.CATEGORY:
            atoms.append(cat_rep(av))
        elif op in (K.MAX_REPEAT, K.MIN_REPEAT) or str(op) == "POSSESSIVE_REPEAT":
            walk(av[2], atoms, preds)
        elif op is K.SUBPATTERN:
            walk(av[3], atoms, preds)
        elif op is K.BRANCH:
            for alt in av[1]:
                walk(alt, atoms, preds)
        elif str(op) in ("ASSERT", "ASSERT_NOT"):
            walk(av[1], atoms, preds)
        elif str(op) == "ATOMIC_GROUP":
            walk(av, atoms, preds)


def minimal(tree):
    """Minimal matching string per top-level item (list of strings)."""
    K = _consts()
    out = []
    for op, av in tree:
        if op is K.LITERAL:
            out.append(chr(av))
        elif op is K.NOT_LITERAL:
            out.append("a" if av != ord("a") else "b")
        elif op is K.IN:
            neg, chars, pred = in_members(av)
            out.append(chars[0] if chars else "a")
        elif op is K.ANY:
            out.append("a")
        elif op is K.CATEGORY:
            out.append(cat_rep(av))
        elif op in (K.MAX_REPEAT, K.MIN_REPEAT) or str(op) == "POSSESSIVE_REPEAT":
            lo = av[0]
            out.append("".join(minimal(av[2])) * min(lo, 40))
        elif op is K.SUBPATTERN:
            out.append("".join(minimal(av[3])))
        elif op is K.BRANCH:
            out.append("".join(minimal(av[1][0])))
        else:
            out.append("")
    return out


def derive_families(pattern, flags, max_per_pattern):
    import re._parser as P
    try:
        tree = P.parse(pattern, flags)
    except Exception:
        return []
    atoms, preds = [], []
    walk(tree, atoms, preds)
    uniq = []
    for a in atoms:
        if a not in uniq and a != "":
            uniq.append(a)
    for a in ["a", "1"]:
        if a not in uniq:
            uniq.append(a)
    uniq = uniq[:8]
    bad = None
    for c in ["!", "\x00", "~", " ", "#", "\n"]:
        if not any(p(c) for p in preds):
            bad = c
            break
    if bad is None:
        bad = "\n"
    items = minimal(tree)
    cuts = sorted(set(["".join(items[:i]) for i in range(len(items) + 1)]), key=len)
    full = "".join(items)
    pumps = [("pump", a) for a in uniq]
    first = uniq[:4]
    for x in first:
        for y in first:
            if x != y:
                pumps.append(("pump", x + y))
    for x in first[:4]:
        for y in first[:4]:
            for z in first[:4]:
                if len(set([x, y, z])) == 3:
                    pumps.append(("blocks", [x, y, z]))
    fams = []
    for cut in cuts[:7]:
        rest = full[len(cut):] if full.startswith(cut) else ""
        sufs = ["", bad, "\n", rest, rest + bad]
        seen = set()
        for suf in sufs:
            if suf in seen:
                continue
            seen.add(suf)
            for kind, p in pumps:
                f = {"prefix": cut, "suffix": suf}
                if kind == "pump":
                    f["pump"] = p
                else:
                    f["pump"] = ""
                    f["blocks"] = p
                fams.append(f)
    if len(fams) > max_per_pattern:
        # deterministic thinning that keeps every pump and every cut represented
        step = len(fams) / float(max_per_pattern)
        fams = [fams[int(i * step)] for i in range(max_per_pattern)]
    return fams


# ---------------------------------------------------------------------------
# orchestration (runs inside the single shard)
# ---------------------------------------------------------------------------

def run_children(jobs, maxpar, timeout):
    """jobs: [(argv, env, out_path)] -> [(rc, out_json or None, log)]"""
    res = [None] * len(jobs)
    pending = list(range(len(jobs)))
    running = []
    t0 = time.time()
    while pending or running:
        while pending and len(running) < maxpar:
            i = pending.pop(0)
            argv, env, out = jobs[i]
            log = open(out + ".log", "w")
            p = subprocess.Popen(argv, env=env, cwd=HERE, stdout=log, stderr=subprocess.STDOUT)
            running.append((i, p, out, log, time.time()))
        still = []
        for item in running:
            i, p, out, log, ts = item
            rc = p.poll()
            if rc is None and time.time() - ts > timeout:
                p.kill()
                p.wait()
                rc = -9
            if rc is None:
                still.append(item)
                continue
            log.close()
            data = None
            if os.path.exists(out):
                try:
                    with open(out) as f:
                        data = json.load(f)
                except Exception:
                    data = None
            try:
                with open(out + ".log") as f:
                    logt = f.read()[-1500:]
            except Exception:
                logt = ""
            res[i] = (rc, data, logt)
        running = still
        if running:
            time.sleep(0.05)
    return res


def run_shard(ctx):
    scratch = ctx.scratch
    repo = ctx.repo
    env = dict(os.environ)
    env["PYTHONPATH"] = HERE
    env["PYTHONHASHSEED"] = "0"
    env["PYTHONDONTWRITEBYTECODE"] = "1"
    py = sys.executable
    workers = int(ctx.params.get("workers", 16))

    # ---- 1 harvest ----------------------------------------------------------
    spec = os.path.join(scratch, "harvest.spec.json")
    with open(spec, "w") as f:
        json.dump({"repo": repo}, f)
    out = os.path.join(scratch, "harvest.out.json")
    (rc, hv, log), = run_children([([py, "-m", "rv.cgworker", "harvest", spec, out], env, out)], 1, 300)
    if hv is None:
        ctx.starved("harvest child failed (rc=%s): %s" % (rc, log[-400:]))
        return
    patterns = hv["patterns"]
    for st in hv.get("stalls", []):
        ctx.monitor("stall", fired=True)
        ctx.violation("stall", "no short input (a few dozen characters) can stall a caller", {"target": st["target"], "input": st["input"]},
                      observed="interrupted after %.0f CPU seconds (native)" % st["cpu_s"], expected="microseconds",
                      key=classify({"target": st["target"]}))
    taint = hv.get("taint") or {}
    if taint.get("error") or not taint.get("tokens"):
        ctx.starved("the scan for patterns built from document data did not run: %s" % (taint.get("error") or "no tokens"))
    ctx.note("data_taint_scan", {k: taint.get(k) for k in ("docs", "tokens", "loads", "bomb_loads", "truncated")})
    ctx.note("patterns_built_from_document_data", taint.get("tainted", [])[:10])
    ctx.monitor("data-built-pattern-stall", n=max(1, int(taint.get("loads", 0))), fired=bool(taint.get("stalls")))
    for st in taint.get("stalls", []):
        ctx.violation("data-built-pattern-stall", "no short input can stall a caller: a pattern assembled from document text must not let the "
                      "document choose an exponentially ambiguous expression",
                      {"format": st["format"], "document": st["document"], "token": st["token"], "bomb": st["bomb"], "pumped": st["pumped"]},
                      observed="load interrupted after %.0f CPU seconds; patterns built from the token: %s" % (st["cpu_s"], st["patterns"]),
                      expected="milliseconds", key=None)
    ctx.monitor("harvest", n=len(patterns))
    ctx.note("harvest_events", hv["events"])
    ctx.note("patterns_harvested", [[p["pattern"], p["flags"], p["where"][:3]] for p in patterns])
    if len(patterns) < 5:
        ctx.starved("only %d patterns harvested" % len(patterns))

    # ---- 2 derive -------------------------------------------------------------
    families = []
    per_pattern = {}
    for p in patterns:
        fams = derive_families(p["pattern"], p["flags"] & ~re.UNICODE, 400 if ctx.tier == "quick" else 1500)
        per_pattern[p["pattern"]] = len(fams)
        methods = ["match"]
        if any(("search" in w or "split" in w or "sub" in w) for w in p.get("where", [])):
            methods.append("search")
        for m in methods:
            for fam in fams:
                f = dict(fam)
                f["target"] = {"kind": "pattern", "pattern": p["pattern"], "flags": p["flags"] & ~re.UNICODE, "method": m}
                families.append(f)
    for name in hv["targets"]:
        if name.startswith("doc:"):
            continue
        # field-in-document targets get a reduced grid (each call loads a whole document)
        in_doc = ".loads:" in name
        for pre in (GENERIC_PREFIX if not in_doc else ["", "a", "1", "1-", "1e", "./", "/", "../", "/mnt/os/"]):
            for pump in GENERIC_ATOMS:
                for suf in (GENERIC_SUFFIX if not in_doc else ["", "!", "a", "x"]):
                    families.append({"prefix": pre, "pump": pump, "suffix": suf, "target": {"kind": "callable", "name": name}})
    for sname, tname in STRUCTURES:
        if tname in hv["targets"]:
            families.append({"prefix": "", "pump": "", "suffix": "", "structure": sname, "target": {"kind": "callable", "name": tname},
                             "sentinel": True})
    for name in hv["targets"]:
        if name.startswith("doc:"):
            continue
        for blocks in GENERIC_BLOCKS:
            for pre in ("", "a-0:", "RC-"):
                for suf in ("", "!", ".x86_64"):
                    families.append({"prefix": pre, "pump": "", "blocks": blocks, "suffix": suf,
                                     "target": {"kind": "callable", "name": name}})
    sentinel_ids = set()
    for (name, pre, pump, suf) in SENTINELS:
        if name in hv["targets"]:
            families.append({"prefix": pre, "pump": pump, "suffix": suf, "target": {"kind": "callable", "name": name}, "sentinel": True})
    for i, f in enumerate(families):
        f["id"] = i
        if f.get("sentinel"):
            sentinel_ids.add(i)
    ctx.note("families_total", len(families))
    ctx.note("families_per_pattern", per_pattern)

    # ---- 3 prescreen (native) ----------------------------------------------------
    jobs = []
    nchunks = workers
    for k in range(nchunks):
        chunk = families[k::nchunks]
        sp = os.path.join(scratch, "pre%d.spec.json" % k)
        with open(sp, "w") as f:
            json.dump({"repo": repo, "families": chunk, "budget_s": ctx.params.get("prescreen_budget_s", 90)}, f)
        o = os.path.join(scratch, "pre%d.out.json" % k)
        jobs.append(([py, "-m", "rv.cgworker", "prescreen", sp, o], env, o))
    pres = run_children(jobs, workers, float(ctx.params.get("prescreen_budget_s", 90)) + 120)
    candidates = {}
    screened = 0
    for k, (rc, data, log) in enumerate(pres):
        if data is None:
            # the child had to be killed (or died): which call was it in?  Repeat that ONE call under a hard CPU limit
            # enforced by the kernel (a call stuck in C code that polls no signals cannot be interrupted from inside)
            confirmed = False
            try:
                with open(os.path.join(scratch, "pre%d.out.json.progress" % k)) as f:
                    fid, n_at = [int(x) for x in f.read().split()[:2]]
                fam = families[fid]
                sp = os.path.join(scratch, "confirm%d.spec.json" % k)
                with open(sp, "w") as f:
                    json.dump({"repo": repo, "family": fam, "n": n_at, "cpu_s": 60}, f)
                o = os.path.join(scratch, "confirm%d.out.json" % k)
                (rc2, data2, log2), = run_children([([py, "-m", "rv.cgworker", "confirm", sp, o], env, o)], 1, 600)
                from rv import cgworker as _cg
                s_in = _cg.family_input(fam, n_at)
                ctx.monitor("stall", fired=data2 is None and rc2 in (-24, -9))
                if data2 is None and rc2 in (-24, -9) and len(s_in) <= 80:
                    confirmed = True
                    ctx.violation("stall", "no short input (a few dozen characters) can stall a caller",
                                  {"target": fam["target"], "input": s_in, "prefix": fam["prefix"], "pump": fam.get("pump"),
                                   "blocks": fam.get("blocks"), "suffix": fam["suffix"], "n": n_at},
                                  observed="the call was still running after 60 CPU seconds (process killed by the kernel's CPU limit); "
                                           "it could not be interrupted from inside, the screening process had to be killed",
                                  expected="microseconds", key=classify(fam))
                elif data2 is not None:
                    ctx.note("killed_prescreen_child_last_call_cpu_s", data2.get("cpu_s"))
            except Exception as e:
                ctx.note("confirm_failed", "%s: %s" % (type(e).__name__, e))
            ctx.starved("prescreen child %d failed (rc=%s)%s: %s" % (k, rc, " - stalled call confirmed" if confirmed else "", log[-300:]))
            continue
        screened += data["screened"]
        if data["screened"] < data["of"]:
            ctx.starved("prescreen child %d screened only %d of %d families within its budget" % (k, data["screened"], data["of"]))
        for c in data["candidates"]:
            candidates[c["id"]] = c
        for st in data.get("stalls", []):
            fam = families[st["id"]]
            ctx.monitor("stall", fired=True)
            ctx.violation("stall", "no short input (a few dozen characters) can stall a caller",
                          {"target": fam["target"], "input": st["input"]},
                          observed="interrupted after %.0f CPU seconds (native)" % st["cpu_s"], expected="microseconds",
                          key=classify(fam))
    ctx.note("families_prescreened", screened)
    ctx.note("prescreen_candidates", len(candidates))
    ctx.enumerated(screened)
    order = sorted(candidates.values(), key=lambda c: -c["suspicion"])
    maxc = int(ctx.params.get("max_candidates", 96))
    # keep the most suspicious, but at most 6 per target so that every suspicious target is measured
    chosen, per_target = [], {}
    for c in order:
        t = json.dumps(families[c["id"]]["target"], sort_keys=True)
        if per_target.get(t, 0) >= (6 if ctx.tier == "quick" else 60):
            continue
        per_target[t] = per_target.get(t, 0) + 1
        chosen.append(c["id"])
        if len(chosen) >= maxc:
            break
    ctx.note("candidates_measured", len(chosen))
    ctx.note("candidates_not_measured_lower_suspicion", len(candidates) - len(chosen))
    # sentinels first (they must never be starved), then candidates by decreasing suspicion
    to_measure = sorted(sentinel_ids) + [i for i in chosen if i not in sentinel_ids]

    # ---- 4 measure (callgrind) --------------------------------------------------------
    have_valgrind = subprocess.run(["sh", "-c", "command -v valgrind"], stdout=subprocess.PIPE).returncode == 0 and \
        os.path.exists(os.path.join(HERE, ".build", "cgctl.so"))
    ctx.note("oracle", "callgrind-instructions" if have_valgrind else "cpu-time-fallback")
    jobs = []
    nchunks = min(workers, max(1, len(to_measure)))
    for k in range(nchunks):
        ids = to_measure[k::nchunks]
        cgdir = os.path.join(scratch, "cg%d" % k)
        os.makedirs(cgdir, exist_ok=True)
        sp = os.path.join(scratch, "mea%d.spec.json" % k)
        with open(sp, "w") as f:
            json.dump({"repo": repo, "families": [families[i] for i in ids], "cgdir": cgdir, "cap": ctx.params.get("cap", 100000000),
                       "budget_s": ctx.params.get("measure_budget_s", 110)}, f)
        o = os.path.join(scratch, "mea%d.out.json" % k)
        argv = [py, "-m", "rv.cgworker", "measure", sp, o]
        if have_valgrind:
            argv = ["valgrind", "--tool=callgrind", "--collect-atstart=no", "--callgrind-out-file=%s/cg.%%p" % cgdir, "-q"] + argv
        jobs.append((argv, env, o))
    mres = run_children(jobs, workers, float(ctx.params.get("measure_budget_s", 110)) + 200)
    measured_calls = 0
    worst = []
    for k, (rc, data, log) in enumerate(mres):
        if data is None:
            ctx.starved("measure child %d failed (rc=%s): %s" % (k, rc, log[-300:]))
            continue
        ctx.note("oracle_mode_reported", [data["mode"]])
        for r in data["results"]:
            fam = families[r["id"]]
            pts = r["points"]
            measured_calls += len(pts)
            case = {"target": fam["target"], "prefix": fam["prefix"], "pump": fam.get("pump"), "blocks": fam.get("blocks"),
                    "suffix": fam["suffix"], "points": pts}
            if fam.get("structure"):
                case["structure"] = fam["structure"]
                ctx.count("structural-family")
            if r["verdict"] == "unmeasured":
                if r["id"] in sentinel_ids:
                    ctx.starved("sentinel family %d not measured within the budget" % r["id"])
                ctx.note_add("families_unmeasured")
                continue
            grew = len(pts) >= 2 and pts[-1][1] is not None and pts[0][1] is not None and pts[-1][1] > 2 * max(pts[0][1], 1)
            ctx.case_done(case_sig(fam), nontrivial=grew)
            ctx.monitor("growth-rule", fired=r["verdict"] == "super-polynomial")
            ctx.monitor("short-input-cap", fired=r["verdict"] == "short-input-too-expensive")
            maxd = max([d for d in r.get("detail", {}).get("degrees", []) if d is not None] or [0])
            worst.append((maxd, fam["target"].get("name") or fam["target"].get("pattern"), pts[-1] if pts else None))
            if r["verdict"] != "ok":
                ctx.violation("growth-rule" if r["verdict"] == "super-polynomial" else "short-input-cap",
                              "executed instructions grow at most like a low-degree polynomial of the input length; no short input is expensive",
                              case, observed={"verdict": r["verdict"], "detail": r.get("detail")},
                              expected="local degree <= %.1f and <= %d instructions for <= %d characters" % (5.5, 50000000, 48),
                              key=classify(fam))
            if len(ctx.samples) < 3 and grew:
                ctx.sample(case)
    ctx.note("measured_calls", measured_calls)
    ctx.evaluations += measured_calls
    worst.sort(key=lambda w: -w[0])
    ctx.note("highest_local_degrees", [[round(w[0], 2), w[1], w[2]] for w in worst[:8]])
    if not ctx.samples:
        ctx.sample({"note": "no family grew measurably", "families": len(families)})


def case_sig(fam):
    return {"t": fam["target"], "p": fam["prefix"], "u": fam.get("pump"), "b": fam.get("blocks"), "s": fam["suffix"],
            "st": fam.get("structure")}


def classify(fam):
    t = fam["target"]
    pats = ("[a-z]+([a-z0-9]*-?[a-z0-9]+)*", "([0-9]+(\\.?[0-9]+)*)")
    if t["kind"] == "pattern" and any(p in t["pattern"] for p in pats):
        return "nested-quantifier-in-release-patterns"
    if t["kind"] == "callable" and any(k in t["name"] for k in ("release_short", "release_version", "release_type", "create_release_id",
                                                                 "Release.version", "release.version", "release.type")):
        return "nested-quantifier-in-release-patterns"
    return None


def replay(ctx, case):
    """Re-measure one family (natively unless valgrind is available)."""
    if "document" in case:
        code = ("import sys,time,signal\nsys.path.insert(0,%r)\nsys.path.insert(1,%r)\nfrom rv import formats\n"
                "pms=formats.modules()\nt=time.process_time()\n"
                "signal.setitimer(signal.ITIMER_VIRTUAL, 4.0)\n"
                "try:\n formats.new_object(pms,%r).loads(%r)\nexcept Exception: pass\n" % (ctx.repo, HERE, case["format"], case["document"]))
        r = subprocess.run([sys.executable, "-c", code], stdout=subprocess.PIPE, stderr=subprocess.STDOUT)
        stalled = r.returncode == -26     # SIGVTALRM
        ctx.monitor("data-built-pattern-stall", fired=stalled)
        ctx.case_done({"doc": case["document"]})
        if stalled:
            ctx.violation("data-built-pattern-stall", "no short input can stall a caller", case, observed="load needed more than 4 CPU seconds",
                          expected="milliseconds")
        return
    fam = {"id": 0, "target": case["target"], "prefix": case.get("prefix", ""), "pump": case.get("pump") or "", "suffix": case.get("suffix", "")}
    if case.get("structure"):
        fam["structure"] = case["structure"]
    if case.get("blocks"):
        fam["blocks"] = case["blocks"]
    if "n" in case and "points" not in case:
        # a stalled call: repeat it under the kernel's CPU limit
        env0 = dict(os.environ)
        env0["PYTHONPATH"] = HERE
        env0["PYTHONHASHSEED"] = "0"
        sp0 = os.path.join(ctx.scratch, "confirm.spec.json")
        with open(sp0, "w") as f:
            json.dump({"repo": ctx.repo, "family": fam, "n": case["n"], "cpu_s": 60}, f)
        o0 = os.path.join(ctx.scratch, "confirm.out.json")
        (rc0, data0, log0), = run_children([([sys.executable, "-m", "rv.cgworker", "confirm", sp0, o0], env0, o0)], 1, 600)
        stalled = data0 is None and rc0 in (-24, -9)
        ctx.monitor("stall", fired=stalled)
        ctx.case_done(case_sig(fam))
        if stalled:
            ctx.violation("stall", "no short input (a few dozen characters) can stall a caller", case,
                          observed="still running after 60 CPU seconds", expected="microseconds")
        return
    if case.get("blocks"):
        fam["blocks"] = case["blocks"]
    scratch = ctx.scratch
    env = dict(os.environ)
    env["PYTHONPATH"] = HERE
    env["PYTHONHASHSEED"] = "0"
    cgdir = os.path.join(scratch, "cg")
    os.makedirs(cgdir, exist_ok=True)
    sp = os.path.join(scratch, "replay.spec.json")
    with open(sp, "w") as f:
        json.dump({"repo": ctx.repo, "families": [fam], "cgdir": cgdir, "cap": 100000000, "budget_s": 200}, f)
    o = os.path.join(scratch, "replay.out.json")
    argv = ["valgrind", "--tool=callgrind", "--collect-atstart=no", "--callgrind-out-file=%s/cg.%%p" % cgdir, "-q",
            sys.executable, "-m", "rv.cgworker", "measure", sp, o]
    (rc, data, log), = run_children([(argv, env, o)], 1, 400)
    if data is None:
        ctx.starved("replay child failed: %s" % log[-300:])
        return
    r = data["results"][0]
    ctx.monitor("growth-rule", fired=r["verdict"] != "ok")
    ctx.case_done(case_sig(fam))
    if r["verdict"] != "ok":
        ctx.violation("growth-rule", "executed instructions grow at most like a low-degree polynomial of the input length",
                      dict(case, points=r["points"]), observed={"verdict": r["verdict"], "detail": r.get("detail")},
                      expected="polynomial growth", key=classify(fam))
