"""C03  RPM, module and extra-file manifests survive a write/read cycle unchanged.

Oracle: the C12 reference model (rv/fmt_manifests.py) stepped alongside a
history of valid add calls gives the expected mapping; the written JSON is
read by stdlib json and its payload compared with the model (M1), the text is
reloaded and the public mapping compared again (M3, deep equality, list order
preserved for caller-ordered lists), the compose section must survive, and a
second dump must be byte-identical (M4); M5 repeats the cycle through a file.

Later additions: M8 - the object that built the manifest reads its own file back and the history continues on it
with the next sub-package of the build added last; Compose(dir).rpms / .modules as a further entry point.
"""
import json
import os

from rv import fmt_manifests as F
from rv import fmt_composeinfo as FC
from rv import fmt_images as FI
from rv.model import domains
from checks import c12

PROPERTY = "C03"
LEVEL = "exploration"
RULE = ("cases = histories of 1-40 valid add calls per manifest type (several variants/arches, source packages with "
        "binary+debug sub-packages, epochs 0/1/2/7/12, dashed/digit names, null / upper / mixed-case sigkeys, 2/3/4-part "
        "module UIDs in several categories with growing RPM lists, extra files with 1-3 checksum types); distinct by "
        "history; non-trivial when the resulting mapping has >= 2 entries")
ASSUMPTIONS = ["stdlib json is the trusted independent reader", "the reference model of C12 defines the expected mapping"]
REQUIRED_REACH = ["rpms.Rpms.serialize", "rpms.Rpms.deserialize_1_0", "modules.Modules.serialize", "modules.Modules.deserialize",
                  "extra_files.ExtraFiles.serialize", "extra_files.ExtraFiles.deserialize", "common.MetadataBase.build_file",
                  "composeinfo.Compose.serialize"]
REQUIRED_MONITORS = ["M1-text-equals-model", "M3-reload-equals-model", "M4-redump-identical", "M5-file-roundtrip", "compose-section"]
CLASS_FLOORS = {"rpms": 20, "modules": 20, "extra": 20, "rpms-several-variants": 5, "rpms-several-arches": 5,
                "rpms-epoch-nonzero": 5, "rpms-sigkey-null": 5, "rpms-sigkey-mixed-case": 5, "rpms-debug-category": 5,
                "rpms-source-category": 5, "rpms-srpm-several-subpackages": 5, "modules-uid-2": 5, "modules-uid-3": 5,
                "modules-uid-4": 5, "modules-several-categories": 5, "extra-several-checksums": 5, "single-add": 3}
PAYLOAD_KEY = {"rpms": "rpms", "modules": "modules", "extra": "extra_files"}
HEADER_TYPE = {"rpms": "productmd.rpms", "modules": "productmd.modules", "extra": "productmd.extra_files"}


def plan(tier):
    if tier == "thorough":
        return {"shards": 16, "params": {"histories": 20000, "budget_s": 1500}, "timeout_s": 3000, "ascii_locale_shards": [5, 11]}
    return {"shards": 4, "ascii_locale_shards": [3], "params": {"histories": 900, "budget_s": 300}, "timeout_s": 900}


def gen_case(rng, kind, n=None):
    n = n or rng.choice([1, 2, 3, 5, 8, 13, 21, 40])
    ops = []
    pool = [F.gen_source_package(rng, i) for i in range(rng.randint(1, 4))] if kind == "rpms" else None
    for i in range(n):
        if kind == "rpms":
            ops.append(F.gen_rpms_op(rng, pool))
        elif kind == "modules":
            op = F.gen_modules_op(rng)
            r = rng.random()
            if ops and r < 0.4:
                prev = rng.choice(ops)
                for k in ("variant", "arch", "uid"):
                    op["args"][k] = prev["args"][k]
                op["meta"]["uid_parts"] = prev["meta"]["uid_parts"]
            elif ops and r < 0.6 and isinstance(ops[-1]["args"]["rpms"], list):
                # the same module with the same RPM list filed in another variant/arch
                op["args"]["uid"], op["meta"]["uid_parts"] = ops[-1]["args"]["uid"], ops[-1]["meta"]["uid_parts"]
                op["args"]["rpms"] = list(ops[-1]["args"]["rpms"])
            ops.append(op)
        else:
            op = F.gen_extra_op(rng)
            if ops and rng.random() < 0.2:
                op = json.loads(json.dumps(rng.choice(ops)))        # exactly the same record again: it is appended again
            ops.append(op)
    if kind == "rpms" and rng.random() < 0.6:
        # the write happens in the middle of a build: the last add before it is a sub-package (repeated as it is if need be)
        withsrc = [o for o in ops if o["args"].get("srpm_nevra")]
        if withsrc and ops[-1] is not withsrc[-1]:
            ops.append(json.loads(json.dumps(withsrc[-1])))
    comp = FC.gen_compose(rng)
    if comp["id"] == "<create>":
        comp["id"] = "X-1-%s%s.%d" % (comp["date"], domains.COMPOSE_TYPE_SUFFIX[comp["type"]], comp["respin"] % 100)
    H = {"kind": kind, "ops": ops, "compose": comp}
    # a few more valid adds applied AFTER the reload (some re-address existing entries)
    more = []
    for _ in range(rng.choice([0, 1, 2, 4])):
        if kind == "rpms":
            op = F.gen_rpms_op(rng, pool)
            if not more and rng.random() < 0.7:
                # the next sub-package of the build that was added last before the write
                op = (F.sibling_rpms_op(rng, pool, ops[-1]) if ops else None) or op
        elif kind == "modules":
            op = F.gen_modules_op(rng)
            if ops and rng.random() < 0.6:
                prev = rng.choice(ops)
                for k in ("variant", "arch", "uid"):
                    op["args"][k] = prev["args"][k]
                op["meta"]["uid_parts"] = prev["meta"]["uid_parts"]
        else:
            op = F.gen_extra_op(rng)
            if ops and rng.random() < 0.6:
                prev = rng.choice(ops)
                op["args"]["variant"], op["args"]["arch"] = prev["args"]["variant"], prev["args"]["arch"]
        more.append(op)
    H["more_ops"] = more
    return H


def classes_of(H, state):
    kind = H["kind"]
    out = [kind]
    if len(H["ops"]) == 1:
        out.append("single-add")
    if kind == "rpms":
        if len(state) > 1:
            out.append("rpms-several-variants")
        if any(len(a) > 1 for a in state.values()):
            out.append("rpms-several-arches")
        for op in H["ops"]:
            a, m = op["args"], op["meta"]
            if m["nevra_parts"]["epoch"] != 0:
                out.append("rpms-epoch-nonzero")
            if a["sigkey"] is None:
                out.append("rpms-sigkey-null")
            elif a["sigkey"] != a["sigkey"].lower():
                out.append("rpms-sigkey-mixed-case")
            out.append("rpms-%s-category" % a["category"])
        for v in state.values():
            for ar in v.values():
                if any(len(r) > 2 for r in ar.values()):
                    out.append("rpms-srpm-several-subpackages")
    elif kind == "modules":
        for op in H["ops"]:
            out.append("modules-uid-%d" % (op["args"]["uid"].count(":") + 1))
        for v in state.values():
            for ar in v.values():
                if any(len(m["modulemd_path"]) > 1 for m in ar.values()):
                    out.append("modules-several-categories")
    else:
        if any(len(op["args"]["checksums"]) > 1 for op in H["ops"]):
            out.append("extra-several-checksums")
    return sorted(set(out))


def check_case(ctx, pm, H, tmpdir):
    kind = H["kind"]
    real = F.new_real(pm, kind)
    model = F.MODELS[kind]()
    F.fill_compose(real.compose, c=H["compose"])
    last_list = None
    for op in H["ops"]:
        verdict, reason = model.add(json.loads(json.dumps(op["args"])), op["meta"])
        try:
            op_run = json.loads(json.dumps(op))
            if kind == "modules" and isinstance(op_run["args"].get("rpms"), list):
                if last_list is not None and last_list == op_run["args"]["rpms"]:
                    op_run["args"]["rpms"] = last_list          # the caller re-uses its list object
                last_list = op_run["args"]["rpms"]
            F.apply_real(real, op_run)
        except Exception as e:
            # a valid add refused: C12's subject; the history is outside "built through the add operations"
            ctx.note_add("add_refused")
            ctx.note("add_refused_example", {"op": op, "error": "%s: %s" % (type(e).__name__, e)})
            return None
        if verdict != "accept":
            raise RuntimeError("generator produced an invalid op: %r (%s)" % (op, reason))
    expected = model.state()
    exp_comp = FI.expected_compose(H["compose"])
    if kind == "extra" and len(H["ops"]) % 2 == 0:
        # the per-tree exports are taken before the manifest itself is written (what a compose tool does): they are
        # read-only views, the manifest written afterwards is still the one the add calls built
        import io as _io
        for (variant, arches) in sorted(getattr(real, "extra_files", {}).items()):
            for arch, items in sorted(arches.items()):
                if items:
                    base = items[0]["file"].rsplit("/", 1)[0] if "/" in items[0]["file"] else ""
                    try:
                        real.dump_for_tree(_io.StringIO(), variant, arch, base)
                        ctx.count("extra-exported-per-tree-before-write")
                    except Exception:
                        pass
    try:
        t1 = real.dumps()
    except Exception as e:   # refused to write (any exception): outside this property, judged by C06
        ctx.note_add("write_refused")
        ctx.note("write_refused_example", {"error": "%s: %s" % (type(e).__name__, e)})
        return None
    case = H
    # M1
    try:
        parsed = json.loads(t1)
        probs = F.first_diff(expected, parsed["payload"][PAYLOAD_KEY[kind]], "payload")
        hdr = parsed["header"]
        if hdr.get("type") != HEADER_TYPE[kind] or hdr.get("version") != domains.CURRENT_VERSION:
            probs.append("header is %r" % (hdr,))
        comp = parsed["payload"]["compose"]
        for k in ("id", "type", "date", "respin"):
            if comp.get(k) != exp_comp[k]:
                probs.append("compose.%s: expected %r, found %r" % (k, exp_comp[k], comp.get(k)))
    except Exception as e:
        probs = ["text unreadable: %s: %s" % (type(e).__name__, e)]
    ctx.monitor("M1-text-equals-model", fired=bool(probs))
    if probs:
        ctx.violation("M1-text-equals-model", "the written payload is exactly the mapping implied by the add history", case,
                      observed=probs, expected="model mapping")
    # M3
    try:
        re2 = F.new_real(pm, kind)
        re2.loads(t1)
        diffs = F.first_diff(expected, F.real_state(re2, kind))
        c = re2.compose
        comp = {"id": c.id, "type": c.type, "date": c.date, "respin": c.respin, "label": c.label, "final": c.final}
    except Exception as e:
        re2 = None
        comp = None
        diffs = ["loads() of the library's own output raised %s: %s" % (type(e).__name__, e)]
    ctx.monitor("M3-reload-equals-model", fired=bool(diffs))
    if diffs:
        ctx.violation("M3-reload-equals-model", "the re-read mapping equals the mapping implied by the add history", case,
                      observed=diffs, expected="model mapping")
    if re2 is None:
        return expected
    ctx.monitor("compose-section", fired=comp != exp_comp)
    if comp != exp_comp:
        ctx.violation("compose-section", "the compose section survives the cycle", case, observed=comp, expected=exp_comp)
    # M4
    try:
        t2 = re2.dumps()
    except Exception as e:
        t2 = "raised %s: %s" % (type(e).__name__, e)
    ctx.monitor("M4-redump-identical", fired=t1 != t2)
    if t1 != t2:
        ctx.violation("M4-redump-identical", "writing the re-read manifest reproduces the file byte for byte", case,
                      observed=t2[:300] if not t2.startswith("{") else "texts differ", expected="identical text")
    # M5
    path = os.path.join(tmpdir, "manifest.json")
    try:
        real.dump(path)
        with open(path) as f:
            onfile = f.read()
        re3 = F.new_real(pm, kind)
        re3.load(path)
        problems = []
        if onfile != t1:
            problems.append("dump(path) bytes differ from dumps()")
        problems.extend(F.first_diff(expected, F.real_state(re3, kind)))
        from rv import formats as _formats
        _fmt = {"rpms": "rpms", "modules": "modules", "extra": "extra_files"}[kind]
        problems.extend(_formats.entry_point_problems(_formats.modules(), _fmt, real, t1, tmpdir))
    except Exception as e:
        problems = ["file round trip raised %s: %s" % (type(e).__name__, e)]
    finally:
        try:
            os.unlink(path)
        except OSError:
            pass
    # M6: the re-read manifest keeps behaving like the model when the history continues after the reload
    more = H.get("more_ops") or []
    if more and re2 is not None:
        model2 = F.MODELS[kind]()
        setattr(model2, {"rpms": "rpms", "modules": "modules", "extra": "extra_files"}[kind], json.loads(json.dumps(expected)))
        probs6 = []
        for op in more:
            model2.add(json.loads(json.dumps(op["args"])), op["meta"])
            try:
                F.apply_real(re2, json.loads(json.dumps(op)))
            except Exception as e:
                probs6.append("add after reload raised %s: %s" % (type(e).__name__, str(e)[:120]))
                break
        if not probs6:
            probs6 = F.first_diff(model2.state(), F.real_state(re2, kind))
            if not probs6:
                try:
                    t3 = re2.dumps()
                    re4 = F.new_real(pm, kind)
                    re4.loads(t3)
                    probs6 = F.first_diff(model2.state(), F.real_state(re4, kind))
                except Exception as e:
                    probs6 = ["second cycle raised %s: %s" % (type(e).__name__, str(e)[:120])]
        ctx.monitor("M6-history-continues-after-reload", fired=bool(probs6))
        if probs6:
            ctx.violation("M6-history-continues-after-reload", "a re-read manifest is the same mapping: further adds and a second "
                          "write/read cycle give what the reference model gives", case, observed=probs6, expected="model mapping")
    # M7: loading into an object that already holds other content gives exactly the loaded manifest
    try:
        used = F.new_real(pm, kind)
        F.fill_compose(used.compose)
        junk = {"rpms": F.gen_rpms_op, "modules": F.gen_modules_op, "extra": F.gen_extra_op}[kind]
        import random as _random
        jr = _random.Random(len(t1))
        for _ in range(3):
            F.apply_real(used, junk(jr, [F.gen_source_package(jr, 9)]) if kind == "rpms" else junk(jr))
        used.loads(t1)
        probs7 = F.first_diff(expected, F.real_state(used, kind))
        if not probs7 and used.dumps() != t1:
            probs7 = ["dumps() after the second load differs from the loaded file"]
    except Exception as e:
        probs7 = ["loading into a used object raised %s: %s" % (type(e).__name__, str(e)[:120])]
    # M8: the object that BUILT the manifest reads its own file back (a tool that checkpoints and resumes) and the history
    # continues on it
    if more:
        probs8 = []
        try:
            real.loads(t1)
            probs8 = F.first_diff(expected, F.real_state(real, kind))
            model3 = F.MODELS[kind]()
            setattr(model3, {"rpms": "rpms", "modules": "modules", "extra": "extra_files"}[kind], json.loads(json.dumps(expected)))
            if not probs8:
                for op in more:
                    model3.add(json.loads(json.dumps(op["args"])), op["meta"])
                    F.apply_real(real, json.loads(json.dumps(op)))
                probs8 = F.first_diff(model3.state(), F.real_state(real, kind))
                if not probs8:
                    re5 = F.new_real(pm, kind)
                    re5.loads(real.dumps())
                    probs8 = F.first_diff(model3.state(), F.real_state(re5, kind))
        except Exception as e:
            probs8 = ["raised %s: %s" % (type(e).__name__, str(e)[:120])]
        ctx.monitor("M8-builder-reloads-its-own-file-and-continues", fired=bool(probs8))
        if any(op["meta"].get("sibling_of_previous") for op in more):
            ctx.count("rpms-next-sub-package-of-the-same-build-after-reload")
        if probs8:
            ctx.violation("M8-builder-reloads-its-own-file-and-continues", "the object that built the manifest, after reading its own file "
                          "back, holds that mapping, and further adds and a write/read cycle give what the reference model gives", case,
                          observed=probs8, expected="model mapping")
    ctx.monitor("M7-load-replaces-content", fired=bool(probs7))
    if probs7:
        ctx.violation("M7-load-replaces-content", "a manifest is read back as exactly the mapping in the file - also into an object that held "
                      "other entries before", case, observed=probs7, expected="the file's mapping")
    ctx.monitor("M5-file-roundtrip", fired=bool(problems))
    if problems:
        ctx.violation("M5-file-roundtrip", "dump(path)/load(path) equals the string round trip", case,
                      observed=problems, expected="no difference")
    return expected


def run_shard(ctx):
    pm = c12._pm()
    n = int(ctx.params.get("histories", 100))
    rng = ctx.rng(0)
    kinds = ["rpms", "modules", "extra"]
    tmpdir = os.path.join(ctx.scratch, "c03")
    os.makedirs(tmpdir, exist_ok=True)
    for i in range(n):
        if i % 32 == 0 and ctx.out_of_time():
            ctx.note("stopped_early_at", i)
            break
        H = gen_case(rng, kinds[i % 3])
        state = check_case(ctx, pm, H, tmpdir)
        if state is not None:
            for k in classes_of(H, state):
                ctx.count(k)
        ctx.note_add("add_calls", len(H["ops"]))
        ctx.case_done(H, nontrivial=state is not None and len(H["ops"]) >= 2)
        if len(ctx.samples) < 3 and i < 3:
            ctx.sample({"kind": H["kind"], "compose": H["compose"], "ops": H["ops"][:3], "n_ops": len(H["ops"])})


def replay(ctx, case):
    pm = c12._pm()
    tmpdir = os.path.join(ctx.scratch, "c03")
    os.makedirs(tmpdir, exist_ok=True)
    check_case(ctx, pm, case, tmpdir)
    ctx.case_done(case)
