"""C16  Checksums recorded in metadata are the true digests of the right files.

Monitors
  digest-equals-independent : compute_checksum(file, alg) and Checksums.add(path,
        alg, None, root) for files of sizes straddling the 1 MiB read chunk x
        every fixed-size algorithm hashlib offers by name, against a one-shot
        hashlib digest of the bytes and, for md5/sha1/sha2/blake2b, the coreutils
        *sum binaries as a second implementation.
  add-normalises-path       : Checksums.add records under posixpath.normpath of
        the relative path ('./', '//', 'x/../', trailing '/.') and refuses
        absolute paths, changing nothing.
  reader-own-line           : [checksums] sections mixing 'type:value' entries
        with bare digests of lengths 32/40/64 and 0/8/31/33/41/63/65/128 in EVERY
        position: after loads each path maps to the (algorithm, value) on its
        own line, bare digests typed by length; a section holding a bare digest
        of unrecognised length must be rejected - so no path ever carries a
        checksum written for another.
  add-checksum-history      : Image.add_checksum sequences with equal, different,
        empty and None values: a recorded non-empty value never changes.
"""
import hashlib
import os
import posixpath
import random
import shutil
import subprocess

from rv.gen import text

PROPERTY = "C16"
LEVEL = "exploration"
RULE = ("cases = (file size, algorithm) pairs, relative-path spellings, [checksums] sections (entry kind x position) and "
        "add_checksum histories; distinct by case; a digest case is non-trivial when the file is larger than one read chunk or "
        "empty, a section when it mixes entry kinds, a history when it re-adds a recorded type")
ASSUMPTIONS = ["hashlib one-shot digests and coreutils *sum are the independent implementations",
               "XOF algorithms (shake_*) need a length argument and are outside 'standard digest' (counted as skipped)",
               "any exception counts as rejection of a section with an unrecognised bare digest"]
REQUIRED_REACH = ["treeinfo.compute_checksum", "treeinfo.Checksums.add", "treeinfo.Checksums.deserialize", "treeinfo.Checksums.serialize",
                  "images.Image.add_checksum"]
REQUIRED_MONITORS = ["digest-equals-independent", "add-normalises-path", "absolute-path-refused", "reader-own-line",
                     "unrecognised-bare-digest-rejected", "add-checksum-history"]
MIB = 1024 ** 2
SIZES = [0, 1, MIB - 1, MIB, MIB + 1, 2 * MIB, 2 * MIB + 1, 3 * MIB + 17]
COREUTILS = {"md5": "md5sum", "sha1": "sha1sum", "sha224": "sha224sum", "sha256": "sha256sum", "sha384": "sha384sum",
             "sha512": "sha512sum", "blake2b": "b2sum"}
HEX = "0123456789abcdef"
BARE_GOOD = {32: "md5", 40: "sha1", 64: "sha256"}
BARE_BAD = [0, 8, 31, 33, 41, 63, 65, 128]
CLASS_FLOORS = {"history-empty-recorded-first": 10, "size-0": 3, "size-chunk-boundary": 10, "size-multi-chunk": 10, "algorithms-distinct": 10, "coreutils-cross-checked": 5,
                "path-dot-slash": 5, "path-double-slash": 5, "path-dotdot": 5, "path-trailing-dot": 5, "path-absolute": 5,
                "section-bad-first": 5, "section-bad-middle": 5, "section-bad-last": 5, "section-all-good": 10, "section-bare-32": 5,
                "section-bare-40": 5, "section-bare-64": 5, "history-different-value": 10, "history-equal-value": 10,
                "history-empty-value": 10, "history-none-value": 10}
for _n in BARE_BAD:
    CLASS_FLOORS["section-bare-bad-%d" % _n] = 3


def plan(tier):
    if tier == "thorough":
        return {"shards": 8, "params": {"extra_files": 6, "sections": 20000, "histories": 20000, "paths": 3000, "budget_s": 1500},
                "timeout_s": 3000}
    return {"shards": 2, "params": {"extra_files": 2, "sections": 2500, "histories": 2500, "paths": 300, "budget_s": 300}, "timeout_s": 900}


ROOT_SPELLINGS = ["plain", "trailing-slash", "double-slash", "dotdot", "dot-relative", "relative"]


def _pm():
    import productmd.treeinfo as t
    import productmd.images as i
    return t, i


# ---- digests -----------------------------------------------------------------

def check_digests(ctx, pmt, rng):
    root = os.path.join(ctx.scratch, "files")
    os.makedirs(root, exist_ok=True)
    sizes = list(SIZES)
    for _ in range(int(ctx.params.get("extra_files", 2))):
        sizes.append(rng.choice([rng.randrange(2, 4096), rng.randrange(MIB - 64, MIB + 64), rng.randrange(MIB, 5 * MIB)]))
    if ctx.shard % 2 == 1:
        sizes = [s for s in sizes if s not in (0, 1)] + [4 * MIB, 4 * MIB + 1, 8 * MIB + 5]
        if ctx.tier == "thorough":
            sizes += [16 * MIB + 1, 33 * MIB + 7]
    algs = []
    skipped = []
    for name in sorted(hashlib.algorithms_available):
        try:
            h = hashlib.new(name)
            if h.digest_size == 0:
                skipped.append(name)
                continue
            h.hexdigest()
            algs.append(name)
        except Exception:
            skipped.append(name)
    ctx.note("algorithms", algs)
    ctx.note("algorithms_skipped", skipped)
    ctx.count("algorithms-distinct", len(algs) if ctx.shard == 0 else 0)
    for si, size in enumerate(sizes):
        data = random.Random("%s/%s/%s" % (ctx.seed, ctx.shard, si)).randbytes(size)
        rel = "dir%d/file-%d.bin" % (si, size)
        path = os.path.join(root, rel)
        os.makedirs(os.path.dirname(path), exist_ok=True)
        with open(path, "wb") as f:
            f.write(data)
        cls = "size-0" if size == 0 else "size-chunk-boundary" if abs(size % MIB) <= 1 or size % MIB == MIB - 1 else \
            "size-multi-chunk" if size > MIB else "size-small"
        for alg in algs:
            ctx.count(cls)
            want = hashlib.new(alg, data).hexdigest().lower()
            case = {"size": size, "algorithm": alg, "data_seed": "%s/%s/%s" % (ctx.seed, ctx.shard, si)}
            try:
                got = pmt.compute_checksum(path, alg)
            except Exception as e:
                got = "raised %s: %s" % (type(e).__name__, e)
            probs = []
            if got != want:
                probs.append("compute_checksum: %s" % got)
            # through Checksums.add with no value given; the tree root is spelled the way callers spell directories
            spell = ROOT_SPELLINGS[(si + algs.index(alg)) % len(ROOT_SPELLINGS)]
            ctx.count("root-spelled-" + spell)
            cwd = os.getcwd()
            try:
                root_sp = {"plain": root, "trailing-slash": root + "/", "double-slash": root.replace("/files", "//files") + "//",
                           "dotdot": os.path.join(root, "dir%d" % si, ".."), "dot-relative": "./files", "relative": "files"}[spell]
                if spell in ("dot-relative", "relative"):
                    os.chdir(os.path.dirname(root))
                ti = pmt.TreeInfo()
                ti.checksums.add(rel, alg, None, root_sp)
                rec = ti.checksums.checksums.get(rel)
                if rec is None or list(rec) != [alg, want] or len(ti.checksums.checksums) != 1:
                    probs.append("Checksums.add (root spelled %r) recorded %r" % (root_sp, dict(ti.checksums.checksums)))
                if (si + algs.index(alg)) % 3 == 0:
                    # the path asked for is, or passes through, a symbolic link inside the tree: the digest is that of the content
                    # found there, recorded under the path AS GIVEN (normalised textually) - the entry of the link's target is
                    # another entry and stays what it was
                    flink = "link-%d.bin" % si
                    dlink = "ldir%d" % si
                    for lk, tgt in ((flink, rel), (dlink, "dir%d" % si)):
                        if not os.path.lexists(os.path.join(root, lk)):
                            os.symlink(tgt, os.path.join(root, lk))
                    for given, stored in ((flink, flink), ("%s/file-%d.bin" % (dlink, size), "%s/file-%d.bin" % (dlink, size)),
                                          ("./%s//x/../file-%d.bin" % (dlink, size), "%s/file-%d.bin" % (dlink, size))):
                        t2 = pmt.TreeInfo()
                        t2.checksums.add(rel, "md5", "0" * 32)
                        t2.checksums.add(given, alg, None, root_sp)
                        got2 = dict((k0, list(v0)) for k0, v0 in t2.checksums.checksums.items())
                        if got2 != {rel: ["md5", "0" * 32], stored: [alg, want]}:
                            probs.append("Checksums.add(%r) through a symbolic link recorded %r" % (given, got2))
                        ctx.count("path-through-symlink")
            except Exception as e:
                probs.append("Checksums.add raised %s: %s" % (type(e).__name__, e))
            finally:
                os.chdir(cwd)
            tool = COREUTILS.get(alg)
            if tool and shutil.which(tool):
                out = subprocess.run([tool, path], stdout=subprocess.PIPE, text=True).stdout.split()
                ctx.count("coreutils-cross-checked")
                if not out or out[0].lower() != want:
                    probs.append("coreutils %s disagrees with hashlib: %s" % (tool, out[:1]))
                if out and got != out[0].lower():
                    probs.append("differs from %s: %s" % (tool, out[0]))
            ctx.monitor("digest-equals-independent", fired=bool(probs))
            if probs:
                ctx.violation("digest-equals-independent", "a computed checksum equals the standard digest of the file's full content",
                              case, observed=probs, expected=want)
            ctx.case_done(case, nontrivial=size == 0 or size > MIB - 2)
        # the same path rewritten in place with other content of the SAME size and the old mtime restored, reached through
        # another spelling of the path: the digest must be that of the content that is there NOW
        if size > 0 and si % 3 == 0:
            # one TreeInfo that recorded the OLD content first (through add, or because it was loaded from an out-of-date
            # file) and is asked to compute again after the rewrite
            # (one checksum per path: each object holds the old digest of ONE algorithm, the one it is asked for again below)
            held_by_alg, loaded_by_alg = {}, {}
            for alg in algs[:4]:
                try:
                    h = pmt.TreeInfo()
                    h.checksums.add(rel, alg, None, root)
                    held_by_alg[alg] = h
                    l = pmt.TreeInfo()
                    l.loads(TI_TEXT + "[checksums]\n%s = %s:%s\n" % (rel, alg, hashlib.new(alg, data).hexdigest()))
                    loaded_by_alg[alg] = l
                except Exception:
                    pass
            st = os.stat(path)
            data2 = bytes((b + 1) % 256 for b in data[:1024]) + data[1024:]
            with open(path, "r+b") as f:
                f.write(data2)
            os.utime(path, ns=(st.st_atime_ns, st.st_mtime_ns))
            for alg in algs[:4]:
                want2 = hashlib.new(alg, data2).hexdigest().lower()
                try:
                    ti = pmt.TreeInfo()
                    ti.checksums.add("./dir%d//file-%d.bin" % (si, size), alg, None, root)
                    got2 = list(ti.checksums.checksums.get(rel, [None, None]))[1]
                except Exception as e:
                    got2 = "raised %s" % type(e).__name__
                for label, tio in (("the object that had computed the old content", held_by_alg.get(alg)),
                                   ("an object loaded from an out-of-date file", loaded_by_alg.get(alg))):
                    if got2 == want2 and tio is not None:
                        try:
                            tio.checksums.add(rel, alg, None, root)
                            rec2 = tio.checksums.checksums.get(rel)
                            if rec2 is None or list(rec2) != [alg, want2]:
                                got2 = "%s recorded %r after computing again" % (label, rec2)
                            ctx.count("recomputed-on-an-object-holding-the-old-digest")
                        except Exception as e:
                            got2 = "%s raised %s: %s" % (label, type(e).__name__, str(e)[:80])
                bad = got2 != want2
                ctx.monitor("digest-of-current-content", fired=bad)
                ctx.count("rewritten-in-place")
                if bad:
                    ctx.violation("digest-of-current-content", "a computed checksum is the digest of the file's content at the time it is computed "
                                  "(not of what the file held when it was hashed before)", {"size": size, "algorithm": alg, "rewritten": True},
                                  observed=got2, expected=want2)
        os.unlink(path)
    ctx.sample({"digest-case": {"sizes": sizes, "algorithms": algs[:6]}})


# ---- Checksums.add path handling ---------------------------------------------------

def gen_relpath(rng):
    base = [text.word(rng, 1, 6) for _ in range(rng.randint(1, 4))]
    kind = rng.choice(["plain", "dot-slash", "double-slash", "dotdot", "trailing-dot", "mixed"])
    parts = list(base)
    if kind in ("dot-slash", "mixed"):
        parts.insert(rng.randrange(len(parts) + 1), ".")
    if kind in ("dotdot", "mixed"):
        i = rng.randrange(len(parts))
        parts[i:i] = ["x", ".."]
    p = "/".join(parts)
    if kind in ("double-slash", "mixed") and "/" in p:
        p = p.replace("/", "//", 1)
    if kind == "trailing-dot":
        p += "/."
    if kind == "dot-slash" and rng.random() < 0.5:
        p = "./" + p
    return kind, p


def check_paths(ctx, pmt, rng, n):
    for i in range(n):
        ti = pmt.TreeInfo()
        ti.checksums.add("keep/me", "sha256", "0" * 64)
        if i % 5 == 4:
            p = rng.choice(["/abs/path", "/", "//x", "/a/../b"])
            ctx.count("path-absolute")
            before = dict(ti.checksums.checksums)
            try:
                ti.checksums.add(p, "sha256", "a" * 64)
                got = "accepted"
            except ValueError:
                got = "ValueError"
            except Exception as e:
                got = "raised %s" % type(e).__name__
            bad = got != "ValueError" or dict(ti.checksums.checksums) != before
            ctx.monitor("absolute-path-refused", fired=bad)
            if bad:
                ctx.violation("absolute-path-refused", "absolute paths are refused and nothing is recorded", {"path": p},
                              observed=[got, sorted(ti.checksums.checksums)], expected="ValueError, unchanged")
            ctx.case_done({"abs": p, "i": i})
            continue
        kind, p = gen_relpath(rng)
        ctx.count({"dot-slash": "path-dot-slash", "double-slash": "path-double-slash", "dotdot": "path-dotdot",
                   "trailing-dot": "path-trailing-dot"}.get(kind, "path-" + kind))
        val = text.chars(rng, HEX, 64, 64)
        want_key = posixpath.normpath(p)
        try:
            ti.checksums.add(p, "sha256", val)
            got = dict((k, list(v)) for k, v in ti.checksums.checksums.items())
        except Exception as e:
            got = "raised %s: %s" % (type(e).__name__, e)
        want = {"keep/me": ["sha256", "0" * 64], want_key: ["sha256", val]}
        bad = got != want
        ctx.monitor("add-normalises-path", fired=bad)
        if bad:
            ctx.violation("add-normalises-path", "a checksum is recorded under the normalised relative path", {"path": p, "value": val},
                          observed=got, expected=want)
        ctx.case_done({"rel": p}, nontrivial=want_key != p)


# ---- reader -----------------------------------------------------------------------------

TI_TEXT = ("[header]\nversion = 1.2\ntype = productmd.treeinfo\n\n[release]\nname = Fedora\nshort = F\nversion = 22\n\n"
           "[tree]\narch = x86_64\nplatforms = x86_64\nbuild_timestamp = 123456\nvariants = Server\n\n"
           "[variant-Server]\nid = Server\nuid = Server\nname = Server\ntype = variant\n\n")


TI_LEGACY_TEXT = ("[general]\nfamily = Spacewalk\nversion = 2.1\nname = Spacewalk-2.1\narch = x86_64\ntimestamp = 1\nvariant = Server\n"
                  "packagedir = Packages\nrepository = .\n\n")
TYPE_NAMES = sorted(set(list(hashlib.algorithms_available) + ["SHA256", "Md5", "crc32", "whirlpool", "sha512_256", "sm3", "ripemd160",
                                                                "blake2b", "sha3_256", "gost", "x"]))
TYPE_NAMES = [t for t in TYPE_NAMES if ":" not in t and "=" not in t and t == t.strip()]
REAL_NAMES = ["images/boot.iso", "images/pxeboot/vmlinuz", "images/pxeboot/initrd.img", "LiveOS/squashfs.img", "vmlinuz", "initrd.img",
              # relative paths with an 'os' directory in them (the legacy reader cuts ABSOLUTE paths after /os/)
              "xen/os/vmlinuz", "os/vmlinuz", "a/os/b/os/initrd.img", "x86_64/os/images/boot.iso", "repodata/repomd.xml",
              # names with characters that mean something to URL / shell / ini tooling - and their decoded look-alikes
              "images/Fedora%20Live.iso", "images/Fedora Live.iso", "images/rescue%2Fdisk.img", "images/rescue/disk.img", "images/100%.img",
              "a+b.img", "a b.img", "a%2Bb.img", "images/boot.iso;1", "images/#boot.iso"]


def gen_section(rng, force=None):
    n = rng.randint(1, 6)
    names = sorted(set("%s%s.img" % (rng.choice("abcdefghij"), rng.choice(["", "/x", "0", "_1"])) for _ in range(n)))
    if rng.random() < 0.4:
        names = sorted(set(rng.sample(REAL_NAMES, min(len(REAL_NAMES), rng.randint(2, 7)))))
    entries = []
    for name in names:
        kind = rng.choice(["typed", "typed", "bare-good", "bare-good"])
        entries.append([name, kind])
    if force and force.startswith("bad-") and entries:
        pos = {"bad-first": 0, "bad-middle": len(entries) // 2, "bad-last": len(entries) - 1}[force]
        if force == "bad-middle" and len(entries) < 3:
            while len(entries) < 3:
                entries.append(["z%d.img" % len(entries), "typed"])
            entries.sort()
            pos = 1
        entries[pos][1] = "bare-bad"
    out = []
    for name, kind in entries:
        if kind == "typed":
            # the algorithm NAME is free text to the reader: whatever the file says, with whatever digest length
            t = rng.choice(["sha256", "md5", "sha1", "sha512", "sha384"] + TYPE_NAMES)
            v = text.chars(rng, HEX, 8, 128) if rng.random() < 0.5 else text.chars(rng, HEX, *([rng.choice([32, 40, 64])] * 2))
            out.append({"path": name, "kind": kind, "line": "%s:%s" % (t, v), "expect": [t, v]})
        elif kind == "bare-good":
            ln = rng.choice(sorted(BARE_GOOD))
            v = text.chars(rng, HEX, ln, ln)
            out.append({"path": name, "kind": "bare-%d" % ln, "line": v, "expect": [BARE_GOOD[ln], v]})
        else:
            ln = rng.choice(BARE_BAD)
            v = text.chars(rng, HEX, ln, ln)
            out.append({"path": name, "kind": "bare-bad-%d" % ln, "line": v, "expect": None})
    return out


def check_section(ctx, pmt, entries, legacy=None):
    if legacy is None:
        legacy = sum(len(e["path"]) for e in entries) % 3 == 0       # a third of the sections sit in a pre-productmd file
    ctx.count("section-in-legacy-file" if legacy else "section-in-current-file")
    if any("/os/" in e["path"] or e["path"].startswith("os/") for e in entries):
        ctx.count("section-path-with-os-directory")
    textin = (TI_LEGACY_TEXT if legacy else TI_TEXT) + "[checksums]\n" + "".join("%s = %s\n" % (e["path"], e["line"]) for e in entries)
    bad_positions = [i for i, e in enumerate(entries) if e["expect"] is None]
    for e in entries:
        ctx.count("section-" + (e["kind"] if e["kind"] != "typed" else "typed"))
    if bad_positions:
        i = bad_positions[0]
        ctx.count("section-bad-first" if i == 0 else "section-bad-last" if i == len(entries) - 1 else "section-bad-middle")
    else:
        ctx.count("section-all-good")
    case = {"entries": entries, "legacy": legacy}
    try:
        ti = pmt.TreeInfo()
        ti.loads(textin)
        got = dict((k, list(v)) for k, v in ti.checksums.checksums.items())
        outcome = "loaded"
    except Exception as e:
        got, outcome = None, "rejected (%s)" % type(e).__name__
    if bad_positions:
        bad = outcome == "loaded"
        ctx.monitor("unrecognised-bare-digest-rejected", fired=bad)
        if bad:
            e = entries[bad_positions[0]]
            ctx.violation("unrecognised-bare-digest-rejected", "a bare digest whose length is not 32/40/64 is rejected; no path carries a "
                          "checksum written for another", case, observed={"loaded": got.get(e["path"]), "for": e["path"]},
                          expected="an exception")
    else:
        want = dict((e["path"], e["expect"]) for e in entries)
        bad = got != want
        if not bad:
            # ... and still after writing and reading the treeinfo again
            try:
                ti2 = pmt.TreeInfo()
                ti2.loads(ti.dumps())
                got = dict((k, list(v)) for k, v in ti2.checksums.checksums.items())
            except Exception as e:
                got = "write/read cycle raised %s: %s" % (type(e).__name__, e)
            bad = got != want
        ctx.monitor("reader-own-line", fired=bad)
        if bad:
            ctx.violation("reader-own-line", "every path maps to exactly the algorithm and value given for it on its own line",
                          case, observed=got if got is not None else outcome, expected=want)
    return bool(bad_positions) or len(set(e["kind"] for e in entries)) > 1


# ---- Image.add_checksum histories ----------------------------------------------------------

SIB_ATTRS = {"path": "Live/x86_64/iso/KDE.iso", "mtime": 1, "size": 2, "volume_id": None, "type": "live", "format": "iso", "arch": "x86_64",
             "disc_number": 1, "disc_count": 1, "checksums": {}, "implant_md5": None, "bootable": True, "subvariant": "",
             "unified": False, "additional_variants": []}


def check_history(ctx, pmi, rng, script=None):
    """script: {"container": None|"legacy"|"current", "ops": [[type, value], ...]} replays a recorded history."""
    img = pmi.Image(None)
    sib = None
    container = script["container"] if script else ("none" if rng.random() < 0.5 else "legacy" if rng.random() < 0.6 else "current")
    if container in ("legacy", "current"):
        # the image lives in a manifest next to a DIFFERENT file with the same identity attributes (pre-1.1 manifests
        # have no subvariant: the KDE and the LXDE live ISO) or next to another listing with another identity
        from rv import fmt_images as FI
        im = pmi.Images()
        legacy = container == "legacy"
        if legacy:
            im.header.version = "1.0"
        img = FI.make_image(pmi, im, dict(SIB_ATTRS))
        sib = FI.make_image(pmi, im, dict(SIB_ATTRS, path="Live/x86_64/iso/LXDE.iso", subvariant="" if legacy else "LXDE",
                                          checksums={"md5": "5" * 32, "sha1": "1" * 40}))
        img.checksums = {"sha512": "0" * 128}
        same_path = not script and rng.random() < 0.4
        if script and script.get("sibling_same_path"):
            same_path = True
        if same_path:
            # the sibling is ANOTHER listing of the same file (same path, another image type: the boot image that is also the
            # netinst image), recorded with other checksum types and one other value
            sib.path = img.path
            sib.type = "netinst" if img.type != "netinst" else "boot"
            img.checksums = {"sha512": "0" * 128, "md5": "7" * 32}
            ctx.count("history-in-container-sibling-same-path")
        sib_expected = dict(sib.checksums)
        try:
            im.add("Live", "x86_64", sib)
            im.add("Live", "x86_64", img)
            ctx.count("history-in-container-legacy-lookalike" if legacy else "history-in-container")
            if dict(sib.checksums) != sib_expected or not any(o is img for o in im.images["Live"]["x86_64"]):
                ctx.monitor("add-checksum-history", fired=True)
                ctx.violation("add-checksum-history", "an image's recorded checksum is never silently replaced by a different value - "
                              "also not by filing another listing of the same path next to it",
                              {"ops": [], "container": container, "sibling_same_path": same_path},
                              observed={"sibling checksums": dict(sib.checksums), "second image filed": any(o is img for o in im.images["Live"]["x86_64"])},
                              expected={"sibling checksums": sib_expected, "second image filed": True})
                return [], False
        except Exception:
            sib = None
            img = pmi.Image(None)
    sib_before = dict(sib.checksums) if sib is not None else None
    types = ["md5", "sha1", "sha256"]
    if not script and rng.random() < 0.3:
        # algorithm names are free text to the library and hashlib takes them in any case: 'SHA256' next to 'sha256' are two
        # recorded entries, and adding one never touches the value recorded under the other
        types = types + [rng.choice(["SHA256", "Sha256", "MD5", "Sha1", "SHA1"])]
        ctx.count("history-algorithm-names-differing-in-case")
    alphabet = HEX if rng.random() < 0.6 else "0123456789ABCDEF"
    vals = dict((t, [text.chars(rng, alphabet, 8, 8) for _ in range(2)]) for t in types)
    ops = []
    for _ in range(rng.randint(3, 12)):
        t = rng.choice(types)
        v = rng.choice([vals[t][0], vals[t][0], vals[t][1], "", None, ""])
        ops.append([t, v])
    if script:
        ops = [list(o) for o in script["ops"]]
    readd = False
    for step, (t, v) in enumerate(ops):
        before = dict(img.checksums)
        had = before.get(t)
        if v and len(v) == 8 and sib is not None and not script:
            v = v * 4 if t.lower() == "md5" else v * 5 if t.lower() == "sha1" else v * 8
            ops[step][1] = v
        if t in before:
            readd = True
            if not had and v:
                ctx.count("history-empty-recorded-first")
            if had:
                ctx.count("history-different-value" if (v and v != had) else "history-equal-value" if v == had else
                          "history-empty-value" if v == "" else "history-none-value")
        try:
            ret = img.add_checksum("/root", t, v)
            got = "returned"
        except ValueError:
            got = "ValueError"
        except Exception as e:
            got = "raised %s" % type(e).__name__
        after = dict(img.checksums)
        probs = []
        for tt, vv in before.items():
            if after.get(tt) != vv or tt not in after:
                # a recorded value - also a recorded empty one - is never replaced (the library raises instead)
                probs.append("recorded %s value %r became %r (%s)" % (tt, vv, after.get(tt), got))
        if had and v and v != had and got == "returned":
            probs.append("a different value for %s was offered and no error was raised" % t)
        if got not in ("returned", "ValueError"):
            probs.append(got)
        # writing the image (or the manifest it lives in) is an observation, not an update
        rec = dict(img.checksums)
        if got == "returned" and (len(ops) + step) % 2 == 0:
            try:
                img.serialize([])
                if sib is not None:
                    im.dumps()
            except Exception:
                pass
            ctx.count("history-write-between-adds")
            if dict(img.checksums) != rec:
                probs.append("writing the image changed its recorded checksums from %r to %r" % (rec, dict(img.checksums)))
        if sib is not None and dict(sib.checksums) != sib_before:
            probs.append("the checksums of ANOTHER image of the manifest (%s) changed from %r to %r" % (sib.path, sib_before, dict(sib.checksums)))
        ctx.monitor("add-checksum-history", fired=bool(probs))
        if probs:
            ctx.violation("add-checksum-history", "an image's recorded checksum is never silently replaced by a different value",
                          {"ops": ops[:step + 1], "container": container}, observed=probs, expected="recorded non-empty values unchanged; conflict raises")
            break
    return ops, readd


def run_shard(ctx):
    pmt, pmi = _pm()
    rng = ctx.rng(0)
    check_digests(ctx, pmt, rng)
    check_paths(ctx, pmt, ctx.rng(1), int(ctx.params.get("paths", 100)))
    rng = ctx.rng(2)
    forces = [None, "bad-first", "bad-middle", "bad-last", None]
    for i in range(int(ctx.params.get("sections", 500))):
        if i % 256 == 0 and ctx.out_of_time():
            break
        entries = gen_section(rng, forces[i % len(forces)])
        nt = check_section(ctx, pmt, entries)
        ctx.case_done({"section": [[e["path"], e["line"]] for e in entries]}, nontrivial=nt)
        if i == 1:
            ctx.sample({"checksums-section": entries})
    rng = ctx.rng(3)
    for i in range(int(ctx.params.get("histories", 500))):
        if i % 256 == 0 and ctx.out_of_time():
            break
        ops, readd = check_history(ctx, pmi, rng)
        ctx.case_done({"history": ops}, nontrivial=readd)
        if i == 0:
            ctx.sample({"add_checksum-history": ops})


def replay(ctx, case):
    pmt, pmi = _pm()
    if "entries" in case:
        check_section(ctx, pmt, case["entries"], case.get("legacy"))
    elif "ops" in case:
        check_history(ctx, pmi, random.Random(0), script={"container": case.get("container", "none"), "ops": case["ops"]})
    elif "size" in case:
        root = os.path.join(ctx.scratch, "files")
        os.makedirs(root, exist_ok=True)
        data = random.Random(case["data_seed"]).randbytes(case["size"])
        path = os.path.join(root, "f.bin")
        with open(path, "wb") as f:
            f.write(data)
        want = hashlib.new(case["algorithm"], data).hexdigest()
        got = pmt.compute_checksum(path, case["algorithm"])
        ctx.monitor("digest-equals-independent", fired=got != want)
        if got != want:
            ctx.violation("digest-equals-independent", "a computed checksum equals the standard digest of the file's full content", case,
                          observed=got, expected=want)
        os.unlink(path)
    elif "path" in case:
        ti = pmt.TreeInfo()
        try:
            ti.checksums.add(case["path"], "sha256", case.get("value", "a" * 64))
            got = sorted(ti.checksums.checksums)
        except Exception as e:
            got = "raised %s" % type(e).__name__
        want = [posixpath.normpath(case["path"])] if not case["path"].startswith("/") else "raised ValueError"
        ctx.monitor("add-normalises-path", fired=got != want)
        if got != want:
            ctx.violation("add-normalises-path", "a checksum is recorded under the normalised relative path; absolute paths are refused",
                          case, observed=got, expected=want)
    ctx.case_done(case)
