"""C02  Image manifests survive a write/read cycle unchanged.

Oracle: description -> expectation (rv/fmt_images.py).  Every image of the
description is filed through Images.add in a shuffled order, the manifest is
written, the text is read by stdlib json and compared cell by cell and
attribute by attribute with the description (M1), reloaded and observed
through the public attributes (M3), re-dumped (M4) and cycled through a real
file (M5).  Image-count conservation per cell is part of M1/M3.

Later additions: M6 - the re-read manifest is edited (an image leaves a cell, checksum types dropped, volume id and
implanted md5 cleared) and written again; free-text checksum values; Compose(dir).images as a further entry point,
the file rewritten in place with equal size and modification time.
"""
import json
import os
import random

from rv import formats
from rv import fmt_images as F
from rv.model import domains

PROPERTY = "C02"
LEVEL = "exploration"
RULE = ("cases = image manifests (1-4 variants x 1-4 arches, up to 16 images, the model's own table of 33 types / 27 "
        "formats cycled so each is written every run) built via Images.add in shuffled order; distinct by description; "
        "non-trivial when the manifest has >= 2 images or a unified / shared image")
ASSUMPTIONS = ["stdlib json is the trusted independent reader", "rv/fmt_images.py transcribes doc/images-1.1.rst plus the "
               "1.2 additions (unified, additional_variants)", "descriptions respect the identity rule (C09's subject)"]
REQUIRED_REACH = ["images.Images.serialize", "images.Images.deserialize", "images.Images.add", "images.Image.serialize",
                  "images.Image.deserialize", "composeinfo.Compose.serialize", "composeinfo.Compose.deserialize_1_0"]
REQUIRED_MONITORS = ["M1-text-equals-description", "M3-reload-equals-description", "M4-redump-identical", "M5-file-roundtrip"]
FORCES = ["size-large", "volume-null", "volume-set", "implant-null", "implant-set", "checksums-several", "unified",
          "mtime-zero", "subvariant-empty", "shared-object", "many-per-cell", "identity-equal-same-checksums",
          "empty-manifest", "same-path-other-cell", "near-equal-paths", "arches-whole-table"]
CLASS_FLOORS = dict((c, 5) for c in FORCES)
CLASS_FLOORS.update(dict(("type-" + t, 3) for t in domains.IMAGE_TYPES))
CLASS_FLOORS.update(dict(("format-" + t, 3) for t in domains.IMAGE_FORMATS))
CLASS_FLOORS.update({"several-variants": 5, "several-arches": 5, "unified-additional-variants": 5})


def plan(tier):
    if tier == "thorough":
        return {"shards": 16, "params": {"cases": 30000, "budget_s": 1500}, "timeout_s": 3000, "ascii_locale_shards": [5, 11]}
    return {"shards": 4, "ascii_locale_shards": [3], "params": {"cases": 1200, "budget_s": 300}, "timeout_s": 900}


def _pm():
    import productmd.images as m
    return m


def check_case(ctx, pm, D, order_seed, tmpdir):
    rng = random.Random(order_seed)
    case = {"D": D, "order_seed": order_seed}
    try:
        im = F.build(pm, D, rng)
        t1 = im.dumps()
    except Exception as e:   # refused to write (any exception): outside this property, judged by C06
        ctx.note_add("write_refused")
        ctx.note("write_refused_example", {"error": "%s: %s" % (type(e).__name__, e), "case": case})
        return False
    exp_cells = F.expected_cells(D)
    exp_comp = F.expected_compose(D["compose"])
    try:
        probs = F.doc_problems(D, json.loads(t1))
    except Exception as e:
        probs = ["text is not JSON: %s" % e]
    ctx.monitor("M1-text-equals-description", fired=bool(probs))
    if probs:
        ctx.violation("M1-text-equals-description", "every image is written under its variant/arch with all documented attributes",
                      case, observed=probs, expected="no difference")
    try:
        im2 = pm.Images()
        # the reader is not always pristine: its (still empty) header was inspected, or it refused a truncated file before
        reader = order_seed % 4
        if reader == 1:
            im2.header.version_tuple
            ctx.count("reader-header-inspected-before-load")
        elif reader == 2:
            for junk in ("", '{"header": {"version": "0.1"}}', '{"header": {"version": "1.2", "type": "productmd.images"}}'):
                try:
                    im2.loads(junk)
                except Exception:
                    pass
            ctx.count("reader-refused-a-truncated-file-before")
        im2.loads(t1)
        cells, comp, problems = F.observe(im2)
        diffs = problems + F.diff_cells(exp_cells, cells)
        if comp != exp_comp:
            diffs.append("compose section: expected %r, observed %r" % (exp_comp, comp))
        n_exp = sum(len(c) for c in exp_cells.values())
        n_obs = sum(len(c) for c in cells.values())
        if n_exp != n_obs:
            diffs.append("image count: %d written, %d read back" % (n_exp, n_obs))
    except Exception as e:
        im2 = None
        diffs = ["loads() of the library's own output raised %s: %s" % (type(e).__name__, e)]
    ctx.monitor("M3-reload-equals-description", fired=bool(diffs))
    if diffs:
        ctx.violation("M3-reload-equals-description", "all fifteen attributes, the cell placement and the compose section are read back",
                      case, observed=diffs[:10], expected="no difference")
    if im2 is None:
        return True
    try:
        t2 = im2.dumps()
    except Exception as e:
        t2 = "raised %s: %s" % (type(e).__name__, e)
    ctx.monitor("M4-redump-identical", fired=t2 != t1)
    if t2 != t1:
        ctx.violation("M4-redump-identical", "writing the re-read manifest reproduces the file byte for byte", case,
                      observed=_first_diff(t1, t2), expected="identical text")
    path = os.path.join(tmpdir, "images.json")
    try:
        im.dump(path)
        with open(path) as f:
            onfile = f.read()
        im3 = pm.Images()
        im3.load(path)
        cells3, comp3, problems3 = F.observe(im3)
        problems = list(problems3)
        if onfile != t1:
            problems.append("dump(path) bytes differ from dumps()")
        problems.extend(F.diff_cells(exp_cells, cells3))
        from rv import formats as _formats
        problems.extend(_formats.entry_point_problems(_formats.modules(), "images", im, t1, tmpdir))
        if comp3 != exp_comp:
            problems.append("compose section differs after load(path)")
    except Exception as e:
        problems = ["file round trip raised %s: %s" % (type(e).__name__, e)]
    finally:
        try:
            os.unlink(path)
        except OSError:
            pass
    ctx.monitor("M5-file-roundtrip", fired=bool(problems))
    if problems:
        ctx.violation("M5-file-roundtrip", "dump(path)/load(path) equals the string round trip", case,
                      observed=problems[:8], expected="no difference")
    if im2 is not None:
        check_edit_after_reload(ctx, pm, D, im2, rng, case)
    return True


def check_edit_after_reload(ctx, pm, D, im2, rng, case):
    """M6: the re-read manifest is a manifest like any other: an image is taken out of a cell, attributes of another are
    changed (checksum types dropped, volume id / implanted md5 cleared), a whole variant is deleted - written again, it is
    read back as exactly that."""
    import copy
    D2 = copy.deepcopy(D)
    edits = []
    placed = [(i, c) for i, spec in enumerate(D2["images"]) for c in spec["cells"]]
    if not placed:
        return
    # (a) one image leaves one cell
    i, (v, a) = rng.choice(placed)
    spec = D2["images"][i]
    objs = [o for o in im2.images.get(v, {}).get(a, ()) if o.path == spec["attrs"]["path"] and o.checksums == spec["attrs"]["checksums"]]
    if len(objs) == 1 and len(placed) > 1:
        im2.images[v][a].discard(objs[0])
        spec["cells"].remove([v, a] if [v, a] in spec["cells"] else (v, a))
        if not im2.images[v][a]:
            del im2.images[v][a]
            if not im2.images[v]:
                del im2[v]
        edits.append("image-removed-from-cell")
    # (b) attributes of another image change in place (every cell holding the object sees it)
    rest = [(i2, c) for i2, sp in enumerate(D2["images"]) for c in sp["cells"]]
    if rest:
        i2, (v2, a2) = rng.choice(rest)
        sp = D2["images"][i2]
        same = [o for o in im2.images.get(v2, {}).get(a2, ()) if o.path == sp["attrs"]["path"] and o.checksums == sp["attrs"]["checksums"]]
        clones = [sp3 for sp3 in D2["images"] if sp3 is not sp and sp3["attrs"]["path"] == sp["attrs"]["path"]]
        # after a reload every listing is an object of its own: the edit is made on each listing of this image
        listings = []
        for (v3, a3) in sp["cells"]:
            listings.append([o for o in im2.images.get(v3, {}).get(a3, ()) if o.path == sp["attrs"]["path"] and o.checksums == sp["attrs"]["checksums"]])
        if all(len(l) == 1 for l in listings) and not clones and \
                not any(sp4 is not sp and F.model_identity(sp4["attrs"]) == F.model_identity(sp["attrs"]) for sp4 in D2["images"]):
            drop = sorted(sp["attrs"]["checksums"])[0] if len(sp["attrs"]["checksums"]) > 1 else None
            if drop is not None:
                del sp["attrs"]["checksums"][drop]
                edits.append("checksum-type-dropped")
            sp["attrs"]["volume_id"] = None
            sp["attrs"]["implant_md5"] = None
            sp["attrs"]["mtime"] = sp["attrs"]["mtime"] + 1
            for o in set(l[0] for l in listings):
                if drop is not None:
                    del o.checksums[drop]
                o.volume_id = None
                o.implant_md5 = None
                o.mtime = sp["attrs"]["mtime"]
            edits.append("attributes-cleared")
    D2["images"] = [sp for sp in D2["images"] if sp["cells"]]
    if not edits:
        return
    for e in edits:
        ctx.count("edit-after-reload-" + e)
    case6 = dict(case, edited_after_reload=edits, D_after_edit=D2)
    try:
        t3 = im2.dumps()
        im4 = pm.Images()
        im4.loads(t3)
        cells, comp, problems = F.observe(im4)
        probs = problems + F.diff_cells(F.expected_cells(D2), cells)
        if not probs:
            D3 = dict(D2, refused_add=False)
            t_fresh = F.build(pm, D3, None).dumps()
            if t_fresh != t3:
                probs = ["the edited re-read manifest and a freshly built manifest with the same content write different text",
                         _first_diff(t_fresh, t3)]
    except Exception as e:
        probs = ["raised %s: %s" % (type(e).__name__, str(e)[:200])]
    ctx.monitor("M6-edited-after-reload", fired=bool(probs))
    if probs:
        ctx.violation("M6-edited-after-reload", "a re-read manifest that is edited and written again is read back as the edited manifest",
                      case6, observed=probs[:8], expected="no difference")


def _first_diff(a, b):
    if not isinstance(b, str):
        return repr(b)
    n = min(len(a), len(b))
    i = 0
    while i < n and a[i] == b[i]:
        i += 1
    return {"at": i, "first": a[max(0, i - 60):i + 60], "second": b[max(0, i - 60):i + 60]}


def run_shard(ctx):
    pm = _pm()
    n = int(ctx.params.get("cases", 500))
    rng = ctx.rng(0)
    tmpdir = os.path.join(ctx.scratch, "c02")
    os.makedirs(tmpdir, exist_ok=True)
    for i in range(n):
        if i % 64 == 0 and ctx.out_of_time():
            ctx.note("stopped_early_at", i)
            break
        force = FORCES[(i // 2) % len(FORCES)] if i % 2 == 0 else None
        D = F.gen_description(rng, force, type_cycle=i * 7 if i % 3 == 0 else None)
        if force is None and rng.random() < 0.1:
            formats.equalise("images", D, rng)
            ctx.count("fields-made-equal")
        order_seed = rng.randrange(1 << 30)
        written = check_case(ctx, pm, D, order_seed, tmpdir)
        if written:
            for k in F.classes_of(D):
                ctx.count(k)
        nontriv = written and (len(D["images"]) >= 2 or any(im["attrs"]["unified"] or len(im["cells"]) > 1 for im in D["images"]))
        ctx.case_done(D, nontrivial=nontriv)
        if written and len(ctx.samples) < 2 and i >= 3 and len(D["images"]) <= 3:
            ctx.sample({"D": D})


def replay(ctx, case):
    pm = _pm()
    tmpdir = os.path.join(ctx.scratch, "c02")
    os.makedirs(tmpdir, exist_ok=True)
    check_case(ctx, pm, case["D"], case.get("order_seed", 0), tmpdir)
    ctx.case_done(case["D"])
