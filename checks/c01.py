"""C01  Composeinfo survives a write/read cycle unchanged.

Oracle: description -> expectation.  A plain-data description D is turned into
library objects through the public API (shuffled construction order); the
reference model (rv/fmt_composeinfo.py, written from doc/composeinfo-*.rst and
the attribute docstrings) says what the written JSON must contain and what a
reader must observe, with the documented normalisations applied explicitly.
A field that writer and reader drop symmetrically shows up twice: it is
missing in the parsed text (M1) and the re-read attribute differs from D (M3).

Later additions: M6 - the re-read object is edited (path entries / leaf children / the label removed, values set)
and written again: read back as the edited description and byte-identical to a freshly built object of that content;
a write attempted before the compose id was assigned; Compose(dir).info as a further entry point.
"""
import json
import os

from rv import formats
from rv import fmt_composeinfo as F
from rv.model import domains

PROPERTY = "C01"
LEVEL = "exploration"
RULE = ("cases = compose descriptions (release, optional base product, compose section, variant forest <= 8 nodes / "
        "depth 3 with path tables) generated with stratified class forcing and built through the public API in a "
        "shuffled order; distinct by description; non-trivial when the forest has a child variant, a path table, a "
        "label, a base product or a non-ga release type")
ASSUMPTIONS = ["stdlib json is the trusted independent reader of the written text",
               "rv/fmt_composeinfo.py transcribes doc/composeinfo-1.1.rst and the documented normalisations",
               "descriptions the library refuses to write are outside C01 (counted here, judged by C06's converse)"]
REQUIRED_REACH = ["composeinfo.ComposeInfo.serialize", "composeinfo.ComposeInfo.deserialize",
                  "composeinfo.Compose.serialize", "composeinfo.Compose.deserialize_1_0",
                  "composeinfo.Release.serialize", "composeinfo.Release.deserialize_1_0",
                  "composeinfo.BaseProduct.serialize", "composeinfo.BaseProduct.deserialize",
                  "composeinfo.Variants.serialize", "composeinfo.Variants.deserialize",
                  "composeinfo.Variant.serialize", "composeinfo.Variant.deserialize",
                  "composeinfo.VariantPaths.serialize", "composeinfo.VariantPaths.deserialize",
                  "common.MetadataBase.dump", "common.MetadataBase.load", "common.MetadataBase.build_file"]
REQUIRED_MONITORS = ["M1-text-has-every-documented-field", "M3-reload-equals-description", "M4-redump-identical",
                     "M5-file-roundtrip", "structure-parent-mirrors-children"]
CLASSES = (["rtype-" + t for t in domains.RELEASE_TYPES] + ["ctype-" + t for t in domains.COMPOSE_TYPES] +
           ["label-" + n for n in domains.LABEL_NAMES] + ["label-none"] +
           ["layered", "not-layered", "internal", "bp-set-not-layered", "version-freeform", "version-dotted",
            "final-true", "final-without-label", "id-created", "depth-3", "all-variant-types", "layered-product-variant",
            "dashed-top-uid", "dashed-top-prefix-of-sibling", "paths-full", "paths-dropped", "no-variants", "many-variants", "dashed-top-with-children"])
CLASS_FLOORS = dict((c, 5) for c in CLASSES)
CLASS_FLOORS["process-encoding-ansi_x3.4-1968"] = 1
CLASS_FLOORS.update({"child-arch-strict-subset": 5, "vtype-addon": 5, "vtype-optional": 5, "vtype-variant": 5})


def plan(tier):
    if tier == "thorough":
        return {"shards": 16, "params": {"cases": 25000, "budget_s": 1500}, "timeout_s": 3000, "ascii_locale_shards": [5, 11]}
    return {"shards": 4, "ascii_locale_shards": [3], "params": {"cases": 1000, "budget_s": 300}, "timeout_s": 900}


def _pm():
    import productmd.composeinfo as m
    return m


def check_case(ctx, pm, D, order_seed, tmpdir):
    import random
    rng = random.Random(order_seed)
    try:
        ci = F.build(pm, D, rng)
    except Exception as e:
        # construction through add() refused a description the model deems valid: C11/C06 territory
        ctx.note_add("build_refused")
        ctx.note("build_refused_example", {"D": D, "error": "%s: %s" % (type(e).__name__, e)})
        return False
    cid = ci.compose.id          # what the caller assigned - read BEFORE anything is written
    if order_seed % 5 == 0:
        # the caller tried to write the object BEFORE it had given the compose an id (refused, or not), then assigned the id
        keep = ci.compose.id
        ci.compose.id = None
        try:
            ci.dumps()
        except Exception:
            pass
        ci.compose.id = keep
        ctx.count("write-attempted-before-the-id-was-assigned")
    try:
        t1 = ci.dumps()
    except Exception as e:   # refused to write (any exception): outside this property, judged by C06
        ctx.note_add("write_refused")
        ctx.note("write_refused_example", {"error": "%s: %s" % (type(e).__name__, e), "compose_id": D["compose"]["id"]})
        return False
    case = {"D": D, "order_seed": order_seed}
    E_obs = F.expected_obs(D, cid)
    E_doc = F.expected_doc(D, cid)
    # M1: independent reader of the text
    try:
        parsed = json.loads(t1)
        diffs = F.doc_contains(E_doc, parsed)
    except Exception as e:
        diffs = ["text is not JSON: %s" % e]
    ctx.monitor("M1-text-has-every-documented-field", fired=bool(diffs))
    if diffs:
        ctx.violation("M1-text-has-every-documented-field", "written JSON holds every documented field, edge and path of D",
                      case, observed=diffs[:10], expected="all present")
    # M3: reload and observe
    try:
        ci2 = pm.ComposeInfo()
        # the reader is not always pristine: its (still empty) header was inspected, or it refused a truncated file before
        reader = order_seed % 4
        if reader == 1:
            ci2.header.version_tuple
            ctx.count("reader-header-inspected-before-load")
        elif reader == 2:
            for junk in ("", '{"header": {"version": "0.1"}}', '{"header": {"version": "1.2", "type": "productmd.composeinfo"}}'):
                try:
                    ci2.loads(junk)
                except Exception:
                    pass
            ctx.count("reader-refused-a-truncated-file-before")
        ci2.loads(t1)
        obs, structural = F.observe(ci2)
        diffs = F.diff(E_obs, obs)
    except Exception as e:
        ci2 = None
        diffs = ["loads() of the library's own output raised %s: %s" % (type(e).__name__, e)]
        structural = []
    ctx.monitor("M3-reload-equals-description", fired=bool(diffs))
    if diffs:
        ctx.violation("M3-reload-equals-description", "every documented field, the forest structure and all paths are read back",
                      case, observed=diffs, expected="no difference")
    ctx.monitor("structure-parent-mirrors-children", fired=bool(structural))
    if structural:
        ctx.violation("structure-parent-mirrors-children", "after reload parent pointers and child tables mirror each other",
                      case, observed=structural[:6], expected="consistent forest")
    if ci2 is None:
        return True
    # M4: second dump byte-identical
    try:
        t2 = ci2.dumps()
    except Exception as e:
        t2 = "raised %s: %s" % (type(e).__name__, e)
    ctx.monitor("M4-redump-identical", fired=t2 != t1)
    if t2 != t1:
        ctx.violation("M4-redump-identical", "writing the re-read object reproduces the file byte for byte", case,
                      observed=_first_diff(t1, t2), expected="identical text")
    # M5: through a real file
    path = os.path.join(tmpdir, "composeinfo.json")
    try:
        ci.dump(path)
        with open(path, "r") as f:
            onfile = f.read()
        ci3 = pm.ComposeInfo()
        ci3.load(path)
        obs3, _ = F.observe(ci3)
        problems = []
        if onfile != t1:
            problems.append("dump(path) bytes differ from dumps(): %s" % _first_diff(t1, onfile))
        problems.extend(F.diff(E_obs, obs3))
        from rv import formats as _formats
        problems.extend(_formats.entry_point_problems(_formats.modules(), "composeinfo", ci, t1, tmpdir))
        left = sorted(os.listdir(tmpdir))
        if left != ["composeinfo.json"]:
            problems.append("stray files next to the destination: %r" % left)
    except Exception as e:
        problems = ["file round trip raised %s: %s" % (type(e).__name__, e)]
    finally:
        try:
            os.unlink(path)
        except OSError:
            pass
    ctx.monitor("M5-file-roundtrip", fired=bool(problems))
    if problems:
        ctx.violation("M5-file-roundtrip", "dump(path)/load(path) equals the string round trip", case,
                      observed=problems[:8], expected="no difference")
    check_edit_after_reload(ctx, pm, D, ci2, cid, rng, case)
    return True


def _find(ci, uid):
    todo = list(ci.variants.variants.values())
    while todo:
        v = todo.pop()
        if v.uid == uid:
            return v
        todo.extend(v.variants.values())
    return None


def check_edit_after_reload(ctx, pm, D, ci2, cid, rng, case):
    """M6: the re-read object is a compose description like any other: edited (entries REMOVED, values changed) and written
    again, it is read back as the edited description - nothing of the file it came from survives in it."""
    import copy
    D2 = copy.deepcopy(D)
    edits = []
    nodes = list(F.iter_nodes(D2["variants"]))
    with_paths = [v for v in nodes if any(v["paths"].values())]
    if with_paths:
        v = rng.choice(with_paths)
        cat = rng.choice(sorted(c for c, t in v["paths"].items() if t))
        arch = rng.choice(sorted(v["paths"][cat]))
        obj = _find(ci2, v["uid"])
        if obj is not None and arch in getattr(obj.paths, cat):
            del v["paths"][cat][arch]
            del getattr(obj.paths, cat)[arch]
            edits.append("path-entry-removed")
            if not v["paths"][cat]:
                edits.append("path-category-emptied")
    parents = [v for v in nodes if v["children"] and any(not c["children"] for c in v["children"])]
    if parents and rng.random() < 0.7:
        par = rng.choice(parents)
        child = rng.choice([c for c in par["children"] if not c["children"]])
        obj = _find(ci2, par["uid"])
        if obj is not None and child["id"] in obj.variants:
            par["children"].remove(child)
            del obj[child["id"]]
            edits.append("leaf-child-removed")
            if not par["children"]:
                edits.append("only-child-removed")
    if rng.random() < 0.5:
        v = rng.choice(nodes) if nodes else None
        if v is not None and v["arches"]:
            a = sorted(v["arches"])[0]
            v["paths"].setdefault("os_tree", {})[a] = "edited/%s/os" % a
            obj = _find(ci2, v["uid"])
            if obj is not None:
                obj.paths.os_tree[a] = "edited/%s/os" % a
                edits.append("path-entry-set")
    if D2["compose"]["label"] is not None and rng.random() < 0.5:
        D2["compose"]["label"] = None
        D2["compose"]["final"] = False
        ci2.compose.label = None
        ci2.compose.final = False
        edits.append("label-removed")
    D2["compose"]["respin"] = (D2["compose"]["respin"] + 1) % 100
    ci2.compose.respin = D2["compose"]["respin"]
    if not edits:
        return
    for e in edits:
        ctx.count("edit-after-reload-" + e)
    case6 = dict(case, edited_after_reload=edits, D_after_edit=D2)
    probs = []
    try:
        t3 = ci2.dumps()
        ci4 = pm.ComposeInfo()
        ci4.loads(t3)
        obs4, _s = F.observe(ci4)
        probs = F.diff(F.expected_obs(D2, cid), obs4)
        if not probs:
            fresh = F.build(pm, D2, None)
            fresh.compose.id = cid
            t_fresh = fresh.dumps()
            if t_fresh != t3:
                probs = ["the edited re-read object and a freshly built object with the same content write different text", _first_diff(t_fresh, t3)]
    except Exception as e:
        probs = ["raised %s: %s" % (type(e).__name__, str(e)[:200])]
    ctx.monitor("M6-edited-after-reload", fired=bool(probs))
    if probs:
        ctx.violation("M6-edited-after-reload", "a re-read description that is edited and written again is read back as the edited "
                      "description (removed paths and children stay removed)", case6, observed=probs[:8], expected="no difference")


def _first_diff(a, b):
    if not isinstance(b, str):
        return repr(b)
    n = min(len(a), len(b))
    i = 0
    while i < n and a[i] == b[i]:
        i += 1
    return {"at": i, "first": a[max(0, i - 40):i + 40], "second": b[max(0, i - 40):i + 40], "len": [len(a), len(b)]}


def nontrivial(D):
    nodes = list(F.iter_nodes(D["variants"]))
    return (any(v["children"] for v in nodes) or any(v["paths"] for v in nodes) or D["compose"]["label"] is not None or
            D["base_product"] is not None or D["release"]["type"] != "ga")


def run_shard(ctx):
    pm = _pm()
    n = int(ctx.params.get("cases", 500))
    rng = ctx.rng(0)
    tmpdir = os.path.join(ctx.scratch, "c01")
    os.makedirs(tmpdir, exist_ok=True)
    for i in range(n):
        if i % 64 == 0 and ctx.out_of_time():
            ctx.note("stopped_early_at", i)
            break
        force = CLASSES[(i // 2) % len(CLASSES)] if i % 2 == 0 else None
        D = F.gen_description(rng, force)
        if force is None and rng.random() < 0.1:
            formats.equalise("composeinfo", D, rng)
            ctx.count("fields-made-equal")
        order_seed = rng.randrange(1 << 30)
        written = check_case(ctx, pm, D, order_seed, tmpdir)
        if written:
            for k in F.classes_of(D):
                ctx.count(k)
        ctx.case_done(D, nontrivial=written and nontrivial(D))
        if written and len(ctx.samples) < 2 and i >= 4:
            ctx.sample({"D": D})


def replay(ctx, case):
    pm = _pm()
    tmpdir = os.path.join(ctx.scratch, "c01")
    os.makedirs(tmpdir, exist_ok=True)
    check_case(ctx, pm, case["D"], case.get("order_seed", 0), tmpdir)
    ctx.case_done(case["D"])
