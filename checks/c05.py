"""C05  Older format versions are upgraded faithfully and idempotently.

Workload (i): down-converters (rv/downconvert.py) render valid content of the
C01-C04 generators as documents of every supported older version - composeinfo
0.0/0.2/0.3/1.0/1.1, images 1.0/1.1, rpms 0.3/1.0/1.1, treeinfo 0.0/0.3/1.0/1.1
- implementing exactly the mapping the property names.  (ii) every fixture
shipped under tests/treeinfo, tests/images, tests/compose*/, tests/discinfo.

Oracle per accepted document: (a) the converted object shows the facts of the
SOURCE description under the named mapping (for fixtures: facts an independent
reader takes from the file itself); (b) header.version after load is the
current version and the written header is (current version, proper type);
(c) re-loading the written file gives an identical observation; (d) a second
dump is byte-identical - conversion happens exactly once.  A document the
library rejects is outside the claim and counted per version; a version with
zero accepted documents makes the run inconclusive.
"""
import glob
import json
import os
import random

from rv import downconvert as DV
from rv import formats
from rv import fmt_composeinfo as FC
from rv import fmt_images as FI
from rv import fmt_manifests as FM
from rv import fmt_treeinfo as FT
from rv.model import domains

PROPERTY = "C05"
LEVEL = "exploration"
RULE = ("cases = (format, old version, down-converted description) and shipped fixtures; distinct by document; a generated "
        "case is non-trivial when the old version lacks something the content uses (child variants, layered product, src "
        "entries, non-default types, legacy section names); every fixture counts as non-trivial")
ASSUMPTIONS = ["rv/downconvert.py implements the mapping named in the property (no older-format specification ships with the "
               "repository beyond doc/*-1.0.rst / *-1.1.rst)",
               "documents the library rejects are outside the claim (counted per version)",
               "treeinfo 0.0 documents are restricted to names/versions on which the legacy reader applies none of its "
               "product-specific hacks"]
REQUIRED_REACH = ["composeinfo.Compose.deserialize_0_3", "composeinfo.Release.deserialize_0_3", "composeinfo.Variants.deserialize",
                  "images.Images._add_1_1", "rpms.Rpms.deserialize_0_3", "treeinfo.Release.deserialize_0_0",
                  "treeinfo.Release.deserialize_0_3", "treeinfo.Tree.deserialize_0_0", "treeinfo.Variants.deserialize_0_0",
                  "treeinfo.Variant.deserialize_0_0", "treeinfo.Variant.deserialize_0_3", "treeinfo.VariantPaths.deserialize_0_0",
                  "treeinfo.VariantPaths.deserialize_0_3", "treeinfo.Media.deserialize_0_0", "common.Header.set_current_version"]
REQUIRED_MONITORS = ["facts-preserved", "current-version-after-load", "written-header-current", "reload-identical", "second-dump-identical",
                     "fixture-facts"]
CLASS_FLOORS = {}
for _v in DV.COMPOSEINFO_VERSIONS:
    CLASS_FLOORS["accepted-composeinfo-" + _v] = 5
for _v in DV.IMAGES_VERSIONS:
    CLASS_FLOORS["accepted-images-" + _v] = 5
for _v in DV.RPMS_VERSIONS:
    CLASS_FLOORS["accepted-rpms-" + _v] = 5
for _v in DV.TREEINFO_VERSIONS:
    CLASS_FLOORS["accepted-treeinfo-" + _v] = 5
CLASS_FLOORS.update({"fixtures-treeinfo": 60, "fixtures-discinfo": 50, "fixtures-images": 3, "fixtures-composeinfo": 2,
                     "legacy-prefix-children": 5, "legacy-product-section": 5, "images-src-moved": 5, "rpms-0.3-src": 5,
                     "treeinfo-0.3-src-tree": 3, "treeinfo-0.0-legacy-image-section": 3, "treeinfo-0.0-blank-packagedir-with-repository": 3, "treeinfo-0.0-addons-in-id-named-sections": 10, "treeinfo-0.0-known-product-family": 10, "upgraded-in-place": 50})


def plan(tier):
    if tier == "thorough":
        return {"shards": 16, "params": {"per_version": 1500, "fixtures": True, "budget_s": 2000}, "timeout_s": 3600}
    return {"shards": 4, "params": {"per_version": 70, "fixtures": True, "budget_s": 300}, "timeout_s": 900}


def header_of(fmt, textout):
    if fmt == "treeinfo":
        sections, _ = FT.read_ini(textout)
        h = sections.get("header", {})
        return h.get("version"), h.get("type")
    h = json.loads(textout).get("header", {})
    return h.get("version"), h.get("type")


def observe(fmt, obj):
    if fmt == "composeinfo":
        return FC.observe(obj)[0]
    if fmt == "images":
        cells, comp, problems = FI.observe(obj)
        return {"cells": dict(("%s/%s" % k, v) for k, v in cells.items() if v), "compose": comp, "problems": problems}
    if fmt == "rpms":
        c = obj.compose
        return {"rpms": FM.real_state(obj, "rpms"), "compose": {"id": c.id, "type": c.type, "date": c.date, "respin": c.respin,
                                                                 "label": c.label, "final": c.final}}
    if fmt == "treeinfo":
        return FT.observe(obj)[0]
    if fmt == "discinfo":
        return FT.observe_discinfo(obj)
    raise KeyError(fmt)


def diff(a, b, path=""):
    out = []
    if isinstance(a, dict) and isinstance(b, dict):
        for k in sorted(set(a) | set(b), key=str):
            if k not in b:
                out.append("%s/%s: missing" % (path, k))
            elif k not in a:
                out.append("%s/%s: unexpected %r" % (path, k, b[k]))
            else:
                out.extend(diff(a[k], b[k], "%s/%s" % (path, k)))
            if len(out) > 8:
                break
    elif isinstance(a, list) and isinstance(b, list):
        if len(a) != len(b):
            out.append("%s: %d entries expected, %d observed" % (path, len(a), len(b)))
        for i, (x, y) in enumerate(zip(a, b)):
            out.extend(diff(x, y, "%s[%d]" % (path, i)))
    elif isinstance(a, str) and a == DV.NOT_JUDGED:
        pass
    elif a != b or (type(a) is not type(b) and not (isinstance(a, (int, float)) and isinstance(b, (int, float)))):
        out.append("%s: expected %r, observed %r" % (path, a, b))
    return out[:8]


def upgrade_cycle(ctx, pms, fmt, textin, expected, case, version, key=None):
    """Loads the old document and runs monitors (a)-(d).  Returns True when the document was accepted."""
    if fmt in ("composeinfo", "images", "rpms") and "fixture" not in case and len(textin) % 2 == 0:
        # key order in a JSON file is arbitrary: half of the generated documents get a shuffled order
        textin = json.dumps(formats.shuffle_keys(json.loads(textin), random.Random(len(textin))), indent=1)
        case = dict(case, document=textin)
    try:
        obj = formats.new_object(pms, fmt)
        obj.loads(textin)
    except Exception as e:
        ctx.count("rejected-%s-%s" % (fmt, version))
        ctx.note("rejected_example_%s_%s" % (fmt, version), "%s: %s" % (type(e).__name__, str(e)[:200]))
        return False
    ctx.count("accepted-%s-%s" % (fmt, version))
    obs = observe(fmt, obj)
    if expected is not None:
        diffs = diff(expected, obs)
        ctx.monitor("facts-preserved", fired=bool(diffs))
        if diffs:
            ctx.violation("facts-preserved", "the converted object carries the same facts as the old document under the documented mapping",
                          case, observed=diffs, expected="no difference", key=key)
    if fmt != "discinfo":
        cur = obj.header.version
        ctx.monitor("current-version-after-load", fired=cur != domains.CURRENT_VERSION)
        if cur != domains.CURRENT_VERSION:
            ctx.violation("current-version-after-load", "after loading an older document the object is at the current format version",
                          case, observed=cur, expected=domains.CURRENT_VERSION)
    try:
        t1 = obj.dumps()
    except Exception as e:
        ctx.monitor("written-header-current", fired=True)
        ctx.violation("written-header-current", "an accepted older document is always written back as a current-version file", case,
                      observed="dumps() raised %s: %s" % (type(e).__name__, str(e)[:200]), expected="a current-version file", key=key)
        return True
    if fmt != "discinfo":
        hv, ht = header_of(fmt, t1)
        bad = (hv, ht) != (domains.CURRENT_VERSION, formats.HEADER_TYPE[fmt])
        ctx.monitor("written-header-current", fired=bad)
        if bad:
            ctx.violation("written-header-current", "the written header carries the current version and the proper type", case,
                          observed=[hv, ht], expected=[domains.CURRENT_VERSION, formats.HEADER_TYPE[fmt]])
    if fmt != "discinfo" and len(textin) % 3 == 0:
        # the upgrade a migration script does: load(PATH), dump(PATH) on the same path - afterwards the FILE is the
        # current-version text
        ipath = os.path.join(ctx.scratch, "c05-in-place")
        try:
            with open(ipath, "w", encoding="utf-8") as f:
                f.write(textin)
            o3 = formats.new_object(pms, fmt)
            o3.load(ipath)
            o3.dump(ipath)
            with open(ipath, encoding="utf-8") as f:
                onfile = f.read()
            bad = onfile != t1
            what = "the file still holds %s" % ("the old document" if onfile == textin else "something else") if bad else None
        except Exception as e:
            bad, what = True, "raised %s: %s" % (type(e).__name__, str(e)[:150])
        finally:
            try:
                os.unlink(ipath)
            except OSError:
                pass
        ctx.count("upgraded-in-place")
        ctx.monitor("written-header-current", fired=bad)
        if bad:
            ctx.violation("written-header-current", "an accepted older document is always written back as a current-version file - also "
                          "when it is written over the file it was read from", case, observed=what, expected="the current-version text")
    if fmt == "rpms":
        # the RPM manifest readers replace the object's content (both the current and the 0.3 one): a manifest loaded
        # into an object that was used for another compose before is the same conversion
        used = getattr(ctx, "_c05_used_rpms", None)
        if used is not None:
            try:
                used.loads(textin)
                t_used = used.dumps()
            except Exception as e:
                t_used = "raised %s: %s" % (type(e).__name__, str(e)[:120])
            bad = t_used != t1
            ctx.monitor("conversion-independent-of-object-history", fired=bad)
            if bad:
                i = 0
                while i < min(len(t1), len(t_used)) and t1[i] == t_used[i]:
                    i += 1
                ctx.violation("conversion-independent-of-object-history", "the converted object carries the facts of the document that was "
                              "loaded - not also those of a manifest the same object held before", case,
                              observed=t_used[max(0, i - 80):i + 80], expected=t1[max(0, i - 80):i + 80], key=key)
        ctx._c05_used_rpms = obj
    try:
        obj2 = formats.new_object(pms, fmt)
        obj2.loads(t1)
        obs2 = observe(fmt, obj2)
        diffs = diff(obs, obs2)
    except Exception as e:
        obj2 = None
        diffs = ["re-loading the written file raised %s: %s" % (type(e).__name__, str(e)[:200])]
    ctx.monitor("reload-identical", fired=bool(diffs))
    if diffs:
        ctx.violation("reload-identical", "re-loading the written file gives an identical object", case, observed=diffs,
                      expected="no difference", key=key)
    if obj2 is not None:
        try:
            t2 = obj2.dumps()
        except Exception as e:
            t2 = "raised %s: %s" % (type(e).__name__, e)
        ctx.monitor("second-dump-identical", fired=t1 != t2)
        if t1 != t2:
            i = 0
            while i < min(len(t1), len(t2)) and t1[i] == t2[i]:
                i += 1
            ctx.violation("second-dump-identical", "a second write is byte-identical: conversion happens exactly once", case,
                          observed=t2[max(0, i - 60):i + 60], expected=t1[max(0, i - 60):i + 60], key=key)
    return True


# ---- generated documents ---------------------------------------------------------------

def gen_cases(ctx, pms, rng, per_version):
    for i in range(per_version):
        if ctx.out_of_time():
            ctx.note("stopped_early_at", i)
            return
        # composeinfo
        for version in DV.COMPOSEINFO_VERSIONS:
            force = ["depth-3", "layered", "layered-product-variant", "all-variant-types", "dashed-top-prefix-of-sibling", "many-variants", "dashed-top-with-children", None][i % 8]
            D = FC.gen_description(rng, force, hostile=False)
            if force is None and rng.random() < 0.3:
                formats.equalise("composeinfo", D, rng)
            textin, E = DV.composeinfo(D, version, rng)
            case = {"fmt": "composeinfo", "version": version, "document": textin}
            if DV.vt(version) < (1, 0) and any(n["parent"] for n in iter_obs_nodes(E["variants"])):
                ctx.count("legacy-prefix-children")
            if DV.vt(version) <= (0, 3):
                ctx.count("legacy-product-section")
            acc = upgrade_cycle(ctx, pms, "composeinfo", textin, E, case, version)
            ctx.case_done(case, nontrivial=acc and (DV.vt(version) < (1, 1) or bool(E["variants"])))
            if i == 0 and version == "0.3":
                ctx.sample({"fmt": "composeinfo", "version": version, "document": json.loads(textin)})
        # images
        for version in DV.IMAGES_VERSIONS:
            collide = (i % 10 == 9) and version == "1.0"
            textin, cells, meta = DV.images(rng, version, collide=collide)
            E = {"cells": dict(("%s/%s" % k, v) for k, v in cells.items() if v), "compose": meta["compose"], "problems": []}
            case = {"fmt": "images", "version": version, "document": textin}
            if meta["src"]:
                ctx.count("images-src-moved")
            key = "pre-1.1-identity-collision-carried-over" if meta["collide"] else None
            acc = upgrade_cycle(ctx, pms, "images", textin, E, case, version, key=key)
            ctx.case_done(case, nontrivial=acc and (meta["src"] or version == "1.0"))
        # rpms
        for version in DV.RPMS_VERSIONS:
            H = formats.gen_manifest(rng, "rpms", n=rng.choice([2, 4, 8, 16]))
            textin, mapping = DV.rpms(H, version, rng)
            comp = FI.expected_compose(H["compose"])
            E = {"rpms": mapping, "compose": comp}
            case = {"fmt": "rpms", "version": version, "document": textin}
            if version == "0.3" and '"src"' in textin:
                ctx.count("rpms-0.3-src")
            acc = upgrade_cycle(ctx, pms, "rpms", textin, E, case, version)
            ctx.case_done(case, nontrivial=acc and (version == "0.3" or len(H["ops"]) > 2))
            if i == 0 and version == "0.3":
                ctx.sample({"fmt": "rpms", "version": version, "document": json.loads(textin)})
        # treeinfo
        for version in DV.TREEINFO_VERSIONS:
            force = ["src-tree", "depth-3", "child-every-type", "images", "media", "stage2", "checksums", "layered", "many-variants", None][i % 10]
            D = FT.gen_description(rng, force, hostile=(i % 4 == 0 and version != "0.0"))
            if force is None and rng.random() < 0.3:
                formats.equalise("treeinfo", D, rng)
            if DV.vt(version) <= (0, 3):
                prune_id_collisions(D)
            if version == "0.0":
                # a pre-productmd file derives the platform list from its section names, where [images-<p>-<arch>] IS the
                # spelling of platform <p>: a platform literally named '<p>-<arch>' does not exist in that format
                suffix = "-" + D["tree"]["arch"]
                D["tree"]["platforms"] = [p for p in D["tree"]["platforms"] if not p.endswith(suffix)]
                D["images"] = dict((p, t) for p, t in D["images"].items() if not p.endswith(suffix))
            known_family = version == "0.0" and i % 5 == 2
            if known_family:
                # a product family the pre-productmd reader special-cases (names, add-ons and package directories of RHEL 3-6,
                # CentOS, ...).  That mapping is code, not documentation: the facts are not judged, the conversion cycle is
                # (accepted -> current header, identical reload, byte-identical second write)
                D["legacy_known_family"] = DV.KNOWN_FAMILIES[(i // 5) % len(DV.KNOWN_FAMILIES)]
                D["release"]["version"] = ["5.11", "6.10", "4.8", "3.9", "7.0", "5.0", "6Server", "5.11-Beta"][(i // 5) % 8]
                if (i // 5) % 3 == 0:
                    top = sorted(D["variants"], key=lambda x: x["uid"])[0]
                    top["id"] = top["uid"] = ["Server", "Client"][(i // 15) % 2]
            textin, E = DV.treeinfo(D, version, rng)
            if known_family:
                E = None
                ctx.count("treeinfo-0.0-known-product-family")
            case = {"fmt": "treeinfo", "version": version, "document": textin}
            if version == "0.3" and D["tree"]["arch"] == "src":
                ctx.count("treeinfo-0.3-src-tree")
            if version == "0.0" and any(s.startswith("[images-") and s.count("-") >= 2 for s in textin.split("\n")):
                ctx.count("treeinfo-0.0-legacy-image-section")
            if version == "0.0" and any(l.split("=")[0].strip() in ("packagedir", "packages") and l.split("=", 1)[1].strip() == ""
                                        for l in textin.split("\n") if "=" in l) and \
                    any(l.startswith("repository") for l in textin.split("\n")):
                ctx.count("treeinfo-0.0-blank-packagedir-with-repository")
            acc = upgrade_cycle(ctx, pms, "treeinfo", textin, E, case, version)
            ctx.case_done(case, nontrivial=acc)
            if version == "0.0":
                check_legacy_addons(ctx, pms, rng)
            if i == 0 and version == "0.0":
                ctx.sample({"fmt": "treeinfo", "version": version, "document": textin})


def legacy_addon_document(rng):
    """Pre-productmd tree of the RHEL 6 kind: one variant named in [general], its add-ons listed under 'addons' and described
    in sections named after their ID ([addon-<ID>]) or their UID ([addon-<UID>]), each with a display name of its own.
    Returns (text, {uid: (id, type, name)})."""
    top = rng.choice(["Server", "Workstation", "ComputeNode", "Client"])
    pool = [("HighAvailability", "High Availability"), ("ResilientStorage", "Resilient Storage"), ("LoadBalancer", "Load Balancer"),
            ("ScalableFileSystem", "Scalable Filesystem Support"), ("optional", "Optional Packages"), ("X1", "x one")]
    addons = rng.sample(pool, rng.randint(1, 4))
    out = ["[general]", "family = Spacewalk", "version = %d.%d" % (rng.randint(1, 9), rng.randint(0, 9)), "arch = x86_64",
           "timestamp = %d.%02d" % (rng.randint(1, 2 ** 31), rng.randint(0, 99)), "variant = " + top, "packagedir = Packages",
           "repository = " + top, "", "[variant-%s]" % top, "addons = " + ",".join(a for a, _ in addons),
           "identity = %s/%s.pem" % (top, top), "repository = %s/repodata" % top, ""]
    if rng.random() < 0.5:
        out.insert(11, "name = %s" % rng.choice([top, "Red Hat " + top, top + " edition"]))
    name_top = [l.split("=", 1)[1].strip() for l in out if l.startswith("name = ")]
    exp = {top: (top, "variant", name_top[0] if name_top else top)}
    for aid, aname in addons:
        by_uid = rng.random() < 0.4
        out += ["[addon-%s]" % (("%s-%s" % (top, aid)) if by_uid else aid), "identity = %s/%s.pem" % (aid, aid)]
        named = rng.random() < 0.8
        if named:
            out.append("name = " + aname)
        out += ["repository = %s/repodata" % aid, ""]
        exp["%s-%s" % (top, aid)] = (aid, "addon", aname if named else aid)
    return "\n".join(out) + "\n", exp


def check_legacy_addons(ctx, pms, rng):
    textin, exp = legacy_addon_document(rng)
    case = {"fmt": "treeinfo", "version": "0.0", "document": textin}
    ctx.count("treeinfo-0.0-addons-in-id-named-sections")
    try:
        ti = pms["treeinfo"].TreeInfo()
        ti.loads(textin)
        got = dict((v.uid, (v.id, v.type, v.name)) for v in ti.variants.get_variants(recursive=True))
    except Exception as e:
        got = "raised %s: %s" % (type(e).__name__, str(e)[:150])
    bad = got != exp
    ctx.monitor("facts-preserved", fired=bad)
    if bad:
        ctx.violation("facts-preserved", "the converted object carries the same facts as the old document under the documented mapping "
                      "(a pre-productmd variant and its add-ons: id, type and display name)", case, observed=got, expected=exp)
    acc = upgrade_cycle(ctx, pms, "treeinfo", textin, None, case, "0.0")
    ctx.case_done(case, nontrivial=acc)


def iter_obs_nodes(nodes):
    for n in nodes:
        yield n
        for c in iter_obs_nodes(n["children"]):
            yield c


def prune_id_collisions(D):
    """The 0.x treeinfo readers look paths up by bare id as well as by UID (sections [variant-$id]): keep only variants
    whose id is unique in the whole forest and is not another variant's UID."""
    seen = set()
    tops = []
    for v in sorted(D["variants"], key=lambda x: ("-" in x["uid"], x["uid"])):
        if v["id"] in seen or v["uid"] in seen:
            continue
        seen.add(v["id"])
        seen.add(v["uid"])
        tops.append(v)
    D["variants"] = tops

    def prune(v):
        keep = []
        for c in v["children"]:
            if c["id"] in seen:
                continue
            seen.add(c["id"])
            seen.add(c["uid"])
            prune(c)
            keep.append(c)
        v["children"] = keep
    for v in D["variants"]:
        prune(v)


# ---- fixtures ---------------------------------------------------------------------------------

def fixture_facts_treeinfo(textin):
    """Facts an independent reader can take from a historical .treeinfo itself."""
    sections, _ = FT.read_ini(textin)
    facts = {}
    g = sections.get("general", {})
    t = sections.get("tree", {})
    facts["arch"] = t.get("arch", g.get("arch"))
    images = {}
    arch = facts["arch"]
    for sec, table in sections.items():
        if sec.startswith("images-"):
            plat = sec[7:]
            if plat != arch and arch and plat.endswith("-" + arch):
                plat = plat[:-len(arch) - 1]
            images[plat] = sorted(table.keys())
    facts["image_names"] = images
    facts["checksum_paths"] = len(sections.get("checksums", {}))
    facts["stage2"] = sorted(sections.get("stage2", {}).keys())
    return facts


def run_fixtures(ctx, pms):
    repo = ctx.repo
    n = 0
    for path in sorted(glob.glob(os.path.join(repo, "tests", "treeinfo", "*"))):
        with open(path) as f:
            textin = f.read()
        name = os.path.basename(path)
        case = {"fmt": "treeinfo", "fixture": name}
        try:
            version = header_of("treeinfo", textin)[0] or "0.0"
        except Exception:
            version = "?"
        try:
            facts = fixture_facts_treeinfo(textin)
            ti = pms["treeinfo"].TreeInfo()
            ti.loads(textin)
            got = {"arch": ti.tree.arch, "image_names": dict((p, sorted(t.keys())) for p, t in ti.images.images.items()),
                   "checksum_paths": len(ti.checksums.checksums),
                   "stage2": sorted(k for k in ("mainimage", "instimage") if getattr(ti.stage2, k))}
            diffs = diff(facts, got)
        except Exception as e:
            ctx.count("fixture-rejected")
            ctx.note("fixture_rejected_example", "%s: %s: %s" % (name, type(e).__name__, e))
            continue
        ctx.count("fixtures-treeinfo")
        ctx.monitor("fixture-facts", fired=bool(diffs))
        if diffs:
            ctx.violation("fixture-facts", "a historical fixture's own facts (arch, image tables, checksums, stage2) are found in the converted object",
                          case, observed=diffs, expected="as in the file")
        upgrade_cycle(ctx, pms, "treeinfo", textin, None, case, "fixture", key=fixture_key(name, textin))
        ctx.case_done(case)
        n += 1
    for path in sorted(glob.glob(os.path.join(repo, "tests", "discinfo", "*"))):
        with open(path) as f:
            textin = f.read()
        case = {"fmt": "discinfo", "fixture": os.path.basename(path)}
        lines = [l.strip() for l in textin.split("\n")]
        try:
            di = pms["discinfo"].DiscInfo()
            di.loads(textin)
            probs = []
            if di.timestamp != float(lines[0]):
                probs.append("timestamp %r vs %r" % (di.timestamp, lines[0]))
            if di.arch != lines[2]:
                probs.append("arch %r vs %r" % (di.arch, lines[2]))
            if di.description.strip("\"'") != lines[1].strip("\"'"):
                probs.append("description %r vs %r" % (di.description, lines[1]))
        except Exception as e:
            ctx.count("fixture-rejected")
            continue
        ctx.count("fixtures-discinfo")
        ctx.monitor("fixture-facts", fired=bool(probs))
        if probs:
            ctx.violation("fixture-facts", "a historical .discinfo's own facts are found in the loaded object", case, observed=probs,
                          expected="as in the file")
        upgrade_cycle(ctx, pms, "discinfo", textin, None, case, "fixture")
        ctx.case_done(case)
    for path in sorted(glob.glob(os.path.join(repo, "tests", "images", "*.json"))):
        with open(path) as f:
            textin = f.read()
        case = {"fmt": "images", "fixture": os.path.basename(path)}
        doc = json.loads(textin)
        paths = set()
        for v, arches in doc["payload"]["images"].items():
            for a, lst in arches.items():
                for d in lst:
                    paths.add(d["path"])
        try:
            im = pms["images"].Images()
            im.loads(textin)
            cells, comp, problems = FI.observe(im)
            got = set(p for c in cells.values() for p in c)
            probs = [] if got == paths else ["image paths differ: %s" % sorted(got ^ paths)[:4]]
            if comp["id"] != doc["payload"]["compose"]["id"]:
                probs.append("compose id differs")
        except Exception as e:
            ctx.count("fixture-rejected")
            continue
        ctx.count("fixtures-images")
        ctx.monitor("fixture-facts", fired=bool(probs))
        if probs:
            ctx.violation("fixture-facts", "every image of a historical images fixture is found in the converted object", case,
                          observed=probs, expected="as in the file")
        upgrade_cycle(ctx, pms, "images", textin, None, case, "fixture")
        ctx.case_done(case)
    for path in sorted(glob.glob(os.path.join(repo, "tests", "compose*", "*", "metadata", "composeinfo.json"))):
        with open(path) as f:
            textin = f.read()
        case = {"fmt": "composeinfo", "fixture": os.path.relpath(path, repo)}
        doc = json.loads(textin)
        try:
            ci = pms["composeinfo"].ComposeInfo()
            ci.loads(textin)
            obs = FC.observe(ci)[0]
            uids = set(n["uid"] for n in iter_obs_nodes(obs["variants"]))
            probs = []
            if uids != set(doc["payload"]["variants"].keys()):
                probs.append("variant UIDs differ: %s" % sorted(uids ^ set(doc["payload"]["variants"])))
            if obs["compose"]["id"] != doc["payload"]["compose"]["id"]:
                probs.append("compose id differs")
            rel = doc["payload"].get("release") or doc["payload"].get("product")
            if obs["release"]["name"] != rel["name"] or obs["release"]["version"] != rel["version"]:
                probs.append("release differs")
        except Exception as e:
            ctx.count("fixture-rejected")
            continue
        ctx.count("fixtures-composeinfo")
        ctx.monitor("fixture-facts", fired=bool(probs))
        if probs:
            ctx.violation("fixture-facts", "a historical composeinfo fixture's variants, compose id and release are found in the converted object",
                          case, observed=probs, expected="as in the file")
        upgrade_cycle(ctx, pms, "composeinfo", textin, None, case, "fixture")
        ctx.case_done(case)


def fixture_key(name, textin):
    if "[tree]" not in textin and "variant" not in textin.split("[general]")[-1].split("[")[0] and name == "opensuse":
        return "treeinfo-without-variants-cannot-be-written"
    return None


def run_shard(ctx):
    pms = formats.modules()
    if ctx.shard == 0 and ctx.params.get("fixtures", True):
        run_fixtures(ctx, pms)
    gen_cases(ctx, pms, ctx.rng(0), int(ctx.params.get("per_version", 20)))


def replay(ctx, case):
    pms = formats.modules()
    if "fixture" in case:
        run_fixtures(ctx, pms)
    else:
        upgrade_cycle(ctx, pms, case["fmt"], case["document"], None, case, case.get("version", "?"))
    ctx.case_done(case)
