"""C12  Manifest builders file each entry exactly where the arguments say.

Oracle: history + executable sequential model (rv/fmt_manifests.py).  A
history of add calls with valid and invalid arguments is applied to the real
Rpms / Modules / ExtraFiles object and to a reference model of the documented
layout; after EVERY call - accepted or refused - the whole public mapping is
compared with the model (so "changes only the addressed entry" and "changes
nothing on refusal" are observed, not assumed), the accept/refuse outcome is
compared with the model's prediction, and a refusal must be ValueError or
TypeError.  dump_for_tree is compared with the model for base paths that are a
component prefix, a textual-only prefix, unrelated or empty.

Later additions: interludes inside the histories - del manifest[variant], del manifest[variant][arch], the manifest
reading its own dump back - each followed by the next sub-package of the same build (identical source-package
string); Modules.parse_uid results edited by the caller before the add.
"""
import copy
import io
import json
import random

from rv import fmt_manifests as F

PROPERTY = "C12"
LEVEL = "exploration"
RULE = ("cases = add histories (10-60 calls) per manifest type over a small pool of packages / module UIDs / files, "
        "~35% of the calls carrying exactly one invalid argument class; distinct by history; non-trivial when the "
        "history has an accepted and a refused call; every call is one monitor evaluation")
ASSUMPTIONS = ["rv/fmt_manifests.py transcribes the documented manifest layout (doc/rpms-1.1.rst, the add() docstrings "
               "and the refusal list in the property statement)",
               "NEVRA / UID strings whose reading is debatable (grey) are never generated"]
REQUIRED_REACH = ["rpms.Rpms.add", "rpms.Rpms._check_nevra", "modules.Modules.add", "modules.Modules._check_uid",
                  "modules.Modules.parse_uid", "extra_files.ExtraFiles.add", "extra_files.ExtraFiles.dump_for_tree",
                  "extra_files._relative_to", "common.parse_nvra"]
REQUIRED_MONITORS = ["outcome-matches-model", "state-matches-model", "refusal-type", "dump-for-tree"]
CLASS_FLOORS = {"interlude-del-variant": 10, "interlude-del-arch": 10, "interlude-reload-self": 10}
for k in F.RPMS_INVALID:
    CLASS_FLOORS["rpms-refuse-" + k] = 5
for k in F.MODULES_INVALID:
    CLASS_FLOORS["modules-refuse-" + k] = 5
for k in F.EXTRA_INVALID:
    CLASS_FLOORS["extra-refuse-" + k] = 5
CLASS_FLOORS.update({"rpms-accept": 50, "modules-accept": 50, "extra-accept": 50, "rpms-repeat-add": 5,
                     "rpms-same-rpm-several-cells": 5, "modules-rpms-extended": 5, "tree-prefix-component": 5,
                     "tree-prefix-textual-only": 5, "tree-prefix-unrelated": 5, "tree-prefix-empty": 5,
                     "tree-prefix-trailing-slash": 5, "modules-same-list-object-reused": 5})


def plan(tier):
    if tier == "thorough":
        return {"shards": 16, "params": {"histories": 9000, "budget_s": 1500}, "timeout_s": 3000}
    return {"shards": 4, "params": {"histories": 400, "budget_s": 300}, "timeout_s": 900}


def _pm():
    import productmd.rpms
    import productmd.modules
    import productmd.extra_files
    return {"Rpms": productmd.rpms.Rpms, "Modules": productmd.modules.Modules,
            "ExtraFiles": productmd.extra_files.ExtraFiles}


def gen_history(rng, kind, n=None):
    n = n or rng.randint(10, 60)
    ops = []
    pool = [F.gen_source_package(rng, i) for i in range(rng.randint(1, 4))] if kind == "rpms" else None
    inv_list = {"rpms": F.RPMS_INVALID, "modules": F.MODULES_INVALID, "extra": F.EXTRA_INVALID}[kind]
    k = rng.randrange(len(inv_list))
    for i in range(n):
        invalid = None
        if rng.random() < 0.35:
            invalid = inv_list[k % len(inv_list)]
            k += 1
        if kind == "rpms":
            if ops and invalid is None and rng.random() < 0.15:
                prev = rng.choice([o for o in ops if not o.get("interlude")])
                op = copy.deepcopy(prev)
                if op["meta"].get("invalid") is None:
                    if rng.random() < 0.5:
                        op["args"]["variant"] = rng.choice(F.VARIANTS)      # same RPM in another cell
                        op["args"]["arch"] = rng.choice(F.TREE_ARCHES)
                    else:
                        op["args"]["path"] = "moved/" + op["args"]["path"]  # repeated add: last writer wins
                ops.append(op)
                continue
            ops.append(F.gen_rpms_op(rng, pool, invalid))
            if invalid is None and rng.random() < 0.12:
                # the caller drops a variant / an arch, or reads the manifest's own dump back into it, and then goes on with the
                # NEXT sub-package of the build it was adding: the entry is filed where the arguments say - in the manifest
                sib = F.sibling_rpms_op(rng, pool, ops[-1])
                if sib is not None:
                    a = ops[-1]["args"]
                    ops.append({"kind": "rpms", "interlude": rng.choice(["del-variant", "del-arch", "reload-self"]),
                                "args": {"variant": a["variant"], "arch": a["arch"]}, "meta": {"invalid": None}})
                    ops.append(sib)
        elif kind == "modules":
            op = F.gen_modules_op(rng, invalid)
            prev = [o for o in ops if o["meta"].get("invalid") is None and not o.get("interlude") and isinstance(o["args"].get("rpms"), list)]
            if invalid is None and prev and rng.random() < 0.5:
                p0 = prev[-1]
                r = rng.random()
                if r < 0.5:
                    # the same module (same UID, same RPM list) filed in another variant/arch - a noarch module in every tree
                    op["args"]["uid"], op["meta"]["uid_parts"] = p0["args"]["uid"], p0["meta"]["uid_parts"]
                    op["args"]["rpms"] = list(p0["args"]["rpms"])
                else:
                    # the same entry again in another category with more RPMs
                    for fld in ("variant", "arch", "uid"):
                        op["args"][fld] = p0["args"][fld]
                    op["meta"]["uid_parts"] = p0["meta"]["uid_parts"]
            ops.append(op)
            if invalid is None and rng.random() < 0.1:
                a = op["args"]
                ops.append({"kind": "modules", "interlude": rng.choice(["del-variant", "del-arch", "reload-self"]),
                            "args": {"variant": a["variant"], "arch": a["arch"]}, "meta": {"invalid": None}})
                again = copy.deepcopy(op)
                again["args"]["category"] = rng.choice(["binary", "debug", "source"]) if "category" in again["args"] else again["args"].get("category")
                ops.append(again)
        else:
            op = F.gen_extra_op(rng, invalid)
            valid_before = [o for o in ops if o["meta"].get("invalid") is None]
            if invalid is None and valid_before and rng.random() < 0.2:
                # exactly the same record again (a caller walking two trees that share a file): every successful add appends
                op = json.loads(json.dumps(rng.choice(valid_before)))
                op["meta"]["exact_repeat"] = True
            ops.append(op)
    return {"kind": kind, "ops": ops}


def classify(op, verdict_real, exc, reason):
    """Mechanism classifier for known findings."""
    return None


def check_history(ctx, pm, H):
    kind = H["kind"]
    real = F.new_real(pm, kind)
    model = F.MODELS[kind]()
    accepted = refused = 0
    seen_cells = {}
    shared_lists = []
    attr = {"rpms": "rpms", "modules": "modules", "extra": "extra_files"}[kind]
    for step, op in enumerate(H["ops"]):
        before = F.real_state(real, kind)
        if op.get("interlude"):
            v, a = op["args"]["variant"], op["args"]["arch"]
            mstate = getattr(model, attr)
            case = {"kind": kind, "ops": H["ops"][:step + 1], "step": step}
            problem = None
            try:
                if op["interlude"] == "del-variant":
                    if v not in mstate:
                        continue
                    del real[v]
                    del mstate[v]
                elif op["interlude"] == "del-arch":
                    if a not in mstate.get(v, {}):
                        continue
                    del real[v][a]
                    del mstate[v][a]
                else:
                    if not mstate:
                        continue
                    if not getattr(real.compose, "id", None):
                        F.fill_compose(real.compose)
                    real.loads(real.dumps())
            except Exception as e:
                problem = ["%s raised %s: %s" % (op["interlude"], type(e).__name__, str(e)[:120])]
            ctx.count("interlude-" + op["interlude"])
            diffs = problem or F.first_diff(model.state(), F.real_state(real, kind))
            ctx.monitor("state-matches-model", fired=bool(diffs))
            if diffs:
                ctx.violation("state-matches-model", "deleting a variant / an arch removes exactly that entry; reading the manifest's own dump "
                              "back leaves the mapping as it was", case, observed=diffs, expected="model state")
                _adopt(model, kind, F.real_state(real, kind))
            continue
        op_run = copy.deepcopy(op)
        if kind == "modules" and isinstance(op_run["args"].get("rpms"), list):
            # callers reuse list objects: every third modules call passes the SAME list object as the previous list-carrying call
            if shared_lists and step % 3 == 0 and shared_lists[-1] == op_run["args"]["rpms"]:
                op_run["args"]["rpms"] = shared_lists[-1]
                ctx.count("modules-same-list-object-reused")
            else:
                shared_lists.append(op_run["args"]["rpms"])
        verdict, reason = model.add(copy.deepcopy(op["args"]), op["meta"])
        if kind == "modules" and step % 4 == 1 and isinstance(op_run["args"].get("uid"), str):
            # the caller looked the UID up with the public parser before (to derive a build name, say) and edited what it got
            # back: the manifest files the module under what the ARGUMENT says
            try:
                parts = real.parse_uid(op_run["args"]["uid"])
                if isinstance(parts, dict):
                    for k0 in list(parts):
                        parts[k0] = "scribbled"
                    ctx.count("modules-uid-parsed-and-result-edited-before-add")
            except Exception:
                pass
        exc = None
        try:
            F.apply_real(real, op_run)
            got = "accept"
        except (ValueError, TypeError) as e:
            got, exc = "refuse", e
        except Exception as e:
            got, exc = "refuse-other", e
        after = F.real_state(real, kind)
        case = {"kind": kind, "ops": H["ops"][:step + 1], "step": step}
        # the call must not modify the caller's arguments (lists / dicts handed in)
        bad_args = F.to_plain(op_run["args"]) != F.to_plain(op["args"])
        ctx.monitor("arguments-not-modified", fired=bad_args)
        if bad_args:
            ctx.violation("arguments-not-modified", "an add changes only the addressed manifest entry - not the lists or dicts the caller passed in",
                          case, observed=F.first_diff(F.to_plain(op["args"]), F.to_plain(op_run["args"])), expected="arguments unchanged")
        tag = "%s-%s" % (kind, "accept" if verdict == "accept" else "refuse-" + str(op["meta"].get("invalid")))
        ctx.count(tag)
        # outcome
        bad = (verdict == "accept") != (got == "accept")
        ctx.monitor("outcome-matches-model", fired=bad)
        if bad:
            ctx.violation("outcome-matches-model",
                          "an add is accepted iff its arguments satisfy the documented rules",
                          case, observed="%s%s" % (got, " (%s: %s)" % (type(exc).__name__, exc) if exc else ""),
                          expected="%s%s" % (verdict, " (%s)" % reason if reason else ""),
                          key=_key(kind, op, verdict, got, exc))
        if verdict == "refuse" and got != "accept":
            bad = got == "refuse-other"
            ctx.monitor("refusal-type", fired=bad)
            if bad:
                ctx.violation("refusal-type", "a refused call raises ValueError or TypeError", case,
                              observed="%s: %s" % (type(exc).__name__, exc), expected="ValueError/TypeError (%s)" % reason,
                              key=_key(kind, op, verdict, got, exc))
        # state: a call the library refused must have changed nothing; an accepted call the
        # model also accepts must leave exactly the model's mapping.  (An accepted call the model
        # refuses is already reported by outcome-matches-model; its state is adopted.)
        if got != "accept":
            expect = before
        elif verdict == "accept":
            expect = model.state()
        else:
            expect = None
        diffs = []
        if expect is not None:
            diffs = F.first_diff(expect, after)
            ctx.monitor("state-matches-model", fired=bool(diffs))
            if diffs:
                ctx.violation("state-matches-model",
                              "after every call the public mapping equals the reference model (refused calls change nothing; "
                              "accepted calls change only the addressed entry)",
                              case, observed=diffs, expected="model state (%s)" % ("after the add" if got == "accept" else "unchanged"),
                              key=_key(kind, op, verdict, got, exc))
        if diffs or expect is None or (verdict == "accept") != (got == "accept"):
            _adopt(model, kind, after)      # keep later steps comparable
        if got == "accept":
            accepted += 1
            if kind == "rpms" and verdict == "accept":
                ck = (op["args"]["nevra"], op["args"].get("srpm_nevra"))
                cells = seen_cells.setdefault(ck, set())
                cell = (op["args"]["variant"], op["args"]["arch"])
                if cell in cells:
                    ctx.count("rpms-repeat-add")
                elif cells:
                    ctx.count("rpms-same-rpm-several-cells")
                cells.add(cell)
            if kind == "modules" and verdict == "accept":
                ck = (op["args"]["variant"], op["args"]["arch"], op["args"]["uid"])
                if ck in seen_cells and op["args"]["rpms"]:
                    ctx.count("modules-rpms-extended")
                seen_cells[ck] = 1
        else:
            refused += 1
    # dump_for_tree
    if kind == "extra":
        check_dump_for_tree(ctx, real, model, H)
    return accepted, refused


def _adopt(model, kind, state):
    attr = {"rpms": "rpms", "modules": "modules", "extra": "extra_files"}[kind]
    setattr(model, attr, copy.deepcopy(state))


def _key(kind, op, verdict, got, exc):
    inv = op["meta"].get("invalid")
    if kind == "rpms" and inv in ("unparsable-with-colon", "srpm-unparsable") and isinstance(exc, AttributeError):
        return "unparsable-nevra-raises-attributeerror"
    if kind == "rpms" and inv == "empty-path" and got == "accept":
        return "rpms-empty-path-accepted"
    return None


def check_dump_for_tree(ctx, real, model, H):
    rng = random.Random(len(H["ops"]))
    for (variant, arches) in sorted(model.extra_files.items()):
        for arch, items in sorted(arches.items()):
            first = items[0]["file"]
            comps = first.split("/")
            bases = []
            if len(comps) > 1:
                bases.append(("tree-prefix-component", "/".join(comps[:-1])))
                bases.append(("tree-prefix-trailing-slash", "/".join(comps[:-1]) + "/"))
                bases.append(("tree-prefix-several-trailing-slashes", "/".join(comps[:-1]) + rng.choice(["//", "///"])))
                bases.append(("tree-prefix-textual-only", "/".join(comps[:-1])[:-1]))
                bases.append(("tree-prefix-textual-only", first[:len(comps[0]) + 2]))
                bases.append(("tree-prefix-component", comps[0]))
            bases.append(("tree-prefix-unrelated", "Other/tree"))
            bases.append(("tree-prefix-empty", ""))
            for cls, base in bases:
                ctx.count(cls)
                state_before = F.real_state(real, "extra")
                want = model.dump_for_tree(variant, arch, base)
                out = io.StringIO()
                try:
                    real.dump_for_tree(out, variant, arch, base)
                    got = json.loads(out.getvalue())
                except Exception as e:
                    got = "raised %s: %s" % (type(e).__name__, e)
                bad = got != want
                if not bad and F.real_state(real, "extra") != state_before:
                    bad = True
                    got = "dump_for_tree changed the manifest: %s" % F.first_diff(state_before, F.real_state(real, "extra"))
                ctx.monitor("dump-for-tree", fired=bad)
                if bad:
                    ctx.violation("dump-for-tree", "dump_for_tree strips the base path only on a path-component boundary",
                                  {"kind": "extra", "ops": H["ops"], "variant": variant, "arch": arch, "basepath": base},
                                  observed=got if isinstance(got, str) else F.first_diff(want, got), expected="model output")


def run_shard(ctx):
    pm = _pm()
    n = int(ctx.params.get("histories", 100))
    rng = ctx.rng(0)
    kinds = ["rpms", "modules", "extra"]
    for i in range(n):
        if i % 16 == 0 and ctx.out_of_time():
            ctx.note("stopped_early_at", i)
            break
        H = gen_history(rng, kinds[i % 3])
        acc, ref = check_history(ctx, pm, H)
        ctx.note_add("calls", len(H["ops"]))
        ctx.case_done(H, nontrivial=acc > 0 and ref > 0)
        if len(ctx.samples) < 3 and i < 3:
            ctx.sample({"kind": H["kind"], "ops": H["ops"][:4], "n_ops": len(H["ops"])})


def replay(ctx, case):
    pm = _pm()
    H = {"kind": case["kind"], "ops": case["ops"]}
    check_history(ctx, pm, H)
    ctx.case_done(H)
