"""C08  Serialisation is canonical: output depends on content only.

Workload: every shard (a separate interpreter process with its own
PYTHONHASHSEED and a random amount of pre-allocated junk objects, which shifts
the id()-based hashes of Image objects so that set iteration order really
varies) generates the SAME sequence of content descriptions (all seven
formats) and builds each content k times with independent permutations of
every unordered part - variants at each level, arch sets, images per cell,
RPM / module / extra-file add order across DIFFERENT keys, path-table fill
order, platforms, checksums, image tables - plus repeated dumps of one object.
Caller-ordered lists keep the description's order.

Oracle: (1) all SHA-256 digests of one content are equal - inside a process
(monitor same-process) and across processes / hash seeds (post-processing in
the runner, monitor across-processes); (2) JSON text re-rendered with
indent=4, sort_keys=True, separators=(",", ": ") equals the text byte for
byte; (3) in INI text sections are sorted and options sorted within each
section (independent line reader).  An observational monitor records whether
the raw iteration order of an underlying container actually differed between
two builds; a content where nothing varied proves nothing about sorting and
is counted as trivial.
"""
import hashlib
import json
import os
import random

from rv import formats
from rv.model import domains
from rv import fmt_treeinfo as FT

PROPERTY = "C08"
LEVEL = "exploration"
RULE = ("cases = content descriptions of the seven formats; each is built k times per process with independent "
        "construction-order permutations, in several interpreter processes with different PYTHONHASHSEED; distinct by "
        "description; a content is non-trivial when the raw iteration order of at least one underlying container was "
        "observed to differ between two of its builds")
ASSUMPTIONS = ["SHA-256 digests stand for the dump bytes", "sorted means Python's code-point order",
               "operations addressing the same key (same RPM cell entry, same module UID, same extra-file cell) are never reordered: "
               "there order is content"]
REQUIRED_REACH = ["images.Images.serialize", "composeinfo.Variant.serialize", "composeinfo.VariantPaths.serialize",
                  "common.SortedDict.keys", "treeinfo.Tree.serialize", "treeinfo.Variants.serialize", "common.MetadataBase.build_file"]
REQUIRED_MONITORS = ["path-holds-exactly-the-dump", "same-process-digests-equal", "across-processes-digests-equal", "json-canonical-form", "ini-sorted",
                     "repeated-dumps-equal"]
CLASS_FLOORS = {"order-varied-composeinfo": 10, "order-varied-images": 10, "order-varied-rpms": 10, "order-varied-modules": 5,
                "order-varied-extra_files": 3, "order-varied-treeinfo": 10, "image-set-order-varied": 10}


def plan(tier):
    if tier == "thorough":
        return {"shards": 16, "params": {"contents": 6000, "builds": 4, "budget_s": 2000}, "timeout_s": 3600,
                "hashseeds": ["0", "1", "2", "7", "42", "1234", "99991", "4294967295", "3", "11", "314159", "271828", "65537",
                              "123456789", "5", "13"]}
    return {"shards": 4, "params": {"contents": 1400, "builds": 4, "budget_s": 300}, "timeout_s": 900,
            "hashseeds": ["0", "1", "2", "4294967295"]}


def raw_order(fmt, obj):
    """Raw (unsorted) iteration order of the underlying containers - what the writers must not depend on."""
    sig = []
    if fmt == "composeinfo":
        def walk(c):
            sig.append(list(c.variants.keys()))
            for v in c.variants.values():
                sig.append(list(v.arches))
                for cat in ("os_tree", "packages", "repository", "isos"):
                    sig.append(list(getattr(v.paths, cat).keys()))
                walk(v)
        walk(obj.variants)
    elif fmt == "images":
        for v in obj.images:
            sig.append(v)
            for a in obj.images[v]:
                sig.append(a)
                sig.append([o.path for o in obj.images[v][a]])
    elif fmt == "rpms":
        for v in obj.rpms:
            for a in obj.rpms[v]:
                sig.append((v, a, [(k, list(r.keys())) for k, r in obj.rpms[v][a].items()]))
    elif fmt == "modules":
        for v in obj.modules:
            for a in obj.modules[v]:
                sig.append((v, a, list(obj.modules[v][a].keys())))
    elif fmt == "extra_files":
        for v in obj.extra_files:
            sig.append((v, list(obj.extra_files[v].keys())))
    elif fmt == "treeinfo":
        def walk(c):
            sig.append(list(c.variants.keys()))
            for v in c.variants.values():
                walk(v)
        walk(obj.variants)
        sig.append(list(obj.tree.platforms))
        sig.append([(p, list(t.keys())) for p, t in obj.images.images.items()])
        sig.append(list(obj.checksums.checksums.keys()))
    return sig


def image_set_order(fmt, obj):
    if fmt != "images":
        return None
    return [[o.path for o in obj.images[v][a]] for v in sorted(obj.images) for a in sorted(obj.images[v])]


def modify(fmt, obj, D):
    """One legitimate content modification, applied identically to an object that was dumped before and to a fresh one."""
    if fmt == "treeinfo":
        obj.tree.arch = "s390x" if obj.tree.arch != "s390x" else "ppc64le"
        obj.tree.build_timestamp = 77
    elif fmt == "composeinfo":
        obj.release.version = "99"
        obj.compose.respin = 5
        for v in sorted(obj.variants.variants.values(), key=lambda x: x.uid):
            if not v.variants and len(v.arches) > 1:
                v.arches = set(sorted(v.arches)[1:])
                break
        # ... and a top-level variant GAINS the architectures some of its path tables already name (the paths were set first,
        # the architecture list is completed later)
        for v in sorted(obj.variants.variants.values(), key=lambda x: x.uid):
            named = set()
            for name in v.paths._fields:
                named.update(getattr(v.paths, name).keys())
            v.arches = set(v.arches) | set(a for a in named if a in domains.BINARY_ARCHES)
    elif fmt == "discinfo":
        obj.arch = "riscv64"
        obj.disc_numbers = [3, 1]
    else:
        obj.compose.respin = 5
        obj.compose.label = "RC-9.9"
        obj.compose.final = True
        if fmt == "images":
            for v in sorted(obj.images):
                for a in sorted(obj.images[v]):
                    for o in sorted(obj.images[v][a], key=lambda x: x.path)[:1]:
                        o.mtime = 424242
                        o.bootable = not o.bootable
                    return


def check_dump_history(ctx, pms, fmt, D, case, seed_a, seed_b):
    """Bytes do not depend on how often the object was dumped before: dump, modify, dump again == fresh, modify, dump."""
    path = os.path.join(ctx.scratch, "c08-dump-history")
    at_path = None
    try:
        used = formats.build(pms, fmt, D, seed_a)
        fresh = formats.build(pms, fmt, D, seed_b)
        if fmt == "composeinfo":
            # both objects carry a path for an architecture the variant does not list yet
            for o in (used, fresh):
                for v in sorted(o.variants.variants.values(), key=lambda x: x.uid)[:2]:
                    extra = [a for a in ("riscv64", "s390x", "aarch64") if a not in v.arches]
                    if extra:
                        v.paths.os_tree[extra[0]] = "%s/%s/os" % (v.uid, extra[0])
                        v.paths.packages[extra[0]] = "%s/%s/os/Packages" % (v.uid, extra[0])
            ctx.count("composeinfo-path-for-an-arch-listed-later")
        if fmt == "treeinfo" and len(used.variants.variants) > 1:
            # ... dumped before with ANOTHER main variant than the default one
            import io as _io
            used.dump(_io.StringIO(), main_variant=sorted(v.uid for v in used.variants.variants.values())[-1])
            ctx.count("treeinfo-dumped-before-with-other-main-variant")
        used.dumps()
        t_before = used.dumps()
        # the path the object is written to again later holds its earlier, LONGER state
        with open(path, "w") as f:
            f.write(t_before + "\n" + t_before[-200:])
        used.dump(path)
        modify(fmt, used, D)
        modify(fmt, fresh, D)
        try:
            t_used = used.dumps()
            used.dump(path)
            with open(path) as f:
                at_path = f.read()
        except Exception as e:
            t_used = "raised %s" % type(e).__name__
        try:
            t_fresh = fresh.dumps()
        except Exception as e:
            t_fresh = "raised %s" % type(e).__name__
    except Exception as e:
        ctx.note_add("dump_history_case_skipped")
        ctx.note("dump_history_case_skipped_example", "%s: %s" % (type(e).__name__, str(e)[:200]))
        ctx._c08_skipped = getattr(ctx, "_c08_skipped", 0) + 1
        if ctx._c08_skipped == 50:
            ctx.starved("50 dump-history cases could not be set up (%s: %s)" % (type(e).__name__, str(e)[:200]))
        return
    if at_path is not None:
        bad = at_path != t_used
        ctx.monitor("path-holds-exactly-the-dump", fired=bad)
        if bad:
            ctx.violation("path-holds-exactly-the-dump", "the bytes written do not depend on how often the object was dumped before - also "
                          "at a path that holds an earlier (longer) dump of it", case,
                          observed="%d bytes at the path, ending %r" % (len(at_path), at_path[-60:]),
                          expected="%d bytes, ending %r" % (len(t_used), t_used[-60:]))
    bad = t_used != t_fresh
    ctx.monitor("independent-of-earlier-dumps", fired=bad)
    if bad:
        i = 0
        while i < min(len(t_used), len(t_fresh)) and t_used[i] == t_fresh[i]:
            i += 1
        ctx.violation("independent-of-earlier-dumps", "the bytes do not depend on how often the object was dumped before: an object "
                      "dumped, then modified, writes what a fresh object with the same modification writes", case,
                      observed=t_used[max(0, i - 80):i + 80], expected=t_fresh[max(0, i - 80):i + 80])


def check_text_form(ctx, fmt, textout, case):
    if fmt in ("composeinfo", "images", "rpms", "modules", "extra_files"):
        try:
            obj = json.loads(textout)
            # the statement fixes key order and indentation; character escaping (ensure_ascii) and a final newline are free
            canons = [json.dumps(obj, indent=4, sort_keys=True, separators=(",", ": "), ensure_ascii=ea) for ea in (True, False)]
            canon = canons[0]
        except Exception as e:
            canons = []
            canon = "unparsable: %s" % e
        body = textout[:-1] if textout.endswith("\n") else textout
        bad = body not in canons
        ctx.monitor("json-canonical-form", fired=bad)
        if bad:
            i = 0
            while i < min(len(canon), len(textout)) and canon[i] == textout[i]:
                i += 1
            ctx.violation("json-canonical-form", "JSON output has object keys sorted with 4-space indentation", case,
                          observed=textout[max(0, i - 80):i + 80], expected=canon[max(0, i - 80):i + 80])
    elif fmt == "treeinfo":
        probs = []
        try:
            sections, order = FT.read_ini(textout)
            names = [s for s, _ in order]
            if names != sorted(names):
                probs.append("sections not sorted: %s" % names)
            if len(set(names)) != len(names):
                probs.append("a section is written twice")
            for s, keys in order:
                if keys != sorted(keys):
                    probs.append("[%s] options not sorted: %s" % (s, keys))
        except Exception as e:
            probs.append("unreadable: %s" % e)
        ctx.monitor("ini-sorted", fired=bool(probs))
        if probs:
            ctx.violation("ini-sorted", "treeinfo output has sections and options sorted", case, observed=probs[:4], expected="sorted")


def run_shard(ctx):
    pms = formats.modules()
    # shift allocation addresses (and thereby id()-based hashes) differently in every process
    junk_rng = random.Random("%s/junk/%s" % (ctx.seed, ctx.shard))
    junk = [object() for _ in range(junk_rng.randrange(1000, 200000))]
    junk2 = [[i] for i in range(junk_rng.randrange(10, 5000))]
    n = int(ctx.params.get("contents", 100))
    k = int(ctx.params.get("builds", 4))
    digests = {}
    for i in range(n):
        if i % 16 == 0 and ctx.out_of_time():
            ctx.note("stopped_early_at", i)
            break
        # content stream is the same in every shard (independent of ctx.shard)
        rng = random.Random("%s/C08/content/%d" % (ctx.seed, i))
        fmt = formats.FORMATS[i % len(formats.FORMATS)]
        force = None
        if fmt == "images":
            force = ["many-per-cell", "shared-object", "near-equal-paths", "identity-equal-same-checksums", None][(i // 7) % 5]
        if fmt == "composeinfo":
            force = ["depth-3", "paths-full", "many-variants", None][(i // 7) % 4]
        if fmt == "treeinfo":
            force = ["several-platforms", "mixed-case-options", "depth-3", "checksums", "many-variants", "platform-named-like-legacy-section", "two-dashed-top-optionals", None][(i // 7) % 8]
        D = formats.gen(fmt, rng, force, hostile=(i % 2 == 0))
        case = {"fmt": fmt, "content_index": i, "D": D}
        dset = []
        orders = []
        img_orders = []
        failed = False
        for b in range(k):
            order_seed = hash_free_int("%s/%s/%s/%s" % (ctx.seed, ctx.shard, i, b))
            try:
                obj = formats.build(pms, fmt, D, order_seed)
                textout = obj.dumps()
            except Exception as e:
                ctx.note_add("write_refused")
                failed = True
                break
            dset.append(hashlib.sha256(textout.encode("utf-8", "surrogatepass")).hexdigest())
            orders.append(json.dumps(raw_order(fmt, obj), sort_keys=False, default=str))
            img_orders.append(image_set_order(fmt, obj))
            if b == 0:
                check_text_form(ctx, fmt, textout, case)
                # repeated dumps of one object
                again = [obj.dumps() for _ in range(2)]
                bad = any(t != textout for t in again)
                ctx.monitor("repeated-dumps-equal", fired=bad)
                if bad:
                    ctx.violation("repeated-dumps-equal", "the output does not depend on how often the object was dumped before", case,
                                  observed="a later dump differs", expected="identical")
            elif dset[-1] != dset[0]:
                ctx.note("last_differing_order_seed", order_seed)
        if failed:
            ctx.case_done({"c": i, "s": ctx.shard}, nontrivial=False)
            continue
        check_dump_history(ctx, pms, fmt, D, case, hash_free_int("%s/a/%s" % (ctx.shard, i)), hash_free_int("%s/b/%s" % (ctx.shard, i)))
        bad = len(set(dset)) != 1
        ctx.monitor("same-process-digests-equal", fired=bad)
        if bad:
            ctx.violation("same-process-digests-equal", "two dumps of the same content are byte-identical whatever the construction order",
                          dict(case, hashseed=ctx.hashseed), observed=sorted(set(dset)), expected="one digest")
        varied = len(set(orders)) > 1
        if varied:
            ctx.count("order-varied-" + fmt)
        if fmt == "images" and len(set(json.dumps(o) for o in img_orders)) > 1:
            ctx.count("image-set-order-varied")
        digests[str(i)] = [fmt, dset[0], orders[0][:0]]
        ctx.case_done({"c": i, "D": D}, nontrivial=varied)
        if i in (0, 1) and ctx.shard == 0:
            ctx.sample({"fmt": fmt, "D": D, "digest": dset[0], "builds": k})
    ctx.note("digests_%d" % ctx.shard, digests)
    del junk, junk2


def hash_free_int(s):
    return int(hashlib.sha256(s.encode()).hexdigest()[:12], 16)


def post(agg, tier, seed):
    """Across processes / hash seeds: one digest per content."""
    per = {}
    shards = 0
    for notes in agg["notes_by_shard"]:
        for k, v in notes.items():
            if k.startswith("digests_"):
                shards += 1
                for cid, (fmt, dg, _x) in v.items():
                    per.setdefault(cid, {}).setdefault(dg, []).append(k[8:])
    m = agg["monitors"].setdefault("across-processes-digests-equal", {"evals": 0, "fired": 0})
    compared = 0
    for cid, dgs in sorted(per.items(), key=lambda kv: int(kv[0])):
        nproc = sum(len(v) for v in dgs.values())
        if nproc < 2:
            continue
        compared += 1
        m["evals"] += 1
        if len(dgs) > 1:
            m["fired"] += 1
            agg["violation_count"] += 1
            key = ("across-processes-digests-equal", "the bytes do not depend on the interpreter's hash seed or process", None)
            agg["violation_keys"][key] = agg["violation_keys"].get(key, 0) + 1
            if len([v for v in agg["violations"] if v["monitor"] == "across-processes-digests-equal"]) < 3:
                agg["violations"].append({"property": "C08", "monitor": key[0], "clause": key[1], "key": None,
                                          "case": {"content_index": int(cid), "seed": seed, "note": "regenerate with random.Random('%s/C08/content/%s')" % (seed, cid)},
                                          "observed": dict((d, s) for d, s in dgs.items()), "expected": "one digest in all processes",
                                          "detail": None, "seed": seed, "shard": None, "hashseed": None})
    agg["notes"]["contents_compared_across_processes"] = compared
    agg["notes"]["processes"] = shards
    for k in list(agg["notes"].keys()):
        if k.startswith("digests_"):
            del agg["notes"][k]
    if shards >= 2 and compared == 0:
        agg["inconclusive"].append("no content was dumped in two processes")


def replay(ctx, case):
    pms = formats.modules()
    if "D" not in case:
        rng = random.Random("%s/C08/content/%d" % (case.get("seed", 0), case["content_index"]))
        i = case["content_index"]
        fmt = formats.FORMATS[i % len(formats.FORMATS)]
        ctx.starved("across-process witnesses are replayed by re-running the check with the same seed (content %d, format %s)" % (i, fmt))
        return
    fmt, D = case["fmt"], case["D"]
    dset = []
    for b in range(12):
        obj = formats.build(pms, fmt, D, b * 7919 + 1)
        t = obj.dumps()
        if b == 0:
            check_text_form(ctx, fmt, t, case)
        dset.append(hashlib.sha256(t.encode("utf-8", "surrogatepass")).hexdigest())
    bad = len(set(dset)) != 1
    ctx.monitor("same-process-digests-equal", fired=bad)
    if bad:
        ctx.violation("same-process-digests-equal", "two dumps of the same content are byte-identical whatever the construction order",
                      case, observed=sorted(set(dset)), expected="one digest")
    ctx.case_done(case)
