"""C13  RPM name-[epoch:]version-release.arch strings are parsed back to their parts.

Oracle: by construction.  A case is the generating tuple; the string is
assembled from it, parsed by the real parse_nvra, and the parts compared.
Second monitor: canonical re-format + parse is a fixed point.  Third: the key
Rpms.add files the package under equals the canonical string (model-side
formatting, not the library's).
"""
from rv.gen import text
from rv.model import domains

PROPERTY = "C13"
LEVEL = "exploration"
RULE = ("cases = generating tuples (name segments, epoch spelling, version, release, arch, directory prefix, "
        ".rpm suffix) drawn from the quantifier's alphabets with stratified class forcing; a case is non-trivial "
        "when the name has >1 segment or a digit-only segment, or an epoch / prefix / suffix / dotted release is "
        "present; distinct by the generating tuple")
ASSUMPTIONS = ["CPython re engine and int() are trusted", "the harness's own copy of the architecture table "
               "(rv/model/domains.py) lists the documented architectures"]
REQUIRED_REACH = ["common.parse_nvra", "rpms.Rpms._check_nevra", "rpms.Rpms.add"]
REQUIRED_MONITORS = ["parts-equal", "fixed-point", "rpms-add-key"]

NAME_ALPHA = text.ALNUM + "._+"
VR_ALPHA = text.ALNUM + "._+~^"
CLASSES = ["epoch-absent", "epoch-zero", "epoch-one", "epoch-multi-digit", "epoch-leading-zeros", "epoch-huge",
           "name-single", "name-multi", "name-digit-segment", "name-last-segment-digits", "name-version-like-tail",
           "prefix-none", "prefix-plain", "prefix-dashed-dotted", "prefix-absolute", "prefix-with-colon", "dot-rpm-inside",
           "suffix-rpm", "suffix-none", "release-dotted", "release-dist-tag", "version-tilde-caret",
           "arch-src", "arch-noarch", "vr-edge-dots"]
CLASS_FLOORS = dict((c, 20) for c in CLASSES)
CLASS_FLOORS["arches-distinct"] = len(domains.RPM_ARCHES)


def plan(tier):
    if tier == "thorough":
        return {"shards": 16, "params": {"cases": 1250000, "budget_s": 1500, "reach_cap": 50}, "timeout_s": 3000}
    return {"shards": 4, "params": {"cases": 50000, "budget_s": 300, "reach_cap": 50}, "timeout_s": 900}


def gen_case(rng, force=None):
    c = {}
    # name
    nseg = rng.choice([1, 1, 2, 2, 3, 4, 5])
    if force == "name-single":
        nseg = 1
    elif force in ("name-multi", "name-digit-segment", "name-last-segment-digits", "name-version-like-tail"):
        nseg = max(nseg, 2)
    segs = []
    for i in range(nseg):
        if rng.random() < 0.2:
            segs.append(text.chars(rng, text.DIGITS, 1, 4))
        else:
            segs.append(text.chars(rng, NAME_ALPHA, 1, 8))
    if force == "name-digit-segment":
        segs[rng.randrange(len(segs))] = text.chars(rng, text.DIGITS, 1, 5)
    if force == "name-last-segment-digits":
        segs[-1] = text.chars(rng, text.DIGITS, 1, 3)
    if force == "name-version-like-tail":
        # the name itself ends in something that looks like "-1.2-3.el7"
        segs[-2:] = [rng.choice(["1.2", "0.9.8", "2", "10"]), rng.choice(["3.el7", "1", "0.1.rc1"])]
    c["name"] = "-".join(segs)
    # epoch
    e = rng.choice([None, None, "0", "1", "12", "007", "4294967296", str(rng.randint(0, 99999))])
    if force and force.startswith("epoch-"):
        e = {"epoch-absent": None, "epoch-zero": "0", "epoch-one": "1", "epoch-multi-digit": str(rng.randint(10, 9999)),
             "epoch-leading-zeros": "0" * rng.randint(1, 3) + str(rng.randint(0, 99)),
             "epoch-huge": str(rng.choice([2 ** 32, 2 ** 64 + 1, 10 ** 30]))}[force]
    c["epoch"] = e
    # version / release
    c["version"] = text.chars(rng, VR_ALPHA, 1, 8)
    c["release"] = text.chars(rng, VR_ALPHA, 1, 8)
    r = rng.random()
    if r < 0.3 or force == "release-dist-tag":
        c["release"] = "%d.%s" % (rng.randint(1, 300), rng.choice(["el7", "el7_9", "fc22", "el8+7", "module+el8.1.0+42"]))
    elif r < 0.5 or force == "release-dotted":
        c["release"] = ".".join(text.chars(rng, text.ALNUM, 1, 3) for _ in range(rng.randint(2, 4)))
    if force == "version-tilde-caret":
        c["version"] = rng.choice(["1.0~rc1", "2^git1", "0~^", "~", "^"]) + text.chars(rng, VR_ALPHA, 0, 3)
    if force == "vr-edge-dots":
        c["version"] = rng.choice([".", ".1", "1.", "..", "a."])
        c["release"] = rng.choice([".", ".1", "1.", "..", "a."])
    # arch
    c["arch"] = rng.choice(domains.RPM_ARCHES)
    if force == "arch-src":
        c["arch"] = rng.choice(["src", "nosrc"])
    elif force == "arch-noarch":
        c["arch"] = "noarch"
    # prefix
    p = rng.choice(["", "", "Packages/", "Server/x86_64/os/Packages/g/", "/mnt/compose-1.0/"])
    if force == "prefix-none":
        p = ""
    elif force == "prefix-plain":
        p = rng.choice(["Packages/", "a/b/c/"])
    elif force == "prefix-dashed-dotted":
        p = rng.choice(["Server-optional/x86_64/os-1.2/", "a-1-2.x/b.c-d/", "x-0:1-2.noarch/", "./a-b/../c.d/"])
    elif force == "prefix-absolute":
        p = rng.choice(["/", "/mnt/koji-1/packages/", "//x-1/"])
    elif force == "prefix-with-colon" or (force is None and rng.random() < 0.05):
        p = rng.choice(["http://host/dir/", "rsync://host:873/pkgs/", "buildhost:/srv/", "C:/rpms/", "/snap/2019-01-01T10:30:00/", "a:b/"])
    if force == "dot-rpm-inside" or (force is None and rng.random() < 0.04):
        # '.rpm' somewhere INSIDE the string (a name, a release tag, a directory) is ordinary text; only a trailing one is the
        # file name suffix
        where = rng.choice(["name", "release", "prefix", "version"])
        if where == "name":
            c["name"] = rng.choice(["python3.rpm-macros", "lib.rpmbuild", "x.rpm"]) + ("-" + c["name"] if rng.random() < 0.5 else "")
        elif where == "release":
            c["release"] = rng.choice(["3.rpmfusion", "1.rpm.el7", "0.rpm"])
        elif where == "version":
            c["version"] = rng.choice(["1.rpm2", "4.rpm"])
        else:
            p = rng.choice(["updates.rpms/", "repo.rpm/x/", "a-1-2.i686.rpm.d/"])
        c["dot_rpm_inside"] = True
    c["prefix"] = p
    s = rng.choice(["", ".rpm"])
    if force == "suffix-rpm":
        s = ".rpm"
    elif force == "suffix-none":
        s = ""
    c["suffix"] = s
    return c


def render(c):
    e = "" if c["epoch"] is None else c["epoch"] + ":"
    return "%s%s-%s%s-%s.%s%s" % (c["prefix"], c["name"], e, c["version"], c["release"], c["arch"], c["suffix"])


def canonical(c):
    return "%s-%d:%s-%s.%s" % (c["name"], int(c["epoch"] or 0), c["version"], c["release"], c["arch"])


def classify(c):
    out = []
    e = c["epoch"]
    if e is None:
        out.append("epoch-absent")
    elif e == "0":
        out.append("epoch-zero")
    elif e == "1":
        out.append("epoch-one")
    elif e.startswith("0"):
        out.append("epoch-leading-zeros")
    elif int(e) >= 2 ** 32:
        out.append("epoch-huge")
    else:
        out.append("epoch-multi-digit")
    segs = c["name"].split("-")
    out.append("name-single" if len(segs) == 1 else "name-multi")
    if any(s.isdigit() for s in segs):
        out.append("name-digit-segment")
    if len(segs) > 1 and segs[-1].isdigit():
        out.append("name-last-segment-digits")
    if len(segs) > 2 and segs[-2][:1].isdigit() and segs[-1][:1].isdigit():
        out.append("name-version-like-tail")
    if c.get("dot_rpm_inside"):
        out.append("dot-rpm-inside")
    p = c["prefix"]
    if ":" in p:
        out.append("prefix-with-colon")
    if not p:
        out.append("prefix-none")
    elif p.startswith("/"):
        out.append("prefix-absolute")
    elif "-" in p or "." in p:
        out.append("prefix-dashed-dotted")
    else:
        out.append("prefix-plain")
    out.append("suffix-rpm" if c["suffix"] else "suffix-none")
    if "." in c["release"]:
        out.append("release-dotted")
        if ".el" in c["release"] or ".fc" in c["release"]:
            out.append("release-dist-tag")
    if "~" in c["version"] or "^" in c["version"]:
        out.append("version-tilde-caret")
    if c["arch"] in ("src", "nosrc"):
        out.append("arch-src")
    if c["arch"] == "noarch":
        out.append("arch-noarch")
    if c["version"][:1] == "." or c["version"][-1:] == "." or c["release"][:1] == "." or c["release"][-1:] == ".":
        out.append("vr-edge-dots")
    return out


def nontrivial(c):
    return ("-" in c["name"] or c["epoch"] is not None or c["prefix"] or c["suffix"] or "." in c["release"])


def check_case(ctx, c, pm):
    parse_nvra = pm["parse_nvra"]
    s = render(c)
    want = {"name": c["name"], "epoch": int(c["epoch"] or 0), "version": c["version"],
            "release": c["release"], "arch": c["arch"]}
    # M1 parts equal
    try:
        got = parse_nvra(s)
    except Exception as e:
        got = "raised %s: %s" % (type(e).__name__, e)
    ok = isinstance(got, dict) and dict((k, got.get(k)) for k in want) == want and \
        isinstance(got.get("epoch"), int) and not isinstance(got.get("epoch"), bool)
    ctx.monitor("parts-equal", fired=not ok)
    if not ok:
        ctx.violation("parts-equal", "parse(name-[epoch:]version-release.arch) returns the generating parts",
                      {"case": c, "string": s}, observed=got, expected=want)
        return
    # the returned dict belongs to the caller: editing it must not change what a later parse of the same string returns
    try:
        got["epoch"] = None
        got["name"] = "edited-by-caller"
        again = parse_nvra(s)
    except Exception as e:
        again = "raised %s: %s" % (type(e).__name__, e)
    bad = not (isinstance(again, dict) and dict((k, again.get(k)) for k in want) == want)
    ctx.monitor("parse-independent-of-history", fired=bad)
    if bad:
        ctx.violation("parse-independent-of-history", "parsing returns exactly the parts of the string it is given, whatever was parsed "
                      "(or done with earlier results) before", {"case": c, "string": s}, observed=again, expected=want)
    # M2 fixed point of canonical re-format
    canon = canonical(c)
    try:
        got2 = parse_nvra(canon)
        re2 = "%s-%d:%s-%s.%s" % (got2["name"], got2["epoch"], got2["version"], got2["release"], got2["arch"])
    except Exception as e:
        got2, re2 = "raised %s: %s" % (type(e).__name__, e), None
    ok = (re2 == canon) and dict((k, got2.get(k)) for k in want) == want
    ctx.monitor("fixed-point", fired=not ok)
    if not ok:
        ctx.violation("fixed-point", "parse(canonical(parse(s))) == parse(s)", {"case": c, "string": canon},
                      observed=[got2, re2], expected=[want, canon])
    # M3 key produced by Rpms.add (needs an explicit epoch)
    if c["epoch"] is not None:
        Rpms = pm["Rpms"]
        r = Rpms()
        is_src = c["arch"] in ("src", "nosrc")
        srpm_c = dict(c, arch="src", name=c["name"])
        try:
            if is_src:
                r.add("V", "x86_64", s, "p/x.rpm", None, "source")
                key_srpm, key_rpm = canon, canon
            else:
                r.add("V", "x86_64", s, "p/x.rpm", None, "binary", render(srpm_c))
                key_srpm, key_rpm = canonical(srpm_c), canon
            cell = r.rpms["V"]["x86_64"]
            got3 = [sorted(cell.keys()), sorted(list(cell.values())[0].keys()) if cell else None]
        except Exception as e:
            got3 = "raised %s: %s" % (type(e).__name__, e)
            key_srpm = key_rpm = None
        want3 = [[key_srpm], [key_rpm]]
        ok = got3 == want3
        if ok and not is_src and len(s) % 3 == 0:
            # the same build under ANOTHER epoch is already registered in the cell (its source package first): the keys of
            # the new entry are still the canonical spelling of exactly what was passed
            ctx.count("rpms-add-next-to-other-epoch")
            other = dict(srpm_c, epoch=str(int(c["epoch"]) + rng_free_int(s) % 3 + 1))
            try:
                r2 = Rpms()
                r2.add("V", "x86_64", render(other), "p/other.src.rpm", None, "source")
                r2.add("V", "x86_64", s, "p/x.rpm", None, "binary", render(srpm_c))
                cell2 = r2.rpms["V"]["x86_64"]
                got3 = dict((k, sorted(v.keys())) for k, v in cell2.items())
            except Exception as e:
                got3 = "raised %s: %s" % (type(e).__name__, e)
            want3 = {canonical(other): [canonical(other)], key_srpm: [key_rpm]}
            ok = got3 == want3
        ctx.monitor("rpms-add-key", fired=not ok)
        if not ok:
            ctx.violation("rpms-add-key", "Rpms.add files the package under canonical name-epoch:version-release.arch",
                          {"case": c, "string": s}, observed=got3, expected=want3)


def rng_free_int(s):
    return sum(ord(ch) for ch in s)


def _pm():
    import productmd.common
    import productmd.rpms
    return {"parse_nvra": productmd.common.parse_nvra, "Rpms": productmd.rpms.Rpms}


def run_shard(ctx):
    pm = _pm()
    n = int(ctx.params.get("cases", 1000))
    arches = set()
    rng = ctx.rng(0)
    for i in range(n):
        if i % 256 == 0:
            if ctx.out_of_time():
                ctx.note("stopped_early_at", i)
                break
        force = CLASSES[(i // 2) % len(CLASSES)] if i % 2 == 0 else None
        c = gen_case(rng, force)
        for k in classify(c):
            ctx.count(k)
        arches.add(c["arch"])
        check_case(ctx, c, pm)
        ctx.case_done(c, nontrivial=bool(nontrivial(c)))
        if i < 3:
            ctx.sample({"case": c, "string": render(c)})
    ctx.count("arches-distinct", len(arches) if ctx.shard == 0 else 0)


def replay(ctx, case):
    c = case.get("case", case)
    check_case(ctx, c, _pm())
    ctx.case_done(c)
