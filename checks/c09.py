"""C09  Image identity is unique within a manifest.

Oracle: history + executable sequential model.  A pool of ~13 images is built
so that identity-equal pairs with equal checksums, identity-equal pairs with
different checksums, and pairs differing in EXACTLY ONE of the seven identity
attributes (each attribute in turn) all occur.  Histories of adds over 1-3
variants x 1-3 arches run against the real Images object and a 25-line
reference model in four header situations (manifest as constructed, header
version set to 1.0 / 1.1 / current before the first add).  After every call:
outcome == prediction (>= 1.1), snapshot of Images.images == model, invariant
walk; at the end the manifest is written and the written file reloaded.  The
same pools rendered as documents at header versions 1.0 / 1.1 / 1.2 must be
rejected at and above 1.1 when they contain a colliding pair.
identify_image is cross-checked three ways (object, serialised dict, model).

Later additions: `del manifest[variant]` inside the add histories (the model forgets the variant's cells; the same
object under two variants, one deleted, then the rival), a clean one-image document loaded INTO the non-empty manifest
(outcome not judged, the invariant is), and older documents that file source images under 'src'.
"""
import copy
import json
import random

from rv import fmt_images as F
from rv.model import domains

PROPERTY = "C09"
LEVEL = "exploration"
RULE = ("cases = (image pool, add history of 5-40 calls, header situation) and (pool, document version) pairs; distinct "
        "by case; a history is non-trivial when it contains both an accepted and a model-refused add, a document when it "
        "contains an identity-equal pair")
ASSUMPTIONS = ["the identity tuple is the seven attributes named in the property with defaults unified=False, additional_variants=[]",
               "below header version 1.1 add outcomes are recorded, not judged (the statement is about >= 1.1)"]
REQUIRED_REACH = ["images.Images.add", "images.identify_image", "images.Images.deserialize", "images.Images._add_1_1",
                  "images.Image.serialize"]
REQUIRED_MONITORS = ["add-outcome", "state-after-call", "invariant-no-colliding-pair", "written-file-reloads",
                     "document-collision-rejected", "identify-image-three-ways"]
# "format 1.1 or later" is a comparison of (major, minor) pairs: 2.0 and 1.10 are later than 1.1
SITUATIONS = ["constructed", "1.0", "1.1", "1.2", "2.0", "1.10", "10.0"]
DOC_VERSIONS = ("1.0", "1.1", "1.2", "2.0", "1.10")
CLASS_FLOORS = {"refused-add": 20, "accepted-add": 50, "collision-same-cell": 5, "collision-other-cell": 5,
                "equal-checksums-duplicate-accepted": 5, "doc-1.0-collision": 5, "doc-1.1-collision": 5, "doc-1.2-collision": 5,
                "doc-1.1-clean": 5, "doc-1.2-clean": 5, "situation-constructed": 10, "situation-1.0": 10, "situation-1.1": 10,
                "situation-1.2": 10, "same-object-readded": 5, "load-then-add-1.0": 5, "load-then-add-1.1": 5,
                "load-then-add-1.2": 5, "variant-deleted": 20, "doc-1.1-source-images-under-src": 10, "clean-document-loaded-into-non-empty-manifest": 20}
for a in domains.IDENTITY_ATTRS:
    CLASS_FLOORS["one-attr-differs-%s-accepted" % a] = 5


def plan(tier):
    if tier == "thorough":
        return {"shards": 16, "params": {"histories": 12000, "docs": 6000, "budget_s": 1500}, "timeout_s": 3000}
    return {"shards": 4, "params": {"histories": 500, "docs": 300, "budget_s": 300}, "timeout_s": 900}


def _pm():
    import productmd.images as m
    return m


def gen_pool(rng):
    base = F.gen_image_attrs(rng)
    base["unified"] = False
    base["additional_variants"] = []
    if rng.random() < 0.3:
        base["arch"] = rng.choice(["src", "nosrc"]) if rng.random() < 0.8 else "noarch"     # a source image (filed under binary arches)
    pool = []

    def variant(src, tag, **changes):
        a = copy.deepcopy(src)
        a.update(changes)
        if pool and rng.random() < 0.6:
            # the attributes that are NOT part of the identity differ freely between two listings
            a["disc_count"] = rng.choice([1, 2, 3, a["disc_number"], a["disc_count"] + 1])
            a["mtime"] = rng.randint(1, 2 ** 31)
            a["size"] = rng.randint(1, 2 ** 40)
            a["bootable"] = rng.random() < 0.5
            a["volume_id"] = rng.choice([None, "VOL-%d" % len(pool), a["volume_id"]])
            a["implant_md5"] = rng.choice([None, "%032x" % rng.getrandbits(128)])
        a["path"] = "%s/%s-%d.%s" % (rng.choice(["Server", "Client", "iso"]), tag, len(pool), a["format"])
        pool.append({"attrs": a, "tag": tag})
        return a

    def other_checksums():
        return F.gen_checksums(rng)
    variant(base, "base")
    variant(base, "same-identity-same-checksums")
    variant(base, "same-identity-different-checksums", checksums=other_checksums())
    variant(base, "diff-subvariant", subvariant=base["subvariant"] + "X", checksums=other_checksums())
    variant(base, "diff-type", type=rng.choice([t for t in domains.IMAGE_TYPES if t != base["type"]]), checksums=other_checksums())
    variant(base, "diff-format", format=rng.choice([t for t in domains.IMAGE_FORMATS if t != base["format"]]), checksums=other_checksums())
    variant(base, "diff-arch", arch=rng.choice([t for t in ["x86_64", "i386", "src", "aarch64"] if t != base["arch"]]), checksums=other_checksums())
    variant(base, "diff-disc_number", disc_number=base["disc_number"] + 1, checksums=other_checksums())
    variant(base, "diff-unified", unified=True, additional_variants=[], checksums=other_checksums())
    bu = variant(base, "unified-base", unified=True, additional_variants=["Server"], checksums=other_checksums())
    variant(bu, "diff-additional_variants", additional_variants=rng.choice([["Client"], ["Server", "Client"], ["Client", "Server"]]),
            checksums=other_checksums())
    variant(bu, "unified-same-identity-different-checksums", checksums=other_checksums())
    other = F.gen_image_attrs(rng)
    if F.model_identity(other) in [F.model_identity(p["attrs"]) for p in pool]:
        other["subvariant"] += "Q"
    variant(other, "other")
    variant(other, "other-same-identity-different-checksums", checksums=other_checksums())
    # a rival of the base image that also carries the base image's PATH (a second listing of 'the same file' that
    # disagrees on the checksums)
    r = variant(base, "same-identity-different-checksums-same-path", checksums=other_checksums())
    r["path"] = pool[0]["attrs"]["path"]
    return pool


def gen_history(rng):
    pool = gen_pool(rng)
    variants = rng.sample(["Server", "Client", "Workstation"], rng.randint(1, 3))
    arches = rng.sample(["x86_64", "i386", "aarch64"], rng.randint(1, 3))
    ops = []
    n = rng.randint(5, 40)
    for _ in range(n):
        ops.append([rng.choice(variants), rng.choice(arches), rng.randrange(len(pool))])
    # make sure the interesting pairs meet: base first, then its rivals, sometimes in the same cell
    if rng.random() < 0.7:
        cell = [rng.choice(variants), rng.choice(arches)]
        lead = [cell + [0]]
        for idx in rng.sample(range(1, len(pool)), rng.randint(2, 6)):
            c = cell if rng.random() < 0.5 else [rng.choice(variants), rng.choice(arches)]
            lead.append(list(c) + [idx])
        ops = lead + ops
    # `del manifest[variant]` is public API too: the rule is about what the manifest HOLDS, so an image removed with its
    # variant no longer blocks its rival - and an image object that is also filed under another variant still does
    if rng.random() < 0.5:
        for _ in range(rng.randint(1, 3)):
            ops.insert(rng.randrange(len(ops) // 3, len(ops) + 1), [rng.choice(variants), None, "del"])
        if rng.random() < 0.6:
            # the same object under two variants, one of them deleted, then the rival
            v1 = variants[0]
            v2 = variants[-1]
            a = arches[0]
            j, rv = rng.choice([(0, 2), (2, 0), (9, 11), (12, 13)])
            tail = [[v1, a, j], [v2, a, j], [v1, None, "del"], [v2 if v1 != v2 else v1, a, rv], [v1, a, rv]]
            ops = ops + tail
    return {"pool": pool, "ops": ops, "situation": None}


class Model(object):
    def __init__(self, pool, gated):
        self.pool = pool
        self.gated = gated
        self.cells = {}

    def collides(self, idx):
        a = self.pool[idx]["attrs"]
        ident = F.model_identity(a)
        for cell, members in self.cells.items():
            for j in members:
                b = self.pool[j]["attrs"]
                if F.model_identity(b) == ident and b["checksums"] != a["checksums"]:
                    return cell, j
        return None

    def add(self, variant, arch, idx):
        if self.gated:
            hit = self.collides(idx)
            if hit is not None:
                return "refuse", hit
        self.cells.setdefault((variant, arch), set()).add(idx)
        return "accept", None

    def colliding_pairs(self):
        items = [(cell, j) for cell, ms in self.cells.items() for j in ms]
        out = []
        for x in range(len(items)):
            for y in range(x + 1, len(items)):
                a, b = self.pool[items[x][1]]["attrs"], self.pool[items[y][1]]["attrs"]
                if F.model_identity(a) == F.model_identity(b) and a["checksums"] != b["checksums"]:
                    out.append((items[x], items[y]))
        return out


def snapshot(im, objs):
    """Images.images as {(variant, arch): set(pool index)} via object identity."""
    back = dict((id(o), i) for i, o in enumerate(objs))
    out = {}
    for v, arches in im.images.items():
        if not arches:
            out[(v, None)] = set()          # an empty variant table is structure too
        for a, cell in arches.items():
            out[(v, a)] = set(back.get(id(o), "foreign:%r" % (o,)) for o in cell)
    return out


def walk_invariant(im):
    """Independent invariant walk over the real table: identity from public attributes."""
    seen = []
    bad = []
    for v, arches in im.images.items():
        for a, cell in arches.items():
            for o in cell:
                ident = F.model_identity(F.observe_image(o))
                for (v2, a2, o2, ident2) in seen:
                    if ident2 == ident and o2.checksums != o.checksums:
                        bad.append("%s/%s:%s vs %s/%s:%s" % (v2, a2, o2.path, v, a, o.path))
                seen.append((v, a, o, ident))
    return bad


def cells_json(cells):
    return dict(("%s/%s" % k, sorted(v, key=str)) for k, v in sorted(cells.items(), key=lambda kv: (kv[0][0], str(kv[0][1]))))


def check_history(ctx, pm, H):
    sit = H["situation"]
    ctx.count("situation-" + sit)
    pool = H["pool"]
    im = pm.Images()
    F.fill_compose(im.compose, {"id": "X-1-20200101.0", "type": "production", "date": "20200101", "respin": 0, "label": None, "final": False})
    if sit != "constructed":
        im.header.version = sit
    gated = sit != "1.0"
    objs = [F.make_image(pm, im, p["attrs"]) for p in pool]
    model = Model(pool, gated)
    acc = ref = 0
    tainted = False     # an add the model refuses was accepted (reported once by add-outcome)
    for step, (variant, arch, idx) in enumerate(H["ops"]):
        before = snapshot(im, objs)
        if idx == "del":
            if not any(k[0] == variant for k in before):
                continue
            ctx.count("variant-deleted")
            case = {"pool": pool, "ops": H["ops"][:step + 1], "situation": sit, "step": step}
            try:
                del im[variant]
                problem = None
            except Exception as e:
                problem = "%s: %s" % (type(e).__name__, e)
            for k in [k for k in model.cells if k[0] == variant]:
                del model.cells[k]
            after = snapshot(im, objs)
            expect = dict((k, v) for k, v in before.items() if k[0] != variant)
            bad = problem is not None or after != expect
            ctx.monitor("state-after-call", fired=bad)
            if bad:
                ctx.violation("state-after-call", "deleting a variant removes exactly its cells", case, observed=problem or cells_json(after),
                              expected=cells_json(expect))
            continue
        already = idx in model.cells.get((variant, arch), set())
        verdict, hit = model.add(variant, arch, idx)
        try:
            im.add(variant, arch, objs[idx])
            got, exc = "accept", None
        except ValueError as e:
            got, exc = "refuse", e
        except Exception as e:
            got, exc = "refuse-other", e
        after = snapshot(im, objs)
        case = {"pool": pool, "ops": H["ops"][:step + 1], "situation": sit, "step": step}
        if gated:
            bad = got != verdict
            ctx.monitor("add-outcome", fired=bad)
            if bad:
                ctx.violation("add-outcome",
                              "an add that would put two identity-equal images with different checksums into the manifest raises "
                              "ValueError; any other add is accepted", case,
                              observed="%s%s" % (got, " (%s: %s)" % (type(exc).__name__, str(exc)[:120]) if exc else ""),
                              expected="%s%s" % (verdict, " (collides with %s in %s)" % (pool[hit[1]]["tag"], "/".join(hit[0])) if hit else ""),
                              key=classify_add(sit, pool, idx, verdict, got))
        if verdict == "refuse":
            ctx.count("refused-add")
            ctx.count("collision-same-cell" if hit[0] == (variant, arch) else "collision-other-cell")
        else:
            ctx.count("accepted-add")
            if already:
                ctx.count("same-object-readded")
            tag = pool[idx]["tag"]
            if tag.startswith("diff-") and got == "accept" and any(0 in m or 9 in m for m in model.cells.values()):
                ctx.count("one-attr-differs-%s-accepted" % tag[5:])
            if tag == "same-identity-same-checksums" and any(0 in m for m in model.cells.values()):
                ctx.count("equal-checksums-duplicate-accepted")
        # state
        if got == "accept":
            expect = dict((k, set(v)) for k, v in before.items())
            expect.setdefault((variant, arch), set()).add(idx)
            acc += 1
        else:
            expect = before
            ref += 1
        bad = after != expect
        ctx.monitor("state-after-call", fired=bad)
        if bad:
            ctx.violation("state-after-call", "a refused add leaves the manifest as it was; an accepted add files exactly that image in that cell",
                          case, observed=cells_json(after), expected=cells_json(expect))
        if got == "accept" and verdict == "refuse":
            model.cells.setdefault((variant, arch), set()).add(idx)      # stay comparable
        if got != "accept" and verdict == "accept":
            model.cells[(variant, arch)].discard(idx) if not already else None
        if gated:
            pairs = walk_invariant(im)
            ctx.monitor("invariant-no-colliding-pair", fired=bool(pairs))
            if got == "accept" and verdict == "refuse":
                tainted = True
            if pairs and not tainted:
                ctx.violation("invariant-no-colliding-pair", "no two images equal on the seven identity attributes have different checksums",
                              case, observed=pairs[:4], expected="none")
    # an Image OBJECT this manifest accepted is then offered to ANOTHER manifest (same header situation) that holds its
    # rival: the second manifest's rule is about the second manifest
    filed = sorted(set(j for ms in model.cells.values() for j in ms))
    rivals = {0: 2, 2: 0, 9: 11, 11: 9, 12: 13, 13: 12, 1: 2, 14: 0}
    cands = [j for j in filed if j in rivals]
    if gated and cands and not tainted:
        j = cands[len(H["ops"]) % len(cands)]
        other = pm.Images()
        F.fill_compose(other.compose, {"id": "Y-1-20200101.0", "type": "production", "date": "20200101", "respin": 0, "label": None, "final": False})
        if sit != "constructed":
            other.header.version = sit
        case2 = {"pool": pool, "ops": H["ops"], "situation": sit, "second_manifest": {"holds": rivals[j], "offered": j}}
        try:
            other.add("Server", "x86_64", F.make_image(pm, other, pool[rivals[j]]["attrs"]))
            try:
                other.add("Server", "x86_64", objs[j])
                got2 = "accept"
            except ValueError:
                got2 = "refuse"
            ctx.count("object-offered-to-second-manifest")
            bad = got2 != "refuse"
            ctx.monitor("add-outcome", fired=bad)
            if bad:
                ctx.violation("add-outcome", "an add that would put two identity-equal images with different checksums into the manifest raises "
                              "ValueError - also when the image object was accepted by another manifest before", case2, observed=got2,
                              expected="refuse (the second manifest holds %s)" % pool[rivals[j]]["tag"])
        except Exception as e:
            ctx.note_add("second_manifest_case_skipped")
    # the written file is always current-version and must itself satisfy the rule
    case = {"pool": pool, "ops": H["ops"], "situation": sit, "step": len(H["ops"])}
    load_into = None
    if gated and cands and not tainted:
        load_into = (cands[(len(H["ops"]) // 2) % len(cands)], im.header.version)
    try:
        textout = im.dumps()
    except Exception as e:
        textout = None
        ctx.note_add("final_dump_refused")
    if textout is not None:
        collisions = model.colliding_pairs()
        try:
            im2 = pm.Images()
            im2.loads(textout)
            cells, _c, _p = F.observe(im2)
            got = dict((k, sorted(v)) for k, v in cells.items() if v)
            problem = None
        except Exception as e:
            got, problem = None, "%s: %s" % (type(e).__name__, str(e)[:200])
        want = {}
        for cell, members in model.cells.items():
            if members:
                want[cell] = sorted(pool[j]["attrs"]["path"] for j in members)
        bad = problem is not None or got != want
        ctx.monitor("written-file-reloads", fired=bad)
        if bad:
            key = None
            if problem is not None and collisions and sit == "1.0":
                key = "pre-1.1-identity-collision-carried-over"
            if problem is not None and collisions and sit == "constructed":
                key = "fresh-images-skips-identity-check"
            ctx.violation("written-file-reloads", "the manifest produced by the add history can be written and the written (current-version) "
                          "file loads back with the same images", case, observed=problem or cells_json(got), expected=cells_json(want), key=key)
    # "whatever sequence of add calls or loaded file produced the manifest": a clean document is loaded INTO this non-empty
    # manifest; it carries one image that rivals an image already filed.  Whether the load is refused or merges is not
    # judged - the manifest afterwards is (no colliding pair).
    if load_into is not None and textout is not None:
        j, ver = load_into
        doc = render_doc(pool, [["Server", "x86_64", rivals[j]]], "1.2")
        case3 = {"pool": pool, "ops": H["ops"], "situation": sit, "then_loaded_into_it": doc["payload"]["images"]}
        try:
            im.loads(json.dumps(doc))
            got3 = "loaded"
        except Exception as e:
            got3 = "rejected (%s)" % type(e).__name__
        ctx.count("clean-document-loaded-into-non-empty-manifest")
        if im.header.version_tuple >= (1, 1):
            pairs = walk_invariant(im)
            ctx.monitor("invariant-no-colliding-pair", fired=bool(pairs))
            if pairs:
                ctx.violation("invariant-no-colliding-pair", "no two images equal on the seven identity attributes have different checksums - "
                              "whatever sequence of add calls and loaded files produced the manifest", case3,
                              observed={"load": got3, "pairs": pairs[:4]}, expected="none")
    return acc, ref


def classify_add(sit, pool, idx, verdict, got):
    if sit == "constructed" and verdict == "refuse" and got == "accept":
        return "fresh-images-skips-identity-check"
    return None


# ---- documents --------------------------------------------------------------

def render_doc(pool, placement, version):
    images = {}
    for (variant, arch, idx) in placement:
        a = pool[idx]["attrs"]
        d = dict((k, a[k]) for k in F.ATTRS if k not in ("unified", "additional_variants"))
        if a["unified"]:
            d["unified"] = True
            d["additional_variants"] = a["additional_variants"]
        images.setdefault(variant, {}).setdefault(arch, []).append(d)
    hdr = {"version": version}
    if version != "1.0":
        hdr["type"] = "productmd.images"
    return {"header": hdr, "payload": {"compose": {"id": "X-1-20200101.0", "type": "production", "date": "20200101", "respin": 0},
                                       "images": images}}


def check_document(ctx, pm, Dc):
    pool, placement, version = Dc["pool"], Dc["placement"], Dc["version"]
    m = Model(pool, False)
    seen = set()
    for v, a, i in placement:
        m.cells.setdefault((v, a), set()).add(i)
    collide = bool(m.colliding_pairs())
    ctx.count("doc-%s-%s" % (version, "collision" if collide else "clean"))
    doc = render_doc(pool, placement, version)
    if len(placement) % 2 == 0 and not Dc.get("keep_key_order"):
        from rv import formats as _formats
        doc = _formats.shuffle_keys(doc, random.Random(len(json.dumps(doc))))
    try:
        im = pm.Images()
        im.loads(json.dumps(doc))
        got = "loaded"
    except Exception as e:
        got = "rejected (%s)" % type(e).__name__
    if version != "1.0":
        bad = collide and got == "loaded"
        ctx.monitor("document-collision-rejected", fired=bad)
        if bad:
            ctx.violation("document-collision-rejected", "a >= 1.1 document containing a colliding pair is rejected on load",
                          Dc, observed=got, expected="rejected")
        if not collide:
            bad = got != "loaded"
            ctx.monitor("document-clean-accepted", fired=bad)
            if bad:
                ctx.violation("document-clean-accepted", "a document whose identity-equal images all have equal checksums loads", Dc,
                              observed=got, expected="loaded")
    else:
        ctx.note_add("doc_1.0_collision_" + ("accepted" if got == "loaded" else "rejected") if collide else "doc_1.0_clean")
    return collide


def check_load_then_add(ctx, pm, Dc, extra_ops):
    """A manifest produced by a LOADED file and then by further adds: after the load the manifest is at the current
    version, so every further add is gated; the model starts from the loaded placement."""
    pool, placement, version = Dc["pool"], Dc["placement"], Dc["version"]
    doc = render_doc(pool, placement, version)
    try:
        im = pm.Images()
        im.loads(json.dumps(doc))
    except Exception:
        return False
    # map loaded images back to pool entries by (path, checksums): two listings may share a path
    model = Model(pool, True)

    def ident(path, checksums):
        return (path, tuple(sorted(checksums.items())))
    by_path = dict((ident(p["attrs"]["path"], p["attrs"]["checksums"]), i) for i, p in enumerate(pool))
    objs = {}
    for v, arches in im.images.items():
        for a, cell in arches.items():
            for o in cell:
                j = by_path.get(ident(o.path, o.checksums))
                if j is None:
                    return False
                model.cells.setdefault((v, a), set()).add(j)
                objs.setdefault(j, o)
    loaded_collisions = bool(model.colliding_pairs())
    ctx.count("load-then-add-%s" % version)
    for step, (variant, arch, idx) in enumerate(extra_ops):
        if idx not in objs:
            objs[idx] = F.make_image(pm, im, pool[idx]["attrs"])
        verdict, hit = model.add(variant, arch, idx)
        before = dict((k, set(ident(x.path, x.checksums) for x in c)) for k, c in ((k2, im.images[k2[0]][k2[1]]) for k2 in
                                                                [(v, a) for v in im.images for a in im.images[v]]))
        try:
            im.add(variant, arch, objs[idx])
            got = "accept"
        except ValueError:
            got = "refuse"
        except Exception as e:
            got = "refuse-other:%s" % type(e).__name__
        after = dict((k, set(ident(x.path, x.checksums) for x in c)) for k, c in ((k2, im.images[k2[0]][k2[1]]) for k2 in
                                                               [(v, a) for v in im.images for a in im.images[v]]))
        case = dict(Dc, extra_ops=extra_ops[:step + 1])
        if not loaded_collisions:
            bad = got != verdict
            ctx.monitor("add-outcome-after-load", fired=bad)
            if bad:
                ctx.violation("add-outcome-after-load", "whatever sequence of loaded file and add calls produced the manifest, an add that would "
                              "create a colliding pair raises ValueError and any other add is accepted", case, observed=got,
                              expected="%s%s" % (verdict, " (collides with %s)" % pool[hit[1]]["tag"] if hit else ""))
                return True
        if got != "accept":
            bad = after != before
            ctx.monitor("state-after-call", fired=bad)
            if bad:
                ctx.violation("state-after-call", "a refused add leaves the manifest as it was", case, observed="changed", expected="unchanged")
            if verdict == "accept":
                model.cells[(variant, arch)].discard(idx)
        elif verdict == "refuse":
            model.cells.setdefault((variant, arch), set()).add(idx)
    return True


def check_identify(ctx, pm, pool):
    for p in pool:
        a = p["attrs"]
        holder = pm.Images()
        img = F.make_image(pm, holder, a)
        want = F.model_identity(a)
        ser = []
        try:
            img.serialize(ser)
            i_obj = pm.identify_image(img)
            i_dict = pm.identify_image(ser[0])
            norm = lambda t: (t.subvariant, t.type, t.format, t.arch, t.disc_number, t.unified, tuple(t.additional_variants))
            got = [norm(i_obj), norm(i_dict)]
            same = i_obj == i_dict
        except Exception as e:
            got, same = "raised %s: %s" % (type(e).__name__, e), False
        bad = not same or got != [want, want]
        ctx.monitor("identify-image-three-ways", fired=bad)
        if bad:
            ctx.violation("identify-image-three-ways", "identify_image(object) == identify_image(serialised dict) == the seven documented attributes",
                          {"attrs": a}, observed=got, expected=[want, want])


def run_shard(ctx):
    pm = _pm()
    n = int(ctx.params.get("histories", 100))
    rng = ctx.rng(0)
    t_histories = ctx.time_left() * 0.45        # the document phase below must get its share of the budget
    for i in range(n):
        if i % 16 == 0 and (ctx.out_of_time() or ctx.time_left() < t_histories):
            ctx.note("stopped_early_at", i)
            break
        H = gen_history(rng)
        if i % 8 == 0:
            check_identify(ctx, pm, H["pool"])
        for sit in SITUATIONS:
            Hs = dict(H, situation=sit)
            acc, ref = check_history(ctx, pm, Hs)
            ctx.note_add("add_calls", len(H["ops"]))
            ctx.case_done({"ops": H["ops"], "sit": sit, "p": [p["attrs"]["checksums"] for p in H["pool"][:3]]},
                          nontrivial=acc > 0 and (ref > 0 or sit == "1.0"))
        if i == 0:
            ctx.sample({"pool_tags": [p["tag"] for p in H["pool"]], "ops": H["ops"][:8], "situations": SITUATIONS,
                        "pool_first": H["pool"][0]["attrs"]})
    rng = ctx.rng(1)
    m = int(ctx.params.get("docs", 100))
    for i in range(m):
        if i % 32 == 0 and ctx.out_of_time():
            break
        pool = gen_pool(rng)
        variants = rng.sample(["Server", "Client", "Workstation"], rng.randint(1, 3))
        arches = rng.sample(["x86_64", "i386", "aarch64"], rng.randint(1, 3))
        k = rng.randint(1, 6)
        idxs = rng.sample(range(len(pool)), k)
        if i % 2 == 0:
            # clean: drop the rivals with different checksums
            idxs = [j for j in idxs if "different-checksums" not in pool[j]["tag"]] or [0, 1]
            if 0 in idxs and 1 not in idxs and i % 4 == 0:
                idxs.append(1)
        else:
            pair = rng.choice([(0, 2), (9, 11), (12, 13), (0, 14), (0, 14)])
            idxs = list(set(idxs) | set(pair))
        placement = []
        used = {}
        for j in idxs:
            cell = (rng.choice(variants), rng.choice(arches))
            placement.append([cell[0], cell[1], j])
        for version in DOC_VERSIONS:
            Dc = {"pool": pool, "placement": placement, "version": version}
            if i % 2 == 0:
                extra = [[rng.choice(variants), rng.choice(arches), rng.randrange(len(pool))] for _ in range(rng.randint(2, 8))]
                rival = {0: 2, 9: 11, 12: 13}
                for (v0, a0, j0) in placement:
                    if j0 in rival:
                        extra.insert(rng.randrange(len(extra) + 1), [rng.choice(variants), rng.choice(arches), rival[j0]])
                check_load_then_add(ctx, pm, Dc, extra)
            collide = check_document(ctx, pm, Dc)
            ctx.case_done({"doc": placement, "v": version, "p": pool[0]["attrs"]["checksums"]}, nontrivial=collide or len(idxs) > 1)
            if version in ("1.0", "1.1") and len(placement) > 1:
                # older documents file source images under 'src' (listed FIRST here); the reader re-files them under the
                # binary architectures of the same variant - a colliding pair stays a colliding pair
                pair_members = [k0 for k0, p0 in enumerate(placement) if "different-checksums" in pool[p0[2]]["tag"] or p0[2] in (0, 9, 12)]
                k = rng.choice(pair_members or list(range(len(placement))))
                v0 = placement[k][0]
                if any(j != k and p0[0] == v0 for j, p0 in enumerate(placement)):
                    sp = [list(p0) for p0 in placement]
                    sp[k][1] = "src"
                    sp.insert(0, sp.pop(k))
                    Ds = {"pool": pool, "placement": sp, "version": version, "keep_key_order": True}
                    ctx.count("doc-%s-source-images-under-src" % version)
                    check_document(ctx, pm, Ds)
                if i % 2 == 1:
                    # both members of the colliding pair are source images of one variant ('src' is its first key)
                    other = [j for j in range(len(pool)) if j not in pair and "different-checksums" not in pool[j]["tag"]]
                    v0 = variants[0]
                    sp = [[v0, "src", pair[0]], [v0, "src", pair[1]], [v0, rng.choice(["x86_64", "i386"]), other[0] if other else pair[0]]]
                    check_document(ctx, pm, {"pool": pool, "placement": sp, "version": version, "keep_key_order": True})
                    ctx.count("doc-%s-colliding-pair-both-under-src" % version)
        if i == 1:
            ctx.sample({"document": render_doc(pool, placement[:2], "1.1")})


def replay(ctx, case):
    pm = _pm()
    if "extra_ops" in case:
        check_load_then_add(ctx, pm, case, case["extra_ops"])
    elif "placement" in case:
        check_document(ctx, pm, case)
    elif "attrs" in case:
        check_identify(ctx, pm, [{"attrs": case["attrs"], "tag": "replay"}])
    else:
        check_history(ctx, pm, {"pool": case["pool"], "ops": [tuple(o) for o in case["ops"]], "situation": case["situation"]})
    ctx.case_done(case)
