"""C18  A dump that fails validation leaves the destination file untouched.

Fault enumeration.  For each of the seven formats and a set of valid objects
(the generators of C01-C04: deep forests, multi-cell manifests, trees with
images/stage2/media/checksums): the object is written to `path` (good copy),
one more dump is TRACED to enumerate the dynamic sequence of validator
activations v_1 .. v_n (every _validate* method of every MetadataBase subclass
is wrapped from outside, rv/instr.ValidatorTrace), and then for EVERY i the
good copy is re-created and the dump repeated with a failpoint raising at v_i -
one injected failure at a time, complete per object.  The same is done with
real invalid values from C06's table at random positions, with the destination
pre-existing and absent, and for TreeInfo with and without main_variant.

Oracle: bytes and existence of `path` before/after the failing call; the
directory listing (no stray files); and the audit-hook log of `open` events -
no write-open of `path` may occur inside a dump call that ends in an
exception.  A sample is repeated under strace (openat/creat/rename/unlink/
truncate), an OS-level log that cannot be bypassed from Python.
"""
import os
import random
import shutil
import subprocess
import sys

from rv import corrupt, formats, instr
from rv import fmt_treeinfo as FT
from rv.ctx import jsonable

PROPERTY = "C18"
LEVEL = "fault_enumeration"
RULE = ("fault points = every validator activation v_1..v_n of one dump of each sampled object (complete per object, one injected "
        "failure at a time) plus real invalid values from the C06 table at random positions; each executed with the destination "
        "pre-existing (good copy) or absent; distinct by (object, fault point, destination state); every case is a failing dump and "
        "is non-trivial when the fault fires after the top-level validation (i.e. inside a nested writer) or a good copy exists")
ASSUMPTIONS = ["validator activations are the points at which validation can fail (introspected, so new validators are picked up)",
               "an injected failure raises a ValueError subclass at the activation point",
               "the audit hook sees every open() made through Python; the strace sample covers what it cannot"]
REQUIRED_REACH = ["common.MetadataBase.dump", "treeinfo.TreeInfo.dump", "common.open_file_obj"]
REQUIRED_MONITORS = ["odd-value", "destination-bytes-unchanged", "no-write-open-in-failing-dump", "no-stray-files", "real-invalid-value"]
CLASS_FLOORS_EXTRA = {"odd-value-dump-failed": 50, "previous-file-over-1MiB": 10, "dest-name-tmp-suffix": 50}
CLASS_FLOORS = {"preexisting": 50, "absent": 50, "fault-in-nested-writer": 50, "fault-in-top-level-validate": 5, "treeinfo-main-variant": 5,
                "real-invalid-value": 30}
for _f in formats.FORMATS:
    CLASS_FLOORS["fmt-" + _f] = 10
CLASS_FLOORS.update(CLASS_FLOORS_EXTRA)


def plan(tier):
    if tier == "thorough":
        return {"shards": 16, "params": {"objects": 900, "values": 4000, "strace_cases": 60, "budget_s": 2000, "audit": True, "vtrace": True},
                "timeout_s": 3600}
    return {"shards": 4, "params": {"objects": 42, "values": 200, "strace_cases": 8, "budget_s": 300, "audit": True, "vtrace": True},
            "timeout_s": 900}


DEST_NAMES = ["dest", "dest", "metadata.json.tmp", "dest", ".treeinfo.tmp", "dest.json", "dest", "rpms.json.new", "x.tmp"]
PADDINGS = [0] * 14 + [1024 ** 2 + 17, 0, 0, 0, 0, 0, 0, 0, 0, 0, 0, 0, 0, 0, 0, 4 * 1024 ** 2 + 1]


def do_dump(obj, fmt, path, main_variant):
    if fmt == "treeinfo" and main_variant is not None:
        obj.dump(path, main_variant=main_variant)
    else:
        obj.dump(path)


def listing(d):
    return sorted(os.listdir(d))


def failing_dump(ctx, obj, fmt, case, workdir, good_bytes, preexisting, main_variant, arm, disarm, monitor_prefix="",
                 violation_key="dump-opens-destination-before-serialising"):
    """Runs one dump that is expected to fail; checks the destination afterwards.
    arm()/disarm() switch the fault on/off.  Returns 'failed' | 'succeeded'."""
    # the destination's NAME and the SIZE of what it holds are the caller's business
    ctx._c18_n = getattr(ctx, "_c18_n", 0) + 1
    dest_name = case.get("dest_name") or DEST_NAMES[ctx._c18_n % len(DEST_NAMES)]
    case["dest_name"] = dest_name
    dest = os.path.join(workdir, dest_name)
    for name in os.listdir(workdir):
        os.unlink(os.path.join(workdir, name))
    pad = case.get("previous_padding")
    if pad is None:
        pad = PADDINGS[(ctx._c18_n // 3) % len(PADDINGS)] if preexisting else 0
        case["previous_padding"] = pad
    if pad:
        good_bytes = good_bytes + b"\n" + (b"# an earlier, larger state of this file ...............................\n" * (pad // 70 + 1))
        ctx.count("previous-file-over-1MiB")
    if dest_name != "dest":
        ctx.count("dest-name-" + ("tmp-suffix" if dest_name.endswith(".tmp") else "other"))
    if preexisting:
        # the good copy is a plain file, or shared with an older compose: reached through a symbolic link / a second hard link
        kind = case.get("dest_kind")
        if kind is None:
            ctx._c18_kinds = getattr(ctx, "_c18_kinds", 0) + 1
            kind = ("regular", "symlink", "regular", "hardlink")[ctx._c18_kinds % 4]
            case["dest_kind"] = kind
        ctx.count("dest-" + kind)
        first = dest if kind == "regular" else os.path.join(workdir, "older-compose-copy")
        with open(first, "wb") as f:
            f.write(good_bytes)
        if kind == "symlink":
            os.symlink("older-compose-copy", dest)
        elif kind == "hardlink":
            os.link(first, dest)
    before_list = listing(workdir)
    audit = ctx.audit
    if audit is not None:
        audit.begin(workdir)
    # how the caller SPELLS the destination is its business too: a str, a pathlib.Path, the file-system encoding of the path
    spelling = case.get("dest_spelling")
    if spelling is None:
        spelling = ("str", "str", "pathlib", "str", "bytes", "str", "relative")[ctx._c18_n % 7]
        case["dest_spelling"] = spelling
    ctx.count("dest-spelled-" + spelling)
    dest_arg = dest
    cwd = None
    if spelling == "pathlib":
        import pathlib
        dest_arg = pathlib.Path(dest)
    elif spelling == "bytes":
        dest_arg = os.fsencode(dest)
    elif spelling == "relative":
        cwd = os.getcwd()
        os.chdir(workdir)
        dest_arg = os.path.join(".", dest_name)
    arm()
    try:
        try:
            do_dump(obj, fmt, dest_arg, main_variant)
        finally:
            if cwd is not None:
                os.chdir(cwd)
        outcome, exc = "succeeded", None
    except Exception as e:
        outcome, exc = "failed", e
    finally:
        disarm()
        events = audit.end() if audit is not None else []
    if outcome == "succeeded":
        return outcome
    ctx.count("preexisting" if preexisting else "absent")
    # bytes / existence
    probs = []
    if preexisting:
        try:
            with open(dest, "rb") as f:
                now = f.read()
            if now != good_bytes:
                probs.append("the good copy (%d bytes) now has %d bytes" % (len(good_bytes), len(now)))
            if case.get("dest_kind") in ("symlink", "hardlink"):
                with open(os.path.join(workdir, "older-compose-copy"), "rb") as f:
                    if f.read() != good_bytes:
                        probs.append("the file the destination is linked to was changed")
                if case["dest_kind"] == "symlink" and not os.path.islink(dest):
                    probs.append("the destination is no longer the link it was")
        except OSError as e:
            probs.append("the good copy is gone: %s" % e)
    elif os.path.lexists(dest):
        probs.append("a file of %d bytes was created although none existed" % os.lstat(dest).st_size)
    ctx.monitor("destination-bytes-unchanged", fired=bool(probs))
    if probs:
        ctx.violation("destination-bytes-unchanged", "after a dump that raised, the destination is byte for byte what it was (and absent if it was absent)",
                      case, observed=probs + ["%s: %s" % (type(exc).__name__, str(exc)[:120])], expected="untouched",
                      key=violation_key)
    stray = [n for n in listing(workdir) if n not in before_list and n != dest_name]
    ctx.monitor("no-stray-files", fired=bool(stray))
    if stray:
        ctx.violation("no-stray-files", "a failed dump leaves no stray files next to the destination", case, observed=stray, expected=[])
    if audit is not None:
        # only opens that truncate or create count (mode w/x, O_TRUNC, O_CREAT): they destroy the good copy / create a file
        # even if a later step restores it; append/update opens that leave the bytes alone are not judged
        def destructive(e):
            mode, flags = e[2] or "", e[3] or 0
            if "w" in mode or "x" in mode:
                return True
            if flags & os.O_TRUNC:
                return True
            if (flags & os.O_CREAT or "a" in mode) and not preexisting:
                return True
            return False
        w = [(e[1], e[2]) for e in events if e[4] and destructive(e) and os.path.abspath(e[1]) == os.path.abspath(dest)]
        ctx.monitor("no-write-open-in-failing-dump", fired=bool(w))
        if w:
            ctx.violation("no-write-open-in-failing-dump", "the destination is not opened for writing inside a dump call that ends in an exception",
                          case, observed=[list(x) for x in w[:3]], expected="no write-open event",
                          key=violation_key)
    return outcome


def check_object(ctx, pms, fmt, D, order_seed, workdir, rng, main_variant=None, sample_every=1):
    tr = ctx.vtrace
    obj = formats.build(pms, fmt, D, order_seed)
    good = os.path.join(workdir, "dest")
    for name in os.listdir(workdir):
        os.unlink(os.path.join(workdir, name))
    do_dump(obj, fmt, good, main_variant)
    with open(good, "rb") as f:
        good_bytes = f.read()
    # 1. trace the validator activations of one dump
    tr.begin("trace")
    try:
        do_dump(obj, fmt, good, main_variant)
    finally:
        seq = tr.end()
    n = len(seq)
    # where does the top-level validate() end?  activations of the top-level object's own validators come first
    ctx.note_add("activations_total", n)
    ctx.count("fmt-" + fmt)
    if main_variant is not None:
        ctx.count("treeinfo-main-variant")
    top_cls = type(obj).__name__
    fired_points = set()
    for i in range(0, n, sample_every):
        label = seq[i]
        nested = not label.split(".")[-2] == top_cls
        preexisting = (i + order_seed) % 3 != 0
        case = {"fmt": fmt, "D": D, "order_seed": order_seed, "main_variant": main_variant, "preexisting": preexisting,
                "fault": {"kind": "inject", "index": i, "at": label, "of": n}}
        out = failing_dump(ctx, obj, fmt, case, workdir, good_bytes, preexisting, main_variant,
                           arm=lambda i=i: tr.begin("inject", target=i), disarm=tr.end)
        if out == "succeeded":
            ctx.note_add("injection_did_not_fail_the_dump")
        else:
            ctx.count("fault-in-nested-writer" if nested else "fault-in-top-level-validate")
            fired_points.add(label)
        ctx.case_done({"f": fmt, "D": D, "i": i, "p": preexisting, "m": main_variant}, nontrivial=(nested or preexisting) and out == "failed")
    return n, fired_points, obj, good_bytes


ODD_VALUES = ["1\n", b"bytes", float("inf"), float("nan"), 5, 1.5, None, ["x"], {"k": b"v"}, set([1]), "two\nlines", "form\x0cfeed", ("t",), object]


def odd_mutations(fmt, obj):
    """(label, apply(value)) for places NO validator looks at (deep table values, keys, caller-owned containers) and for
    values validators accept but a writer may choke on: whether such a dump fails is the library's business - IF it fails,
    the destination must be what it was."""
    out = []

    def setter(container, key):
        def apply(v):
            container[key] = v
        return apply

    def attr(o, name):
        def apply(v):
            setattr(o, name, v)
        return apply
    if fmt == "composeinfo":
        for v in corrupt._ci_variants(obj):
            for cat in ("os_tree", "packages", "repository", "isos"):
                table = getattr(v.paths, cat, None)
                if isinstance(table, dict):
                    for a in sorted(table):
                        out.append(("variant.paths.%s[arch] value" % cat, setter(table, a)))
                    out.append(("variant.paths.%s odd key" % cat, lambda val, t=table: t.__setitem__(5, "x")))
            out.append(("variant.name", attr(v, "name")))
        out.append(("compose.respin", attr(obj.compose, "respin")))
        out.append(("release.name", attr(obj.release, "name")))
    elif fmt == "images":
        for im in corrupt._images(obj):
            if isinstance(im.checksums, dict):
                for k in sorted(im.checksums):
                    out.append(("image.checksums value", setter(im.checksums, k)))
            out.append(("image.additional_variants element", lambda val, im=im: (setattr(im, "unified", True),
                                                                                setattr(im, "additional_variants", [val]))))
            out.append(("image.volume_id", attr(im, "volume_id")))
            out.append(("image.size", attr(im, "size")))
    elif fmt in ("rpms", "modules", "extra_files"):
        root = {"rpms": "rpms", "modules": "modules", "extra_files": "extra_files"}[fmt]

        def walk(node, depth):
            if isinstance(node, dict):
                for k in sorted(node, key=str):
                    out.append(("%s deep value (depth %d)" % (fmt, depth), setter(node, k)))
                    walk(node[k], depth + 1)
                out.append(("%s odd key (depth %d)" % (fmt, depth), lambda val, n=node: n.__setitem__(5, {"x": 1})))
            elif isinstance(node, list):
                for i in range(len(node)):
                    out.append(("%s list element" % fmt, setter(node, i)))
                    walk(node[i], depth + 1)
        walk(getattr(obj, root), 1)
        out.append(("compose.respin", attr(obj.compose, "respin")))
    elif fmt == "treeinfo":
        out.append(("tree.build_timestamp", attr(obj.tree, "build_timestamp")))
        out.append(("release.name", attr(obj.release, "name")))
        for p in sorted(obj.images.images):
            for k in sorted(obj.images.images[p]):
                out.append(("images[platform][name]", setter(obj.images.images[p], k)))
        for p in sorted(obj.checksums.checksums):
            out.append(("checksums[path]", setter(obj.checksums.checksums, p)))
            out.append(("checksums[path] value", lambda val, p=p: obj.checksums.checksums.__setitem__(p, ["sha256", val])))
        for v in corrupt._ti_variants(obj):
            out.append(("variant.name", attr(v, "name")))
            out.append(("variant.paths.packages", attr(v.paths, "packages")))
        out.append(("stage2.mainimage", attr(obj.stage2, "mainimage")))
        out.append(("media.discnum", attr(obj.media, "discnum")))
    elif fmt == "discinfo":
        out += [("timestamp", attr(obj, "timestamp")), ("description", attr(obj, "description")), ("arch", attr(obj, "arch")),
                ("disc_numbers element", lambda val: setattr(obj, "disc_numbers", [1, val])),
                ("disc_numbers", attr(obj, "disc_numbers"))]
    return out


def check_odd_value(ctx, pms, fmt, rng, workdir):
    force = {"composeinfo": "paths-full", "treeinfo": rng.choice(["images", "checksums", "media", "stage2"]), "images": None}.get(fmt)
    D = formats.gen(fmt, rng, force, hostile=False)
    order_seed = rng.randrange(1 << 30)
    try:
        obj = formats.build(pms, fmt, D, order_seed)
        for name in os.listdir(workdir):
            os.unlink(os.path.join(workdir, name))
        obj.dump(os.path.join(workdir, "dest"))
        with open(os.path.join(workdir, "dest"), "rb") as f:
            good_bytes = f.read()
    except Exception:
        return
    muts = odd_mutations(fmt, obj)
    if not muts:
        return
    mi = rng.randrange(len(muts))
    vi = rng.randrange(len(ODD_VALUES))
    label, apply = muts[mi]
    try:
        apply(ODD_VALUES[vi])
    except Exception:
        return
    preexisting = rng.random() < 0.75
    case = {"fmt": fmt, "D": D, "order_seed": order_seed, "preexisting": preexisting,
            "fault": {"kind": "odd-value", "place": label, "mutation_index": mi, "value_index": vi, "value": repr(ODD_VALUES[vi])[:40]}}
    out = failing_dump(ctx, obj, fmt, case, workdir, good_bytes, preexisting, None, arm=lambda: None, disarm=lambda: None,
                       violation_key="value-no-validator-looks-at-fails-inside-the-encoder")
    ctx.monitor("odd-value", fired=False)
    ctx.count("odd-value-dump-failed" if out == "failed" else "odd-value-dump-succeeded")
    ctx.case_done({"f": fmt, "D": D, "odd": [mi, vi], "p": preexisting}, nontrivial=out == "failed")


def check_real_value(ctx, pms, fmt, rng, workdir):
    slot = rng.choice(corrupt.BY_FMT[fmt])
    from checks import c06
    D = c06.suitable_description(fmt, slot, rng)
    if D is None:
        return
    if fmt == "images" and rng.random() < 0.5:
        # several Image objects sharing one path (a unified ISO listed per variant): any of them may be the invalid one
        D2 = formats.gen("images", rng, "same-path-other-cell")
        if D2["images"]:
            D = D2
            ctx.count("real-invalid-value-among-same-path-images")
    order_seed = rng.randrange(1 << 30)
    obj = formats.build(pms, fmt, D, order_seed)
    for name in os.listdir(workdir):
        os.unlink(os.path.join(workdir, name))
    good = os.path.join(workdir, "dest")
    try:
        obj.dump(good)
    except Exception:
        return
    with open(good, "rb") as f:
        good_bytes = f.read()
    targets = slot.targets(obj)
    if not targets:
        return
    pos = rng.randrange(len(targets))
    vi = rng.randrange(len(slot.values))
    slot.apply(targets[pos], slot.values[vi])
    preexisting = rng.random() < 0.6
    case = {"fmt": fmt, "D": D, "order_seed": order_seed, "preexisting": preexisting,
            "fault": {"kind": "value", "slot": slot.name, "position": pos, "value_index": vi,
                      "value": jsonable(corrupt.json_value(slot.values[vi]))}}
    out = failing_dump(ctx, obj, fmt, case, workdir, good_bytes, preexisting, None, arm=lambda: None, disarm=lambda: None)
    ctx.monitor("real-invalid-value", fired=False)
    if out == "failed":
        ctx.count("real-invalid-value")
    else:
        ctx.note_add("real_invalid_value_was_written")       # C06's subject
    ctx.case_done({"f": fmt, "D": D, "slot": slot.name, "pos": pos, "vi": vi, "p": preexisting}, nontrivial=out == "failed")


STRACE_SCRIPT = r'''
import json, os, sys
spec = json.load(open(sys.argv[1]))
sys.path[:0] = [spec["repo"], spec["here"]]
from rv import formats, instr
import productmd
assert os.path.realpath(productmd.__file__).startswith(os.path.realpath(spec["repo"]) + os.sep)
pms = formats.modules()
tr = instr.ValidatorTrace().install()
def mark(s):
    try:
        os.open("/nonexistent-rv-marker/%s" % s, os.O_RDONLY)
    except OSError:
        pass
for k, c in enumerate(spec["cases"]):
    obj = formats.build(pms, c["fmt"], c["D"], c["order_seed"])
    dest = os.path.join(spec["workdir"], "dest%d" % k)
    obj.dump(dest)
    mark("begin-%d" % k)
    tr.begin("inject", target=c["index"])
    try:
        obj.dump(dest)
        res = "succeeded"
    except Exception:
        res = "failed"
    finally:
        tr.end()
    mark("end-%d-%s" % (k, res))
'''


def strace_sample(ctx, pms, cases, workdir):
    if not shutil.which("strace") or not cases:
        ctx.note("strace", "not available")
        return
    import json
    here = os.path.dirname(os.path.dirname(os.path.abspath(__file__)))
    sdir = os.path.join(workdir, "strace")
    os.makedirs(sdir, exist_ok=True)
    script = os.path.join(sdir, "run.py")
    with open(script, "w") as f:
        f.write(STRACE_SCRIPT)
    spec = os.path.join(sdir, "spec.json")
    with open(spec, "w") as f:
        json.dump({"repo": ctx.repo, "here": here, "workdir": sdir, "cases": cases}, f)
    log = os.path.join(sdir, "trace.log")
    env = dict(os.environ)
    env["PYTHONDONTWRITEBYTECODE"] = "1"
    r = subprocess.run(["strace", "-f", "-e", "trace=openat,open,creat,rename,renameat,renameat2,unlink,unlinkat,truncate,ftruncate",
                        "-o", log, sys.executable, script, spec], env=env, stdout=subprocess.PIPE, stderr=subprocess.STDOUT,
                       text=True, timeout=600)
    if r.returncode != 0 or not os.path.exists(log):
        ctx.note("strace", "run failed: %s" % r.stdout[-300:])
        return
    cur = None
    bad = {}
    seen_cases = 0
    with open(log, errors="replace") as f:
        for line in f:
            if "/nonexistent-rv-marker/begin-" in line:
                cur = int(line.split("begin-")[1].split('"')[0])
                continue
            if "/nonexistent-rv-marker/end-" in line:
                tail = line.split("end-")[1].split('"')[0]
                k, res = tail.split("-")
                if res == "failed":
                    seen_cases += 1
                else:
                    bad.pop(int(k), None)
                cur = None
                continue
            if cur is None:
                continue
            dest = os.path.join(sdir, "dest%d" % cur)
            if dest in line:
                writing = any(fl in line for fl in ("O_WRONLY", "O_RDWR", "O_CREAT", "O_TRUNC", "O_APPEND")) or \
                    any(line.split()[1].startswith(sc) for sc in ("rename", "unlink", "truncate", "creat") if len(line.split()) > 1)
                if writing:
                    bad.setdefault(cur, []).append(line.strip()[:160])
    ctx.note("strace_cases_checked", seen_cases)
    for k, lines in bad.items():
        ctx.monitor("strace-no-write-syscall-on-destination", fired=True)
        ctx.violation("strace-no-write-syscall-on-destination", "no write-open / rename / unlink / truncate of the destination during a failing dump (OS-level log)",
                      dict(cases[k], fault={"kind": "inject", "index": cases[k]["index"]}), observed=lines[:3], expected="none",
                      key="dump-opens-destination-before-serialising")
    for _ in range(seen_cases - len(bad)):
        ctx.monitor("strace-no-write-syscall-on-destination")
    shutil.rmtree(sdir, ignore_errors=True)


def run_shard(ctx):
    pms = formats.modules()
    if ctx.vtrace is None:
        ctx.vtrace = instr.ValidatorTrace().install()
    if ctx.audit is None:
        ctx.audit = instr.AuditLog.install()
    workdir = os.path.join(ctx.scratch, "c18")
    os.makedirs(workdir, exist_ok=True)
    rng = ctx.rng(0)
    nobj = int(ctx.params.get("objects", 7))
    per_object = []
    points = set()
    strace_cases = []
    for k in range(nobj):
        if ctx.out_of_time():
            ctx.note("stopped_early_at_object", k)
            break
        fmt = formats.FORMATS[(k + ctx.shard) % len(formats.FORMATS)]
        force = None
        if fmt == "composeinfo":
            force = ["depth-3", "layered-product-variant", "paths-full"][k % 3]
        elif fmt == "images":
            force = ["many-per-cell", "shared-object", "unified"][k % 3]
        elif fmt == "treeinfo":
            force = ["depth-3", "images", "media", "stage2", "checksums"][k % 5]
        D = formats.gen(fmt, rng, force, hostile=False)
        order_seed = rng.randrange(1 << 30)
        main_variant = None
        if fmt == "treeinfo" and k % 2 == 0:
            main_variant = sorted(v["uid"] for v in D["variants"])[-1]
        try:
            n, fired, obj, good = check_object(ctx, pms, fmt, D, order_seed, workdir, rng, main_variant)
        except Exception as e:
            ctx.note_add("object_skipped")
            ctx.note("object_skipped_example", "%s: %s: %s" % (fmt, type(e).__name__, e))
            continue
        per_object.append([fmt, n])
        points |= fired
        if n and len(strace_cases) < int(ctx.params.get("strace_cases", 4)):
            strace_cases.append({"fmt": fmt, "D": D, "order_seed": order_seed, "index": rng.randrange(n)})
        if k < 2:
            ctx.sample({"fmt": fmt, "activations": n, "first_points": sorted(fired)[:5], "D": D if fmt == "discinfo" else "(description omitted)"})
    ctx.note("activations_per_object", per_object)
    ctx.note("distinct_fault_points", sorted(points))
    # real invalid values
    rng = ctx.rng(1)
    for j in range(int(ctx.params.get("values", 30))):
        if j % 16 == 0 and ctx.out_of_time():
            break
        fmt = formats.FORMATS[j % len(formats.FORMATS)]
        try:
            check_real_value(ctx, pms, fmt, rng, workdir)
        except Exception as e:
            ctx.note_add("real_value_case_skipped")
        try:
            check_odd_value(ctx, pms, fmt, rng, workdir)
            check_odd_value(ctx, pms, formats.FORMATS[(j + 3) % len(formats.FORMATS)], rng, workdir)
        except Exception as e:
            ctx.note_add("odd_value_case_skipped")
    if ctx.shard == 0:
        strace_sample(ctx, pms, strace_cases, workdir)


def replay(ctx, case):
    pms = formats.modules()
    if ctx.vtrace is None:
        ctx.vtrace = instr.ValidatorTrace().install()
    if ctx.audit is None:
        ctx.audit = instr.AuditLog.install()
    workdir = os.path.join(ctx.scratch, "c18")
    os.makedirs(workdir, exist_ok=True)
    fmt, D = case["fmt"], case["D"]
    obj = formats.build(pms, fmt, D, case["order_seed"])
    good = os.path.join(workdir, "dest")
    do_dump(obj, fmt, good, case.get("main_variant"))
    with open(good, "rb") as f:
        good_bytes = f.read()
    fault = case["fault"]
    tr = ctx.vtrace
    if fault["kind"] == "odd-value":
        muts = odd_mutations(fmt, obj)
        muts[fault["mutation_index"]][1](ODD_VALUES[fault["value_index"]])
        failing_dump(ctx, obj, fmt, case, workdir, good_bytes, case.get("preexisting", True), None, arm=lambda: None, disarm=lambda: None,
                     violation_key="value-no-validator-looks-at-fails-inside-the-encoder")
    elif fault["kind"] == "inject":
        failing_dump(ctx, obj, fmt, case, workdir, good_bytes, case.get("preexisting", True), case.get("main_variant"),
                     arm=lambda: tr.begin("inject", target=fault["index"]), disarm=tr.end)
    else:
        slot = corrupt.slot(fmt, fault["slot"])
        targets = slot.targets(obj)
        slot.apply(targets[fault["position"] % len(targets)], slot.values[fault["value_index"]])
        failing_dump(ctx, obj, fmt, case, workdir, good_bytes, case.get("preexisting", True), None, arm=lambda: None, disarm=lambda: None)
    ctx.case_done(case)
